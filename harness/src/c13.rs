//! C13 — accuracy-driven hit results are the closest achievable to the target.
//!
//! Brute force with exact rational distances: the target is the double stored by `.accuracy()`
//! (`m / 2^k` exactly), every accuracy of the mode has the constant denominator of the shape, so
//! distances are compared as integers (`|m·den − num·2^k|` in `u128`). The implementation's state
//! must have the given misses, distribute exactly the shape's objects and be within `2^-40` of the
//! optimum over ALL distributions. The same cases go to the Lean driver (`Float` instance, exact).

use std::collections::HashMap;

use crate::{
    common::Run,
    genstate::{
        achievable, corr_line, decompose, derived_of, describe, judgements, observe, request_line, scaled_dist,
        state_numerator, stored_acc, Case, Derived, CATCH, HIT_IDX, MANIA, MISS_IDX, MODE_NAMES, N_FIELDS, OSU, TAIKO,
    },
    rng::Rng,
};

struct Ctx<'a> {
    run: Run,
    only: Option<&'a str>,
    counter: [u64; 4],
    cache: HashMap<(u8, [u32; 4], Option<u32>, bool, bool, bool, u32), (u64, Vec<u64>)>,
    corr_every: [u64; 4],
    /// every how many cases a `GSQ` line (exact instance vs Float instance, both distances exact) is emitted
    q_every: u64,
    /// exploration mode (`VERIF_C13_DEEP=1`, never set by ./check): only section 3, larger, no lines
    deep: bool,
}

fn gcd(mut a: u128, mut b: u128) -> u128 {
    while b != 0 {
        (a, b) = (b, a % b);
    }
    a
}

/// `scaled / (den · 2^k)` as a reduced fraction `n/d` (the driver prints core `Rat`s the same way).
fn frac(scaled: u128, den: u64, k: u32) -> String {
    let d = u128::from(den) << k;
    let g = gcd(scaled, d);
    format!("{}/{}", scaled / g, d / g)
}

fn next_up(x: f64) -> f64 {
    if x.is_nan() || x == f64::INFINITY {
        return x;
    }
    if x == 0.0 {
        return f64::from_bits(1);
    }
    let b = x.to_bits();
    f64::from_bits(if x > 0.0 { b + 1 } else { b - 1 })
}

fn next_down(x: f64) -> f64 {
    -next_up(-x)
}

impl Ctx<'_> {
    /// Check one case (accuracy + optional misses, no hit results). `reference`: optional
    /// independently computed optimal scaled distance for large shapes.
    fn case(&mut self, c: Case, tag: &str, reference: Option<&dyn Fn(u128, u32, Derived, u32) -> (u64, u128)>) {
        let mode = c.mode as usize;
        self.counter[mode] += 1;
        let id = format!("{}{}", &MODE_NAMES[mode][..1], self.counter[mode]);
        if self.only.is_some_and(|o| o != id) {
            return;
        }
        let d = derived_of(&c);
        let o = observe(&c, false);
        let run = &mut self.run;
        run.count(&format!("mode:{}", MODE_NAMES[mode]));
        run.count(&format!("gen:{tag}"));
        run.count(&format!("{}: cases (in the quantifier)", arm_of(&c, d)));
        run.count(if c.worst { "priority:worst" } else { "priority:best" });
        run.count(&format!("origin:lazer={} no_slider_head_acc={} cl={}", u8::from(d.lazer), u8::from(d.nsha), u8::from(d.cl)));
        let line = request_line(&c, d);
        let (cap, j) = judgements(&c, d);
        run.eval((j > 0).then_some(line.as_str()));
        if j >= 3 && self.counter[mode] % 50_021 == 7 {
            run.sample(format!("{id}: {}", describe(&c, d)));
        }
        if self.counter[mode] % self.corr_every[mode] == 0 || tag != "exhaustive-small" {
            corr_line(run, &id, &c, d, &o);
        }
        let repro = || format!("{}\n{}", describe(&c, d), line);
        let s = match &o.s1 {
            Ok(s) => s.clone(),
            Err(e) => {
                run.fail("oracle:generate_state-fails", "", &id, e.clone(), repro());
                return;
            }
        };
        let misses = c.fields[MISS_IDX[mode]].unwrap_or(0).min(cap);
        if misses > 0 {
            run.count("misses:given>0");
        }
        let t = stored_acc(c.acc.unwrap_or(0.0));
        let Some((m, k)) = decompose(t) else {
            run.count("skipped:target-not-decomposable");
            return;
        };
        let Some(num) = state_numerator(&c, d, misses, &s) else {
            run.fail(
                "oracle:state-does-not-distribute-the-objects",
                "",
                &id,
                format!("expected misses {misses} and all {j} judgements distributed; state {s:?}"),
                repro(),
            );
            return;
        };
        let (den, best) = if let Some(f) = reference {
            f(m, k, d, misses)
        } else {
            let key = (c.mode, c.attrs, c.passed, d.lazer, d.nsha, d.cl, misses);
            let (den, nums) = self.cache.entry(key).or_insert_with(|| achievable(&c, d, misses));
            // nearest achievable numerator: binary search for the first num with num·2^k >= m·den
            let target = m * u128::from(*den);
            let idx = nums.partition_point(|&n| (u128::from(n) << k) < target);
            let mut best = u128::MAX;
            for i in [idx.wrapping_sub(1), idx] {
                if let Some(&n) = nums.get(i) {
                    best = best.min(scaled_dist(m, k, *den, n));
                }
            }
            (*den, best)
        };
        if den == 0 {
            run.count("trivial:no-judgements");
            return;
        }
        let mine = scaled_dist(m, k, den, num);
        // f64-vs-exact gap: the driver runs the exact instance `ratOps = fieldOps 2` (the instance of the
        // optimality theorems) and the Float instance on the same request and prints both exact
        // distances; expected: the exact instance attains the brute-force optimum, the Float instance
        // (= the implementation, by the `GS` line) has the implementation's distance.
        if self.counter[mode] % self.q_every == 0 || mine != best {
            let total = if c.mode == CATCH { c.attrs[0] + c.attrs[1] + c.attrs[2] } else { j };
            let run = &mut self.run;
            run.line(&format!("{id}q"), format!("GSQ{}", &line[2..]), format!("{misses} {total} {} {}", frac(best, den, k), frac(mine, den, k)));
            run.count(if mine == best {
                "exact-vs-f64: GSQ line, f64 answer as close as the exact instance's"
            } else {
                "exact-vs-f64: GSQ line, f64 answer worse than the exact instance's (must be within 2^-40)"
            });
        }
        let run = &mut self.run;
        if mine <= best {
            if mine < best {
                run.fail("oracle:brute-force-reference-wrong", "", &id, format!("implementation closer ({mine}) than the reference optimum ({best})"), repro());
            }
            run.count("optimal:exactly");
            return;
        }
        // excess distance (mine − best) / (den · 2^k) against 2^-40
        let excess = (mine - best) as f64 / (den as f64 * (2.0f64).powi(k as i32));
        if excess <= (2.0f64).powi(-40) {
            run.count("optimal:within-2^-40 (float tie)");
        } else {
            run.fail(
                "oracle:suboptimal-hit-results",
                "",
                &id,
                format!(
                    "target accuracy {t:e}: generated state {s:?} has accuracy {num}/{den}, distance exceeds the optimum by {excess:e}"
                ),
                repro(),
            );
        }
    }
}

/// `S` = provided, `N` = open, over the mode's hit-result fields (catch: tiny droplets, tiny misses).
fn pattern_of(c: &Case) -> String {
    let idx: &[usize] = if c.mode == CATCH { &[3, 4] } else { HIT_IDX[c.mode as usize] };
    idx.iter().map(|&i| if c.fields[i].is_some() { 'S' } else { 'N' }).collect()
}

fn origin_tag(mode: u8, d: Derived) -> &'static str {
    match mode {
        OSU => match (d.lazer, d.nsha) {
            (false, _) => "stable",
            (true, false) => "lazer-slider-acc",
            (true, true) => "lazer-classic-sliders",
        },
        MANIA => {
            if !d.lazer || d.cl {
                "classic"
            } else {
                "lazer"
            }
        }
        _ => "-",
    }
}

/// The arm of `generate_state` a case runs through (inventory key, see docs/delivery-C13b.md).
fn arm_of(c: &Case, d: Derived) -> String {
    format!("arm:{}:{}:{}", MODE_NAMES[c.mode as usize], pattern_of(c), origin_tag(c.mode, d))
}

/// All accuracy numerators of the completions of the provided (clamped) hit results: the open
/// fields take every distribution of the remaining objects. `None` when the provided values do not
/// fit. `extra` = slider part of the numerator (osu), taken from the generated state.
fn completions(weights: &[u64], provided: &[Option<u32>], r: u32, extra: u64) -> Option<Vec<u64>> {
    let fixed: u32 = provided.iter().map(|p| p.map_or(0, |v| v.min(r))).sum();
    if fixed > r {
        return None;
    }
    let base: u64 = provided.iter().zip(weights).map(|(p, w)| u64::from(p.map_or(0, |v| v.min(r))) * w).sum::<u64>() + extra;
    let open: Vec<u64> = provided.iter().zip(weights).filter(|(p, _)| p.is_none()).map(|(_, w)| *w).collect();
    let free = r - fixed;
    let mut nums = Vec::new();
    fn rec(open: &[u64], free: u32, acc: u64, out: &mut Vec<u64>) {
        match open {
            [] => {
                if free == 0 {
                    out.push(acc);
                }
            }
            [w] => out.push(acc + u64::from(free) * w),
            [w, rest @ ..] => {
                for k in 0..=free {
                    rec(rest, free - k, acc + u64::from(k) * w, out);
                }
            }
        }
    }
    rec(&open, free, base, &mut nums);
    nums.sort_unstable();
    nums.dedup();
    Some(nums)
}

impl Ctx<'_> {
    /// A search arm with some hit results provided (outside the property's quantifier, which is
    /// "no individual hit results"): the arm is exercised, tied to the model through a `GS` line, and
    /// its optimality among the completions of the provided results is *measured* (counts per arm);
    /// a sub-optimal answer here is an observation, not a violation of C13.
    fn case_provided(&mut self, c: Case) {
        let mode = c.mode as usize;
        self.counter[mode] += 1;
        let id = format!("{}{}", &MODE_NAMES[mode][..1], self.counter[mode]);
        if self.only.is_some_and(|o| o != id) {
            return;
        }
        let d = derived_of(&c);
        let o = observe(&c, false);
        let arm = arm_of(&c, d);
        let run = &mut self.run;
        run.count(&format!("mode:{}", MODE_NAMES[mode]));
        run.count("gen:provided-arms");
        let line = request_line(&c, d);
        let (cap, j) = judgements(&c, d);
        run.eval((j > 0).then_some(line.as_str()));
        if !self.deep {
            corr_line(run, &id, &c, d, &o);
        }
        let Ok(s) = &o.s1 else {
            run.fail("oracle:generate_state-fails", "", &id, format!("{:?}", o.s1), format!("{}\n{}", describe(&c, d), line));
            return;
        };
        let misses = c.fields[MISS_IDX[mode]].unwrap_or(0).min(cap);
        let Some((m, k)) = decompose(stored_acc(c.acc.unwrap_or(0.0))) else {
            return;
        };
        // weights, provided values, denominator, state numerator
        let (weights, idx, den, extra): (Vec<u64>, Vec<usize>, u64, u64) = match c.mode {
            OSU => {
                let [_, _, ns, nlt] = c.attrs;
                let (extra, max_extra) = match (d.lazer, d.nsha) {
                    (false, _) => (0, 0),
                    (true, false) => (150 * s[3].min(ns) + 30 * s[1].min(nlt), 150 * ns + 30 * nlt),
                    (true, true) => (30 * s[1].min(ns + nlt) + 10 * s[2].min(ns), 30 * (ns + nlt) + 10 * ns),
                };
                (vec![300, 100, 50], vec![4, 5, 6], u64::from(300 * j + max_extra), u64::from(extra))
            }
            TAIKO => (vec![2, 1], vec![1, 2], u64::from(2 * j), 0),
            CATCH => {
                // tiny droplets: numerator fruits + droplets + tiny over the constant denominator
                let [f, dd, t, _] = c.attrs;
                if let (Some(a), Some(b)) = (c.fields[3], c.fields[4]) {
                    if u64::from(a) + u64::from(b) == u64::from(t) {
                        // consistent pair: kept as provided, `find_best_tiny_droplets` is not called
                        run.count("arm:catch:SS(consistent):-: provided pair kept (not accuracy-driven)");
                        if s[3] != a || s[4] != b {
                            run.fail("oracle:provided-result-not-kept", "", &id, format!("tiny pair ({a},{b}) given, state {s:?}"), format!("{}\n{}", describe(&c, d), line));
                        }
                        return;
                    }
                }
                if s[1] + s[2] + s[5] != f + dd || s[3] + s[4] != t {
                    run.count(&format!("{arm}: state inconsistent (C12's clauses, not compared)"));
                    return;
                }
                let nums: Vec<u64> = (0..=t).map(|x| u64::from(s[1] + s[2] + x)).collect();
                let den = u64::from(f + dd + t);
                if den == 0 {
                    return;
                }
                let mine = scaled_dist(m, k, den, u64::from(s[1] + s[2] + s[3]));
                let best = nums.iter().map(|&n| scaled_dist(m, k, den, n)).min().unwrap_or(0);
                Self::tally(run, &arm, &id, &c, d, mine, best, den, k, s, &line);
                return;
            }
            _ => {
                let w = if !d.lazer || d.cl { 60 } else { 61 };
                (vec![w, 60, 40, 20, 10], vec![0, 1, 2, 3, 4], w * u64::from(j), 0)
            }
        };
        if den == 0 {
            return;
        }
        let r = j - misses;
        let provided: Vec<Option<u32>> = idx.iter().map(|&i| c.fields[i]).collect();
        let Some(nums) = completions(&weights, &provided, r, extra) else {
            run.count(&format!("{arm}: provided results exceed the objects (not compared)"));
            return;
        };
        // the state must keep the provided results and distribute the objects (C12's clauses)
        let kept = idx.iter().all(|&i| c.fields[i].is_none_or(|v| s[i] == v.min(r)));
        let total: u32 = idx.iter().map(|&i| s[i]).sum::<u32>() + s[MISS_IDX[mode]];
        if !kept || total != j || s[MISS_IDX[mode]] != misses {
            run.count(&format!("{arm}: state inconsistent (C12's clauses, not compared)"));
            return;
        }
        let num: u64 = idx.iter().zip(&weights).map(|(&i, w)| u64::from(s[i]) * w).sum::<u64>() + extra;
        let mine = scaled_dist(m, k, den, num);
        let best = nums.iter().map(|&n| scaled_dist(m, k, den, n)).min().unwrap_or(0);
        Self::tally(run, &arm, &id, &c, d, mine, best, den, k, s, &line);
    }

    #[allow(clippy::too_many_arguments)]
    fn tally(run: &mut Run, arm: &str, id: &str, c: &Case, d: Derived, mine: u128, best: u128, den: u64, k: u32, s: &[u32], line: &str) {
        if mine < best {
            run.fail("oracle:brute-force-reference-wrong", "", id, format!("implementation closer ({mine}) than the reference optimum ({best})"), format!("{}\n{}", describe(c, d), line));
            return;
        }
        let excess = (mine - best) as f64 / (den as f64 * (2.0f64).powi(k as i32));
        if mine == best {
            run.count(&format!("{arm}: optimal"));
        } else if excess <= (2.0f64).powi(-40) {
            run.count(&format!("{arm}: optimal within 2^-40 (float tie)"));
        } else {
            let key = format!("{arm}: SUB-OPTIMAL among the completions (observation: outside the quantifier)");
            if run.dist.get(&key).copied().unwrap_or(0) == 0 {
                run.notes.push(format!("{key}; first: {} -> {s:?}, excess {excess:e}", describe(c, d)));
            }
            run.count(&key);
        }
    }
}

fn shapes(mode: u8, max_obj: u32) -> Vec<[u32; 4]> {
    let mut v = Vec::new();
    match mode {
        OSU => {
            for no in 0..=max_obj {
                for ns in 0..=no.min(3) {
                    for nlt in 0..=(if ns == 0 { 0 } else { 2 }) {
                        v.push([no + ns + nlt, no, ns, nlt]);
                    }
                }
            }
        }
        TAIKO => {
            for mc in 0..=max_obj + 4 {
                v.push([mc, 0, 0, 0]);
            }
        }
        CATCH => {
            for f in 0..=max_obj.min(5) {
                for d in 0..=3u32 {
                    for t in 0..=6u32 {
                        v.push([f, d, t, 0]);
                    }
                }
            }
        }
        _ => {
            for no in 0..=max_obj {
                for nh in 0..=no.min(3) {
                    v.push([no, nh, 0, 0]);
                }
            }
        }
    }
    v
}

pub fn run(tier: &str, seed: u64, only: Option<&str>) -> Run {
    let thorough = tier == "thorough";
    let mut cx = Ctx {
        run: Run::default(),
        only,
        counter: [0; 4],
        cache: HashMap::new(),
        corr_every: if thorough { [1, 1, 1, 2] } else { [2, 1, 1, 3] },
        q_every: if thorough { 2 } else { 5 },
        deep: std::env::var("VERIF_C13_DEEP").is_ok(),
    };
    let mut rng = Rng::new(seed ^ 0xC13);
    let grid_step = if thorough { 0.25 } else { 0.5 };
    let max_obj = if thorough { 8 } else { 7 };

    // 1. exhaustive small shapes x every miss count x grid + exact midpoints x priority x origin
    let deep = cx.deep;
    for mode in if deep { vec![] } else { vec![OSU, TAIKO, CATCH, MANIA] } {
        let nf = N_FIELDS[mode as usize];
        let origins: &[u8] = match mode {
            OSU => &[0, 2, 3],
            MANIA => &[0, 2],
            _ => &[1],
        };
        for attrs in shapes(mode, max_obj) {
            for &origin in origins {
                let passed_opts: Vec<Option<u32>> = if mode == CATCH || attrs[[1, 0, 0, 0][mode as usize]] < 2 || !rng.chance(1, 4) {
                    vec![None]
                } else {
                    let n = attrs[[1, 0, 0, 0][mode as usize]];
                    vec![None, Some(1 + rng.below(u64::from(n) - 1) as u32)]
                };
                for passed in passed_opts {
                    let probe = Case { mode, attrs, spinners: 0, passed, origin, worst: false, acc: Some(0.0), fields: vec![None; nf] };
                    let d = derived_of(&probe);
                    let (cap, _) = judgements(&probe, d);
                    // misses: not provided, and every value 0..=cap (+ one beyond)
                    let mut miss_opts: Vec<Option<u32>> = vec![None];
                    miss_opts.extend((0..=cap + 1).map(Some));
                    for mo in miss_opts {
                        let misses = mo.unwrap_or(0).min(cap);
                        let (den, nums) = achievable(&probe, d, misses);
                        let mut targets: Vec<f64> = Vec::new();
                        let mut a = 0.0;
                        while a <= 100.0 {
                            targets.push(a);
                            a += grid_step;
                        }
                        if den > 0 {
                            // mania has hundreds of achievable values: sample the midpoints in the quick tier
                            let stride = if !thorough && nums.len() > 120 { nums.len() / 120 } else { 1 };
                            for w in nums.windows(2).step_by(stride) {
                                let mid = 100.0 * (w[0] + w[1]) as f64 / (2.0 * den as f64);
                                targets.push(mid);
                                targets.push(next_up(mid));
                                targets.push(next_down(mid));
                            }
                            // the achievable values themselves
                            for &n in nums.iter().step_by(stride) {
                                targets.push(100.0 * n as f64 / den as f64);
                            }
                        }
                        for worst in [false, true] {
                            if mode == CATCH && worst {
                                continue;
                            }
                            for &acc in &targets {
                                let mut fields = vec![None; nf];
                                fields[MISS_IDX[mode as usize]] = mo;
                                let c = Case { mode, attrs, spinners: 0, passed, origin, worst, acc: Some(acc), fields };
                                cx.case(c, "exhaustive-small", None);
                            }
                            // a provided combo is not a hit result: the play is still "specified by accuracy"
                            // and the generated distribution must stay optimal whatever combo accompanies it
                            // (seed C13-catch-tiny-window-uses-clamped-combo displaced the search window by
                            // the clamped combo). Every 5th target x a few combos, modes with a combo field.
                            if mode != MANIA {
                                let mc = match mode {
                                    CATCH => attrs[0] + attrs[1],
                                    _ => attrs[0],
                                };
                                let mut combos = vec![0, 1, mc / 2, mc.saturating_sub(1), mc, mc + 3];
                                combos.sort_unstable();
                                combos.dedup();
                                for &acc in targets.iter().step_by(5) {
                                    for &cb in &combos {
                                        let mut fields = vec![None; nf];
                                        fields[MISS_IDX[mode as usize]] = mo;
                                        fields[0] = Some(cb);
                                        let c = Case { mode, attrs, spinners: 0, passed, origin, worst, acc: Some(acc), fields };
                                        cx.case(c, "exhaustive-small-combo", None);
                                    }
                                }
                            }
                        }
                    }
                }
            }
        }
    }

    // 2. sampled larger shapes with an independently computed exact optimum
    let n_large = if deep { 0 } else if thorough { 40_000 } else { 6_000 };
    for i in 0..n_large {
        let mode = [OSU, TAIKO, CATCH, MANIA][i % 4];
        let nf = N_FIELDS[mode as usize];
        let scale = *rng.pick(&[20u64, 300, 5000]);
        let acc = match rng.below(3) {
            0 => (rng.unit() * 10000.0).round() / 100.0,
            1 => 90.0 + rng.unit() * 10.0,
            _ => rng.unit() * 100.0,
        };
        let origin = match mode {
            OSU => *rng.pick(&[0u8, 2, 3]),
            MANIA => *rng.pick(&[0u8, 2]),
            _ => 1,
        };
        let worst = mode != CATCH && rng.chance(1, 2);
        match mode {
            OSU => {
                let no = 9 + rng.below(scale) as u32;
                let ns = rng.below(u64::from(no) + 1) as u32;
                let nlt = if ns == 0 { 0 } else { rng.below(scale) as u32 };
                let attrs = [no + ns + nlt, no, ns, nlt];
                let mo = if rng.chance(1, 2) { None } else { Some(rng.below(u64::from(no) + 2) as u32) };
                let mut fields = vec![None; nf];
                fields[7] = mo;
                let c = Case { mode, attrs, spinners: 0, passed: None, origin, worst, acc: Some(acc), fields };
                let reference = move |m: u128, k: u32, d: Derived, misses: u32| -> (u64, u128) {
                    let r = no - misses;
                    let extra = match (d.lazer, d.nsha) {
                        (false, _) => 0,
                        (true, false) => 150 * ns + 30 * nlt,
                        (true, true) => 30 * (ns + nlt) + 10 * ns,
                    };
                    let den = u64::from(300 * no + extra);
                    // for every n300 the best n100 is the clamped floor/ceil of the exact solution
                    let mut best = u128::MAX;
                    let target = m * u128::from(den);
                    for a in 0..=r {
                        let base = u128::from(300 * a + 50 * (r - a) + extra) << k;
                        // num = base + 50·b·2^k, b in 0..=r-a
                        let b0 = if target > base { ((target - base) >> k) / 50 } else { 0 };
                        for b in [b0, b0 + 1] {
                            let b = b.min(u128::from(r - a)) as u32;
                            let num = u64::from(300 * a + 100 * b + 50 * (r - a - b) + extra);
                            best = best.min(scaled_dist(m, k, den, num));
                        }
                    }
                    (den, best)
                };
                cx.case(c, "sampled-large", Some(&reference));
            }
            TAIKO => {
                let mc = 13 + rng.below(scale * 20) as u32;
                let mo = if rng.chance(1, 2) { None } else { Some(rng.below(u64::from(mc) + 2) as u32) };
                let mut fields = vec![None; nf];
                fields[3] = mo;
                let c = Case { mode, attrs: [mc, 0, 0, 0], spinners: 0, passed: None, origin, worst, acc: Some(acc), fields };
                let reference = move |m: u128, k: u32, _d: Derived, misses: u32| -> (u64, u128) {
                    let r = mc - misses;
                    let den = u64::from(2 * mc);
                    let target = m * u128::from(den);
                    let base = u128::from(r) << k; // num = r + a
                    let a0 = if target > base { (target - base) >> k } else { 0 };
                    let mut best = u128::MAX;
                    for a in [a0, a0 + 1] {
                        let a = a.min(u128::from(r)) as u32;
                        best = best.min(scaled_dist(m, k, den, u64::from(r + a)));
                    }
                    (den, best)
                };
                cx.case(c, "sampled-large", Some(&reference));
            }
            CATCH => {
                let f = rng.below(scale) as u32;
                let dd = rng.below(scale) as u32;
                let t = rng.below(scale * 4) as u32;
                let mo = if rng.chance(1, 2) { None } else { Some(rng.below(u64::from(f + dd) + 2) as u32) };
                let mut fields = vec![None; nf];
                fields[5] = mo;
                let c = Case { mode, attrs: [f, dd, t, 0], spinners: 0, passed: None, origin, worst, acc: Some(acc), fields };
                let reference = move |m: u128, k: u32, _d: Derived, misses: u32| -> (u64, u128) {
                    let fd = f + dd - misses;
                    let den = u64::from(f + dd + t);
                    let target = m * u128::from(den);
                    let base = u128::from(fd) << k;
                    let x0 = if target > base { (target - base) >> k } else { 0 };
                    let mut best = u128::MAX;
                    for x in [x0, x0 + 1] {
                        let x = x.min(u128::from(t)) as u32;
                        best = best.min(scaled_dist(m, k, den, u64::from(fd + x)));
                    }
                    (den, best)
                };
                cx.case(c, "sampled-large", Some(&reference));
            }
            _ => {
                // mania: plain brute force over all distributions, so moderately sized only
                let no = 9 + rng.below(if thorough { 22 } else { 12 }) as u32;
                let nh = rng.below(u64::from(no.min(6)) + 1) as u32;
                let mo = if rng.chance(1, 2) { None } else { Some(rng.below(u64::from(no) + 2) as u32) };
                let mut fields = vec![None; nf];
                fields[5] = mo;
                let c = Case { mode, attrs: [no, nh, 0, 0], spinners: 0, passed: None, origin, worst, acc: Some(acc), fields };
                cx.case(c, "sampled-large", None);
            }
        }
    }
    // 3. the search arms with some hit results provided (outside the quantifier; measured per arm)
    let max_obj3 = if deep { 10 } else if thorough { 6 } else { 5 };
    let n_assign = if deep { 12 } else if thorough { 8 } else { 3 };
    let n_mid = if deep { 40 } else if thorough { 12 } else { 6 };
    let grid3 = if deep { 2.5 } else if thorough { 5.0 } else { 10.0 };
    for mode in if deep { vec![MANIA] } else { vec![OSU, CATCH, MANIA] } {
        let nf = N_FIELDS[mode as usize];
        let origins: &[u8] = match mode {
            OSU => &[0, 2, 3],
            MANIA => &[0, 2],
            _ => &[1],
        };
        // provided patterns over the hit-result fields that run a search
        let hit: Vec<usize> = if mode == CATCH { vec![3, 4] } else { HIT_IDX[mode as usize].to_vec() };
        let mut patterns: Vec<Vec<bool>> = Vec::new();
        for bits in 0u32..(1 << hit.len()) {
            let given: Vec<bool> = (0..hit.len()).map(|i| bits >> i & 1 == 1).collect();
            let n_given = given.iter().filter(|g| **g).count();
            let searched = match mode {
                OSU => n_given == 1,
                CATCH => n_given == 2,
                _ => n_given >= 1 && hit.len() - n_given >= 2,
            };
            if searched {
                patterns.push(given);
            }
        }
        for attrs in shapes(mode, max_obj3) {
            if mode == MANIA && attrs[1] > 2 {
                continue;
            }
            for &origin in origins {
                let probe = Case { mode, attrs, spinners: 0, passed: None, origin, worst: false, acc: Some(0.0), fields: vec![None; nf] };
                let d = derived_of(&probe);
                let (cap, j) = judgements(&probe, d);
                let mut miss_opts: Vec<Option<u32>> = vec![None];
                miss_opts.extend((0..=cap.min(2)).map(Some));
                for mo in miss_opts {
                    let r = if mode == CATCH { attrs[2] } else { j - mo.unwrap_or(0).min(cap) };
                    for given in &patterns {
                        for _ in 0..n_assign {
                            let mut fields = vec![None; nf];
                            fields[MISS_IDX[mode as usize]] = mo;
                            // provided values: mostly jointly fitting, sometimes beyond
                            let mut left = r + u32::from(rng.chance(1, 6)) * 2;
                            for (gi, &i) in hit.iter().enumerate() {
                                if given[gi] {
                                    let v = rng.below(u64::from(left) + 1) as u32;
                                    left -= v.min(left);
                                    fields[i] = Some(v);
                                }
                            }
                            if mode == OSU && rng.chance(1, 2) {
                                for i in 1..=3 {
                                    if rng.chance(1, 2) {
                                        fields[i] = Some(rng.below(4) as u32);
                                    }
                                }
                            }
                            let worst = mode != CATCH && rng.chance(1, 2);
                            let mut targets: Vec<f64> = Vec::new();
                            let mut a = 0.0;
                            while a <= 100.0 {
                                targets.push(a);
                                a += grid3;
                            }
                            // midpoints between achievable accuracies of the unrestricted problem
                            let (den, nums) = achievable(&probe, d, mo.unwrap_or(0).min(cap));
                            if den > 0 && nums.len() > 1 {
                                for _ in 0..n_mid {
                                    let w = rng.below(nums.len() as u64 - 1) as usize;
                                    let mid = 100.0 * (nums[w] + nums[w + 1]) as f64 / (2.0 * den as f64);
                                    targets.push(mid);
                                    targets.push(100.0 * nums[w] as f64 / den as f64);
                                }
                            }
                            for acc in targets {
                                let c = Case { mode, attrs, spinners: 0, passed: None, origin, worst, acc: Some(acc), fields: fields.clone() };
                                cx.case_provided(c);
                            }
                        }
                    }
                }
            }
        }
    }
    // 4. the remaining arms (accuracy given, but too many hit results provided for a search): the
    //    inventory says their state does not depend on the accuracy's value
    //    (`*_acc_value_irrelevant`); measured per arm, tied to the model by `GS` lines
    for mode in if deep { vec![] } else { vec![OSU, TAIKO, CATCH, MANIA] } {
        let nf = N_FIELDS[mode as usize];
        let hit: Vec<usize> = if mode == CATCH { vec![3, 4] } else { HIT_IDX[mode as usize].to_vec() };
        let origins: &[u8] = match mode {
            OSU => &[0, 2, 3],
            MANIA => &[0, 2],
            _ => &[1],
        };
        for bits in 0u32..(1 << hit.len()) {
            let n_given = bits.count_ones() as usize;
            let search = match mode {
                OSU => n_given <= 1,
                TAIKO => n_given == 0,
                CATCH => n_given == 0,
                _ => hit.len() - n_given >= 2,
            };
            if search {
                continue;
            }
            for &origin in origins {
                for rep in 0..(if thorough { 40 } else { 10 }) {
                    let attrs = match mode {
                        OSU => {
                            let no = 1 + rng.below(8) as u32;
                            let ns = rng.below(u64::from(no.min(3)) + 1) as u32;
                            let nlt = if ns == 0 { 0 } else { rng.below(3) as u32 };
                            [no + ns + nlt, no, ns, nlt]
                        }
                        TAIKO => [1 + rng.below(12) as u32, 0, 0, 0],
                        CATCH => [rng.below(5) as u32, rng.below(4) as u32, 1 + rng.below(6) as u32, 0],
                        _ => {
                            let no = 1 + rng.below(8) as u32;
                            [no, rng.below(u64::from(no.min(3)) + 1) as u32, 0, 0]
                        }
                    };
                    let probe = Case { mode, attrs, spinners: 0, passed: None, origin, worst: false, acc: Some(0.0), fields: vec![None; nf] };
                    let d = derived_of(&probe);
                    let (cap, j) = judgements(&probe, d);
                    let mo = if rep % 2 == 0 { None } else { Some(rng.below(u64::from(cap) + 1) as u32) };
                    let r = if mode == CATCH { attrs[2] } else { j - mo.unwrap_or(0) };
                    let mut fields = vec![None; nf];
                    fields[MISS_IDX[mode as usize]] = mo;
                    let mut left = r;
                    let n_set = bits.count_ones();
                    let mut seen = 0;
                    for (gi, &i) in hit.iter().enumerate() {
                        if bits >> gi & 1 == 1 {
                            seen += 1;
                            // catch: a consistent pair (the inconsistent one is a search arm, section 3)
                            let v = if mode == CATCH && n_set == 2 && seen == 2 { left } else { rng.below(u64::from(left) + 1) as u32 };
                            left -= v;
                            fields[i] = Some(v);
                        }
                    }
                    let worst = mode != CATCH && rng.chance(1, 2);
                    let mut states = Vec::new();
                    for acc in [12.5, 97.3] {
                        let c = Case { mode, attrs, spinners: 0, passed: None, origin, worst, acc: Some(acc), fields: fields.clone() };
                        cx.counter[mode as usize] += 1;
                        let id = format!("{}{}", &MODE_NAMES[mode as usize][..1], cx.counter[mode as usize]);
                        if only.is_some_and(|o| o != id) {
                            continue;
                        }
                        let o = observe(&c, false);
                        cx.run.eval(Some(request_line(&c, d).as_str()));
                        cx.run.count("gen:non-search-arms");
                        corr_line(&mut cx.run, &id, &c, d, &o);
                        states.push((arm_of(&c, d), o.s1.clone()));
                    }
                    if let [(arm, a), (_, b)] = &states[..] {
                        if a == b {
                            cx.run.count(&format!("{arm}: not accuracy-driven (same state for two accuracies)"));
                        } else {
                            let key = format!("{arm}: state DEPENDS on the accuracy (inventory stale)");
                            cx.run.notes.push(format!("{key}: {a:?} vs {b:?}"));
                            cx.run.count(&key);
                        }
                    }
                }
            }
        }
    }
    cx.run
}
