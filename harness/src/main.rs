use std::{env, path::PathBuf, process::ExitCode};

use rosu_verif::common::Run;

fn main() -> ExitCode {
    let args: Vec<String> = env::args().collect();
    if args.len() < 5 {
        eprintln!("usage: rosu_verif <prop> <tier> <seed> <outdir> [only-case-id]");
        return ExitCode::from(2);
    }
    // panics are caught per case; keep stderr quiet
    std::panic::set_hook(Box::new(|_| {}));
    let prop = args[1].as_str();
    let tier = args[2].as_str();
    let seed: u64 = args[3].parse().unwrap_or(0);
    let out = PathBuf::from(&args[4]);
    let only = args.get(5).map(String::as_str);
    #[cfg(feature = "p10")]
    if prop == "C10DUMP" {
        // canonical dump of the seeded workload, compared across feature builds by ./check C10
        let (text, notes) = rosu_verif::c10::dump(tier, seed);
        if std::fs::create_dir_all(&out).is_err()
            || std::fs::write(out.join("dump.txt"), text).is_err()
            || std::fs::write(out.join("dump-notes.txt"), notes).is_err()
        {
            eprintln!("cannot write dump");
            return ExitCode::from(2);
        }
        return ExitCode::SUCCESS;
    }
    let run: Run = match prop {
        #[cfg(feature = "p01")]
        "C01" => rosu_verif::c01::run(tier, seed, only),
        #[cfg(feature = "p02")]
        "C02" => rosu_verif::c02::run(tier, seed, only),
        #[cfg(feature = "p03")]
        "C03" => rosu_verif::c03::run(tier, seed, only),
        #[cfg(feature = "p04")]
        "C04" => rosu_verif::c04::run(tier, seed, only),
        #[cfg(feature = "p05")]
        "C05" => rosu_verif::c05::run(tier, seed, only),
        #[cfg(feature = "p06")]
        "C06" => rosu_verif::c06::run(tier, seed, only),
        #[cfg(feature = "p07")]
        "C07" => rosu_verif::c07::run(tier, seed, only),
        #[cfg(feature = "p08")]
        "C08" => rosu_verif::c08::run(tier, seed, only),
        #[cfg(feature = "p09")]
        "C09" => rosu_verif::c09::run(tier, seed, only),
        #[cfg(feature = "p10")]
        "C10" => rosu_verif::c10::run(tier, seed, only),
        #[cfg(feature = "p11")]
        "C11" => rosu_verif::c11::run(tier, seed, only),
        #[cfg(feature = "p12")]
        "C12" => rosu_verif::c12::run(tier, seed, only),
        #[cfg(feature = "p13")]
        "C13" => rosu_verif::c13::run(tier, seed, only),
        #[cfg(feature = "p14")]
        "C14" => rosu_verif::c14::run(tier, seed, only),
        #[cfg(feature = "p15")]
        "C15" => rosu_verif::c15::run(tier, seed, only),
        #[cfg(feature = "p16")]
        "C16" => rosu_verif::c16::run(tier, seed, only),
        #[cfg(feature = "p17")]
        "C17" => rosu_verif::c17::run(tier, seed, only),
        #[cfg(feature = "p18")]
        "C18" => rosu_verif::c18::run(tier, seed, only),
        #[cfg(feature = "p19")]
        "C19" => rosu_verif::c19::run(tier, seed, only),
        #[cfg(feature = "p20")]
        "C20" => rosu_verif::c20::run(tier, seed, only),
        _ => {
            eprintln!("unknown property {prop}");
            return ExitCode::from(2);
        }
    };
    if let Err(e) = run.write(&out) {
        eprintln!("cannot write results: {e}");
        return ExitCode::from(2);
    }
    ExitCode::SUCCESS
}
