//! C02 / C19 / C14 / C16 — osu!→mania CONVERT end to end: `PIPE maniac` lines. The real
//! `Difficulty::calculate_for_mode::<Mania>` (and gradual values) on osu! maps under every key mod,
//! with and without HoldOff / Invert, vs `lean/RosuModel/Model/PipelineManiaConvert.lean`.
use rosu_pp::{
    mania::{verif::gen, Mania, ManiaGradualDifficulty},
    Beatmap, Difficulty, GameMods,
};

use crate::{
    common::{decode, guarded, hash64, resource_maps, truncate_objects, LazerTag, ModsSpec, Run},
    mapgen::{random_map, GenCfg},
    rng::Rng,
};

fn h32(x: f32) -> String {
    format!("{:x}", x.to_bits())
}

fn h64(x: f64) -> String {
    format!("{:x}", x.to_bits())
}

const KEYS: [&str; 10] = ["1K", "2K", "3K", "4K", "5K", "6K", "7K", "8K", "9K", "10K"];

#[allow(clippy::too_many_arguments)]
fn case(run: &mut Run, id: &str, map: &Beatmap, keys: Option<usize>, ho: bool, inv: bool, rnd: Option<i32>, clock: f64, passed: Option<u32>, rng: &mut Rng, repro: &str) {
    let mut tags: Vec<LazerTag> = Vec::new();
    if let Some(k) = keys {
        tags.push(LazerTag::Acronym(KEYS[k - 1]));
    }
    if ho {
        tags.push(LazerTag::Acronym("HO"));
    }
    if inv {
        tags.push(LazerTag::Acronym("IN"));
    }
    if let Some(seed) = rnd {
        tags.push(LazerTag::RandomSeed(seed));
    }
    let mods: GameMods = ModsSpec::Lazer(tags).build(3);
    let mut d = Difficulty::new().mods(mods.clone()).clock_rate(clock);
    if let Some(k) = passed {
        d = d.passed_objects(k);
    }
    let (m2, g2) = (map.clone(), mods.clone());
    let Ok((_, trace)) = guarded(move || gen::convert_traced(&m2, &g2)) else {
        run.fail("oracle:mania-convert-traced-panic", "", id, "panic".into(), repro.to_owned());
        return;
    };
    let (m3, d3) = (map.clone(), d.clone());
    let attrs = match guarded(move || d3.calculate_for_mode::<Mania>(&m3)) {
        Ok(Ok(a)) => a,
        Ok(Err(_)) => return,
        Err(e) => {
            run.fail("oracle:mania-convert-calculate-panic", "", id, e, repro.to_owned());
            return;
        }
    };
    let mut objs: Vec<String> = Vec::with_capacity(trace.objects.len());
    let mut exact = true;
    for (o, h) in trace.objects.iter().zip(map.hit_objects.iter()) {
        match o {
            gen::TraceObj::Circle { x, start_time, sample, convert_type, .. } => {
                exact &= x.fract() == 0.0 && x.abs() < 1e9;
                objs.push(format!("c,{},{sample},{convert_type},{}", *x as i64, h64(*start_time)));
            }
            gen::TraceObj::Slider { x, sample, convert_type, span_count, start_time, end_time, segment_duration, node_sounds, .. } => {
                exact &= x.fract() == 0.0 && x.abs() < 1e9;
                objs.push(format!(
                    "s,{},{sample},{convert_type},{span_count},{start_time},{end_time},{segment_duration},{}",
                    *x as i64,
                    if node_sounds.is_empty() { "-".to_owned() } else { node_sounds.iter().map(|s| s.to_string()).collect::<Vec<_>>().join(":") }
                ));
            }
            gen::TraceObj::Spinner { sample, start_time, end_time, .. } => {
                objs.push(format!(
                    "e,{sample},{},{},{},{},{}",
                    u8::from(end_time - start_time >= 100.0),
                    u8::from(end_time - start_time < 1000.0),
                    h64(*start_time),
                    h64(*end_time),
                    u8::from(h.is_hold_note())
                ));
            }
        }
    }
    if !exact || trace.objects.len() != map.hit_objects.len() {
        run.count("pipem:skipped");
        return;
    }
    let n_out = attrs.n_objects as usize;
    // gradual values (no passed_objects on the gradual calculator's Difficulty)
    let mut gidx: Vec<usize> = Vec::new();
    let mut gvals = String::new();
    if passed.is_none() && n_out > 0 {
        for _ in 0..2 {
            gidx.push(1 + rng.below(n_out as u64) as usize);
        }
        gidx.push(n_out);
        // one index beyond the end: `nth` returns None there
        gidx.push(n_out + 1);
        gidx.sort_unstable();
        gidx.dedup();
        for i in &gidx {
            let (m4, d4, k) = (map.clone(), Difficulty::new().mods(mods.clone()).clock_rate(clock), *i);
            match guarded(move || ManiaGradualDifficulty::new(d4, &m4).ok().and_then(|mut g| g.nth(k - 1))) {
                Ok(Some(a)) => gvals.push_str(&format!(" G{i}={}:{}:{}:{}", h64(a.stars), a.max_combo, a.n_objects, a.n_hold_notes)),
                Ok(None) => gvals.push_str(&format!(" G{i}=none")),
                Err(_) => gvals.push_str(&format!(" G{i}=PANIC")),
            }
        }
    }
    let timing = if map.timing_points.is_empty() { "-".to_owned() } else { map.timing_points.iter().map(|t| format!("{}:{}", h64(t.time), h64(t.beat_len))).collect::<Vec<_>>().join(",") };
    run.count(&format!("pipem:keys={}", trace.total_columns));
    run.count(&format!("pipem:key-mod:{}", keys.map_or("none".to_owned(), |k| k.to_string())));
    run.count(&format!("pipem:holdoff={ho}:invert={inv}"));
    run.count(&format!("pipem:random:{}", match rnd { None => "none", Some(0) => "seed 0", Some(i32::MAX) => "seed i32::MAX", Some(i32::MIN) => "seed i32::MIN", Some(x) if x < 0 => "seed <0", _ => "seed >0" }));
    run.count(&format!("pipem:take:{}", match passed { None => "unset", Some(0) => "0", Some(k) if (k as usize) < n_out.max(1) => "<n", _ => ">=n" }));
    run.count(&format!("pipem:stars:{}", if attrs.stars == 0.0 { "0" } else { ">0" }));
    run.count("pipem:lines");
    run.repro.insert(id.to_owned(), repro.to_owned());
    run.line(
        id,
        format!(
            "PIPE maniac {} {} {} {} {} {} {} {} {} {} {} {} {} {}",
            keys.map_or("-".to_owned(), |k| k.to_string()),
            h32(map.hp),
            h32(map.cs),
            h32(map.od),
            h32(map.ar),
            h64(trace.conversion_difficulty.unwrap_or(0.0)),
            h64(clock),
            passed.map_or("-".to_owned(), |k| k.to_string()),
            u8::from(ho),
            u8::from(inv),
            rnd.map_or("-".to_owned(), |x| x.to_string()),
            if gidx.is_empty() { "-".to_owned() } else { gidx.iter().map(|i| i.to_string()).collect::<Vec<_>>().join(",") },
            timing,
            if objs.is_empty() { "-".to_owned() } else { objs.join(";") }
        ),
        format!(
            "{} {} {} {} {} {} {}{gvals}",
            trace.total_columns,
            trace.seed,
            h64(attrs.stars),
            attrs.max_combo,
            attrs.n_objects,
            attrs.n_hold_notes,
            u8::from(attrs.is_convert)
        ),
    );
    run.eval((!objs.is_empty()).then_some(id));
}

pub fn run(run: &mut Run, tier: &str, seed: u64, only: Option<&str>) {
    let thorough = tier == "thorough";
    let n = if thorough { 15_000 } else { 1_200 };
    for ci in 0..n {
        let id = format!("pipe-maniac-{ci}");
        if only.is_some_and(|o| o != id) {
            continue;
        }
        let mut rng = Rng::new(seed ^ hash64(&id));
        let mut cfg = GenCfg::small(0);
        cfg.max_objects = *rng.pick(&[3, 8, 16, 30]);
        cfg.weights = *rng.pick(&[[10, 4, 2, 1], [10, 0, 0, 0], [3, 10, 2, 0], [6, 6, 3, 1]]);
        cfg.max_slides = *rng.pick(&[1, 3, 8]);
        cfg.dense = rng.chance(1, 2);
        let spec = random_map(&mut rng, &cfg);
        let text = spec.render();
        let Ok(map) = decode(&text) else { continue };
        if map.hit_objects.is_empty() && !rng.chance(1, 10) {
            continue;
        }
        let keys = if rng.chance(1, 6) { None } else { Some(1 + rng.below(10) as usize) };
        let (ho, inv) = match rng.below(6) {
            0 => (true, false),
            1 => (false, true),
            2 => (true, true),
            _ => (false, false),
        };
        let rnd = match rng.below(8) {
            0 => Some(0),
            1 => Some(-1 - rng.below(1 << 30) as i32),
            2 => Some(*rng.pick(&[i32::MAX, i32::MIN, 1, 1337])),
            3 => Some(rng.below(1 << 31) as i32),
            _ => None,
        };
        let clock = *rng.pick(&[1.0, 1.0, 1.5, 0.75, 1.25, 0.5, 2.0]);
        let passed = match rng.below(3) {
            0 => None,
            1 => Some(rng.below(6) as u32),
            _ => Some(rng.below(map.hit_objects.len() as u64 * 3 + 3) as u32),
        };
        let repro = format!("{text}\n# keys={keys:?} holdoff={ho} invert={inv} random_seed={rnd:?} clock_rate={clock} passed_objects={passed:?}");
        case(run, &id, &map, keys, ho, inv, rnd, clock, passed, &mut rng, &repro);
    }
    for (i, (mode, text)) in resource_maps().into_iter().enumerate() {
        if mode != 0 {
            continue;
        }
        let Ok(map) = decode(&truncate_objects(&text, if thorough { 600 } else { 200 })) else { continue };
        for k in 0..=10usize {
            for (j, (ho, inv, rnd)) in [(false, false, None), (true, false, None), (false, true, None), (false, false, Some(0)), (false, true, Some(i32::MIN))].into_iter().enumerate() {
                let id = format!("pipe-maniac-res-{i}-{k}-{j}");
                if only.is_some_and(|o| o != id) {
                    continue;
                }
                let mut rng = Rng::new(seed ^ hash64(&id));
                case(run, &id, &map, (k > 0).then_some(k), ho, inv, rnd, 1.0, None, &mut rng, &format!("resource osu! map (truncated), key mod {k}, holdoff={ho} invert={inv} random_seed={rnd:?}"));
            }
        }
    }
}
