//! C04 — reusing computed attributes gives the same performance as using the map.

use rosu_pp::{
    any::{DifficultyAttributes, HitResultPriority, PerformanceAttributes},
    catch::CatchPerformance,
    mania::ManiaPerformance,
    osu::OsuPerformance,
    taiko::TaikoPerformance,
    Beatmap, Difficulty, Performance,
};

use crate::{
    common::{decode, guarded, mode_name, mode_of, random_settings, resource_maps, truncate_objects, Run, Settings},
    grad::one_shot,
    mapgen::{random_map, GenCfg},
    rng::Rng,
};

/// A score specification as data.
#[derive(Clone, Debug)]
pub struct Spec {
    pub acc: Option<f64>,
    pub combo: Option<u32>,
    pub misses: Option<u32>,
    pub n300: Option<u32>,
    pub n100: Option<u32>,
    pub n50: Option<u32>,
    pub n_katu: Option<u32>,
    pub n_geki: Option<u32>,
    pub ticks: Option<(u32, u32, u32)>,
    pub worst: bool,
}

pub fn random_spec(rng: &mut Rng, n: u32) -> Spec {
    let cnt = |rng: &mut Rng| rng.range(0, i64::from(n) + 2) as u32;
    Spec {
        acc: rng.chance(1, 2).then(|| *rng.pick(&[0.0, 33.3, 50.0, 87.5, 96.0, 99.99, 100.0])),
        combo: rng.chance(1, 3).then(|| cnt(rng) * 2),
        misses: rng.chance(1, 2).then(|| cnt(rng)),
        n300: rng.chance(1, 3).then(|| cnt(rng)),
        n100: rng.chance(1, 3).then(|| cnt(rng)),
        n50: rng.chance(1, 4).then(|| cnt(rng)),
        n_katu: rng.chance(1, 5).then(|| cnt(rng)),
        n_geki: rng.chance(1, 5).then(|| cnt(rng)),
        ticks: rng.chance(1, 5).then(|| (cnt(rng), cnt(rng), cnt(rng))),
        worst: rng.chance(1, 3),
    }
}

impl Spec {
    pub fn apply<'a>(&self, mut p: Performance<'a>) -> Performance<'a> {
        if let Some(a) = self.acc {
            p = p.accuracy(a);
        }
        if let Some(c) = self.combo {
            p = p.combo(c);
        }
        if let Some(m) = self.misses {
            p = p.misses(m);
        }
        if let Some(n) = self.n300 {
            p = p.n300(n);
        }
        if let Some(n) = self.n100 {
            p = p.n100(n);
        }
        if let Some(n) = self.n50 {
            p = p.n50(n);
        }
        if let Some(n) = self.n_katu {
            p = p.n_katu(n);
        }
        if let Some(n) = self.n_geki {
            p = p.n_geki(n);
        }
        if let Some((a, b, c)) = self.ticks {
            p = p.large_tick_hits(a).small_tick_hits(b).slider_end_hits(c);
        }
        if self.worst {
            p = p.hitresult_priority(HitResultPriority::WorstCase);
        }
        p
    }
}

fn diff_of(p: &PerformanceAttributes) -> DifficultyAttributes {
    p.clone().difficulty_attributes()
}

pub fn run(tier: &str, seed: u64, only: Option<&str>) -> Run {
    let mut run = Run::default();
    let thorough = tier == "thorough";
    let mut rng = Rng::new(seed ^ 0x04);
    let n_cases = if thorough { 5000 } else { 700 };
    let res = resource_maps();
    for i in 0..n_cases {
        let mode = (i % 4) as u8;
        let mut cfg = GenCfg::small(mode);
        cfg.max_objects = *rng.pick(&[0, 1, 2, 5, 10]);
        let mut text = random_map(&mut rng, &cfg).render();
        if i % 40 == 39 {
            if let Some((_, t)) = res.iter().find(|(m, _)| *m == mode) {
                text = truncate_objects(t, 30);
            }
        }
        let mut settings: Settings = if rng.chance(1, 3) { Settings::default() } else { random_settings(&mut rng, mode) };
        let passed = rng.chance(1, 3).then(|| rng.range(0, 12) as u32);
        let spec = random_spec(&mut rng, 10);
        let id = format!("e-{i}-{}", mode_name(mode));
        if only.is_some_and(|o| o != id) {
            continue;
        }
        let Ok(map) = decode(&text) else { continue };
        if settings.clock_rate.is_some_and(|r| r <= 0.0) {
            settings.clock_rate = None;
        }
        let mut difficulty: Difficulty = settings.build(mode);
        if let Some(n) = passed {
            difficulty = difficulty.passed_objects(n);
        }
        let repro = format!("mode={} settings={} passed={passed:?} spec={spec:?} map=<<\n{text}>>", mode_name(mode), settings.describe());
        run.repro.insert(id.clone(), repro.clone());
        run.count(&format!("mode:{}", mode_name(mode)));
        if passed.is_some() {
            run.count("with-passed-objects");
        }
        if spec.acc.is_some() {
            run.count("spec:accuracy");
        }
        let key = format!("{mode}|{}|{passed:?}|{spec:?}", settings.describe());
        run.eval((!map.hit_objects.is_empty()).then_some(key.as_str()));
        if i % 83 == 1 {
            run.sample(format!("{id}: {} objects passed={passed:?} spec={spec:?}", map.hit_objects.len()));
        }
        let gm = mode_of(mode);
        let Ok(dattrs) = one_shot(&difficulty, &map, gm) else {
            run.fail("oracle:difficulty-error", "", &id, String::new(), repro.clone());
            continue;
        };
        let finish = |p: Performance<'_>| -> PerformanceAttributes { spec.apply(p.difficulty(difficulty.clone())).calculate() };
        // reference: from &map
        let Ok(reference) = guarded(|| finish(Performance::new(&map))) else {
            run.fail("oracle:calculate-panic", "", &id, String::new(), repro.clone());
            continue;
        };
        let ref_dbg = format!("{reference:?}");
        // embedded difficulty attributes
        if format!("{:?}", diff_of(&reference)) != format!("{dattrs:?}") {
            run.fail(
                "oracle:embedded-attrs-ne-oneshot",
                "",
                &id,
                format!("embedded {:?}\none-shot {dattrs:?}", diff_of(&reference)),
                repro.clone(),
            );
        }
        let mut entry = |name: &str, r: Result<PerformanceAttributes, String>| match r {
            Ok(v) if format!("{v:?}") == ref_dbg => {}
            Ok(v) => run.fail(
                "oracle:entry-point-differs",
                "",
                &id,
                format!("{name}: {v:?}\n&map: {ref_dbg}"),
                repro.clone(),
            ),
            Err(e) => run.fail("oracle:entry-point-panic", "", &id, format!("{name}: {e}"), repro.clone()),
        };
        entry("Performance::new(map)", guarded(|| finish(Performance::new(map.clone()))));
        entry("Performance::new(difficulty attrs)", guarded(|| finish(Performance::new(dattrs.clone()))));
        entry("Performance::new(performance attrs)", guarded(|| finish(Performance::new(reference.clone()))));
        entry("difficulty_attrs.performance()", guarded(|| finish(dattrs.clone().performance())));
        entry("performance_attrs.performance()", guarded(|| finish(reference.clone().performance())));
        entry("Performance::from(&map)", guarded(|| finish(Performance::from(&map))));
        entry("map.performance()", guarded(|| finish(map.performance())));
        // "the same settings supplied again" through Performance's OWN setters (each is forwarded by the any-mode
        // enum to the mode's builder) — map path and attributes path (seed C04-performance-od-taiko-arm-forwards-hp
        // mis-forwarded one arm, invisible as long as settings only ever arrived through `.difficulty(d)`)
        let via_setters = |p: Performance<'_>| -> PerformanceAttributes {
            let mut p = settings.apply_via_setters(p, mode);
            if let Some(n) = passed {
                p = p.passed_objects(n);
            }
            spec.apply(p).calculate()
        };
        entry("Performance::new(&map) + Performance setters", guarded(|| via_setters(Performance::new(&map))));
        entry("Performance::new(difficulty attrs) + Performance setters", guarded(|| via_setters(Performance::new(dattrs.clone()))));
        // mode-specific builders
        entry(
            "mode-specific new(&map)/try_new/From",
            guarded(|| match &dattrs {
                DifficultyAttributes::Osu(a) => {
                    let x = finish(Performance::Osu(OsuPerformance::new(&map)));
                    let y = finish(Performance::Osu(OsuPerformance::try_new(a.clone()).unwrap()));
                    let z = finish(Performance::Osu(OsuPerformance::from(a.clone())));
                    assert_eq!(format!("{x:?}"), format!("{y:?}"));
                    assert_eq!(format!("{x:?}"), format!("{z:?}"));
                    x
                }
                DifficultyAttributes::Taiko(a) => {
                    let x = finish(Performance::Taiko(TaikoPerformance::new(&map)));
                    let y = finish(Performance::Taiko(TaikoPerformance::try_new(a.clone()).unwrap()));
                    let z = finish(Performance::Taiko(TaikoPerformance::from(a.clone())));
                    assert_eq!(format!("{x:?}"), format!("{y:?}"));
                    assert_eq!(format!("{x:?}"), format!("{z:?}"));
                    x
                }
                DifficultyAttributes::Catch(a) => {
                    let x = finish(Performance::Catch(CatchPerformance::new(&map)));
                    let y = finish(Performance::Catch(CatchPerformance::try_new(a.clone()).unwrap()));
                    let z = finish(Performance::Catch(CatchPerformance::from(a.clone())));
                    assert_eq!(format!("{x:?}"), format!("{y:?}"));
                    assert_eq!(format!("{x:?}"), format!("{z:?}"));
                    x
                }
                DifficultyAttributes::Mania(a) => {
                    let x = finish(Performance::Mania(ManiaPerformance::new(&map)));
                    let y = finish(Performance::Mania(ManiaPerformance::try_new(a.clone()).unwrap()));
                    let z = finish(Performance::Mania(ManiaPerformance::from(a.clone())));
                    assert_eq!(format!("{x:?}"), format!("{y:?}"));
                    assert_eq!(format!("{x:?}"), format!("{z:?}"));
                    x
                }
            }),
        );
        // generate_state on the builder, then calculate: same result, same state both ways
        let st = guarded(|| {
            let mut a = spec.apply(Performance::new(&map).difficulty(difficulty.clone()));
            let mut b = spec.apply(Performance::new(dattrs.clone()).difficulty(difficulty.clone()));
            let sa = a.generate_state();
            let sb = b.generate_state();
            (format!("{sa:?}"), format!("{sb:?}"), format!("{:?}", a.calculate()), format!("{:?}", b.calculate()))
        });
        match st {
            Ok((sa, sb, ra, rb)) => {
                if sa != sb {
                    run.fail("oracle:generated-state-differs", "", &id, format!("map: {sa}\nattrs: {sb}"), repro.clone());
                }
                if ra != ref_dbg || rb != ref_dbg {
                    run.fail("oracle:calculate-after-generate-differs", "", &id, String::new(), repro.clone());
                }
            }
            Err(e) => run.fail("oracle:generate-state-panic", "", &id, e, repro.clone()),
        }
        let _: &Beatmap = &map;
        // --- converts: the map route through `try_mode` vs the attribute route ---
        if mode != 0 && i % 3 == 0 {
            let mut ocfg = GenCfg::small(0);
            ocfg.max_objects = 8;
            let otext = random_map(&mut rng, &ocfg).render();
            let Ok(omap) = decode(&otext) else { continue };
            for round in 0..4u32 {
            let mut cspec = if round == 0 { spec.clone() } else { random_spec(&mut rng, 8) };
            cspec.n_katu = None;
            cspec.n_geki = None;
            if round % 2 == 1 {
                cspec.worst = true;
                cspec.n100 = None;
            }
            // conversion-relevant mods: for mania converts add a key mod half of the time (the
            // converter reads it; every entry point must convert with the builder's final mods)
            let mut csettings = settings.clone();
            if mode == 3 && round % 2 == 0 {
                if let crate::common::ModsSpec::Bits(b) = csettings.mods {
                    let key = *rng.pick(&[1u32 << 15, 1 << 16, 1 << 17, 1 << 18, 1 << 19, 1 << 24, 1 << 26, 1 << 27, 1 << 28]);
                    csettings.mods = crate::common::ModsSpec::Bits((b & !0x0B0F_8000) | key);
                    run.count("convert-with-key-mod");
                }
            }
            let mut difficulty: Difficulty = csettings.build(mode);
            if let Some(n) = passed {
                difficulty = difficulty.passed_objects(n);
            }
            let crepro = format!("convert osu->{} settings={} passed={passed:?} spec={cspec:?} map=<<\n{otext}>>", mode_name(mode), csettings.describe());
            let Ok(cattrs) = one_shot(&difficulty, &omap, gm) else { break };
            let via_attrs = guarded(|| format!("{:?}", cspec.apply(Performance::new(cattrs.clone()).difficulty(difficulty.clone())).calculate()));
            let via_map = guarded(|| {
                cspec
                    .apply(Performance::new(&omap).difficulty(difficulty.clone()))
                    .try_mode(gm)
                    .map(|p| format!("{:?}", p.calculate()))
                    .map_err(|_| "refused".to_owned())
            });
            run.count("convert-entry-points");
            // every other way to build a calculator for the target mode from the osu! map: the settings
            // (mods!) arrive only after construction, so nothing may be decided at construction time
            if let Ok(reference) = &via_attrs {
                let fin = |p: Performance<'_>| format!("{:?}", cspec.apply(p.difficulty(difficulty.clone())).calculate());
                let mut others: Vec<(&str, Result<String, String>)> = Vec::new();
                others.push(("Performance::new(owned map).try_mode", guarded(|| {
                    cspec.apply(Performance::new(omap.clone()).difficulty(difficulty.clone())).try_mode(gm).map(|p| format!("{:?}", p.calculate())).unwrap_or_else(|_| "refused".to_owned())
                })));
                others.push(("Performance::new(&map).mode_or_ignore", guarded(|| {
                    format!("{:?}", cspec.apply(Performance::new(&omap).difficulty(difficulty.clone())).mode_or_ignore(gm).calculate())
                })));
                // (not compared: `try_mode` BEFORE the settings — it converts eagerly with the mods the
                // builder has at that moment, which is its documented job; only constructors defer)
                match gm {
                    rosu_pp::model::mode::GameMode::Taiko => {
                        others.push(("TaikoPerformance::new(&map)", guarded(|| fin(Performance::Taiko(TaikoPerformance::new(&omap))))));
                        others.push(("TaikoPerformance::new(owned map)", guarded(|| fin(Performance::Taiko(TaikoPerformance::new(omap.clone()))))));
                        others.push(("TaikoPerformance::from(owned map)", guarded(|| fin(Performance::Taiko(TaikoPerformance::from(omap.clone()))))));
                    }
                    rosu_pp::model::mode::GameMode::Catch => {
                        others.push(("CatchPerformance::new(&map)", guarded(|| fin(Performance::Catch(CatchPerformance::new(&omap))))));
                        others.push(("CatchPerformance::new(owned map)", guarded(|| fin(Performance::Catch(CatchPerformance::new(omap.clone()))))));
                        others.push(("CatchPerformance::from(owned map)", guarded(|| fin(Performance::Catch(CatchPerformance::from(omap.clone()))))));
                    }
                    rosu_pp::model::mode::GameMode::Mania => {
                        others.push(("ManiaPerformance::new(&map)", guarded(|| fin(Performance::Mania(ManiaPerformance::new(&omap))))));
                        others.push(("ManiaPerformance::new(owned map)", guarded(|| fin(Performance::Mania(ManiaPerformance::new(omap.clone()))))));
                        others.push(("ManiaPerformance::from(owned map)", guarded(|| fin(Performance::Mania(ManiaPerformance::from(omap.clone()))))));
                    }
                    rosu_pp::model::mode::GameMode::Osu => {}
                }
                for (name, r) in others {
                    run.count("convert-entry-points");
                    match r {
                        Ok(v) if &v == reference => {}
                        Ok(v) => run.fail("oracle:convert-entry-point-differs", "", &id, format!("{name}: {v}\nfrom attributes: {reference}"), crepro.clone()),
                        Err(e) => run.fail("oracle:convert-entry-point-panic", "", &id, format!("{name}: {e}"), crepro.clone()),
                    }
                }
            }
            match (via_attrs, via_map) {
                (Ok(a), Ok(Ok(b))) if a == b => {}
                (Ok(a), Ok(Ok(b))) => run.fail(
                    "oracle:convert-map-route-ne-attrs-route",
                    "",
                    &id,
                    format!("from attributes: {a}\nfrom the map via try_mode: {b}"),
                    crepro,
                ),
                (Err(_), Err(_)) => run.count("convert-both-panic"),
                _ => run.fail("oracle:convert-entry-error", "", &id, String::new(), crepro),
            }
            }
        }
    }
    // performance end to end from file bytes / decoded objects (PIPEP lines, Model/PipelinePerf.lean)
    if only.is_none() || only.is_some_and(|o| o.starts_with("pipep-")) {
        crate::pipe_perf::run(&mut run, tier, seed, only);
    }
    run
}
