//! C10 — cargo features `raw_strains` and `sync` never change any result.
//!
//! * `run`: op sequences on the `StrainsVec` of *this* build (compact or raw) against the
//!   matching Lean model (`SV`/`DV` lines) — `./check C10` runs it for all four feature builds.
//! * `dump`: a canonical dump of a seeded workload (difficulty, strains, performance, gradual walks
//!   on generated and resource maps, all modes, prefixes, mods, clock rates).  `./check C10`
//!   compares the dumps of the four binaries; they must be identical (`-0.0` is printed as
//!   `0.0`: the property is numerical equality).

use std::fmt::Write as _;

use rosu_pp::{
    any::{DifficultyAttributes, ScoreState},
    catch::Catch,
    mania::Mania,
    model::mode::GameMode,
    osu::Osu,
    taiko::Taiko,
    Beatmap, Difficulty, GradualDifficulty, GradualPerformance, Performance,
};

use crate::{
    common::{decode, guarded, hash64, mode_name, mode_of, random_settings, resource_maps, truncate_objects, Run, Settings},
    grad::corner_specs,
    mapgen::{random_map, GenCfg},
    rng::Rng,
    svops,
};

pub fn run(tier: &str, seed: u64, only: Option<&str>) -> Run {
    let mut run = Run::default();
    run.notes.push(format!(
        "features of this binary: raw_strains={} sync={}",
        cfg!(feature = "raw_strains"),
        cfg!(feature = "sync")
    ));
    run.count(if svops::RAW { "variant:raw_strains" } else { "variant:compact" });
    svops::run_sv(&mut run, tier, seed, only, true);
    run
}

/// `-0.0` → `0.0` in a `Debug` rendering (numerical equality is what C10 states).
pub fn normalize_neg_zero(s: &str) -> String {
    let b = s.as_bytes();
    let mut out = String::with_capacity(s.len());
    let mut i = 0;
    while i < b.len() {
        if b[i] == b'-' && s[i..].starts_with("-0.0") {
            let after = b.get(i + 4).copied();
            let before_ok = i == 0 || !(b[i - 1].is_ascii_digit() || b[i - 1] == b'e' || b[i - 1] == b'E');
            let after_ok = !after.is_some_and(|c| c.is_ascii_digit() || c == b'e' || c == b'E');
            if before_ok && after_ok {
                i += 1; // drop the sign
                continue;
            }
        }
        out.push(b[i] as char);
        i += 1;
    }
    out
}

fn canon<T: std::fmt::Debug>(v: &T) -> String {
    normalize_neg_zero(&format!("{v:?}"))
}

fn digest(s: &str) -> String {
    let short: String = s.chars().take(90).collect();
    format!("{:016x} {short}", hash64(s))
}

fn stars_of(a: &DifficultyAttributes) -> f64 {
    a.stars()
}

fn dump_case(out: &mut String, notes: &mut String, id: &str, map: &Beatmap, mode: u8, settings: &Settings) {
    let gm = mode_of(mode);
    let d = settings.build(mode);
    let n = map.hit_objects.len();
    let diff = |d: &Difficulty| -> Result<DifficultyAttributes, String> {
        let r = guarded(|| match gm {
            GameMode::Osu => d.calculate_for_mode::<Osu>(map).map(DifficultyAttributes::Osu),
            GameMode::Taiko => d.calculate_for_mode::<Taiko>(map).map(DifficultyAttributes::Taiko),
            GameMode::Catch => d.calculate_for_mode::<Catch>(map).map(DifficultyAttributes::Catch),
            GameMode::Mania => d.calculate_for_mode::<Mania>(map).map(DifficultyAttributes::Mania),
        });
        match r {
            Ok(Ok(a)) => Ok(a),
            Ok(Err(e)) => Err(format!("convert:{e:?}")),
            Err(p) => Err(format!("panic:{p}")),
        }
    };
    // difficulty (full and prefixes)
    let full = diff(&d);
    match &full {
        Ok(a) => {
            let _ = writeln!(out, "{id} difficulty stars={} {}", canon(&stars_of(a)), digest(&canon(a)));
        }
        Err(e) => {
            let _ = writeln!(out, "{id} difficulty {e}");
            return;
        }
    }
    let mut prefixes = vec![0usize, 1, 2, n / 2];
    prefixes.dedup();
    for p in prefixes {
        let dp = d.clone().passed_objects(p as u32);
        match diff(&dp) {
            Ok(a) => {
                let _ = writeln!(out, "{id} difficulty#p{p} {}", digest(&canon(&a)));
            }
            Err(e) => {
                let _ = writeln!(out, "{id} difficulty#p{p} {e}");
            }
        }
    }
    // strains
    if let Ok(st) = crate::c16::strains_of(&d, map, mode) {
        // side notes (not compared): what the known-difference classifier of ./check reads
        for (name, peaks) in &st.skills {
            if peaks.iter().any(|x| x.is_finite() && *x < 0.0) {
                let _ = writeln!(notes, "{id} negative-{}-{name}-peak", mode_name(mode));
            }
            if peaks.iter().any(|x| !x.is_finite()) {
                let _ = writeln!(notes, "{id} non-finite-{}-{name}-peak", mode_name(mode));
            }
        }
    }
    // a negative peak may be transient: the open section of a *prefix* can be negative and be
    // overwritten later; the gradual walks see those prefixes
    if mode == 1 {
        let mut noted = false;
        for p in 1..n.min(400) {
            if noted {
                break;
            }
            if let Ok(st) = crate::c16::strains_of(&d.clone().passed_objects(p as u32), map, mode) {
                for (name, peaks) in &st.skills {
                    if !noted && peaks.iter().any(|x| x.is_finite() && *x < 0.0) {
                        let _ = writeln!(notes, "{id} negative-{}-{name}-peak", mode_name(mode));
                        noted = true;
                    }
                }
            }
        }
    }
    let strains = guarded(|| match gm {
        GameMode::Osu => d.strains_for_mode::<Osu>(map).map(|s| canon(&s)),
        GameMode::Taiko => d.strains_for_mode::<Taiko>(map).map(|s| canon(&s)),
        GameMode::Catch => d.strains_for_mode::<Catch>(map).map(|s| canon(&s)),
        GameMode::Mania => d.strains_for_mode::<Mania>(map).map(|s| canon(&s)),
    });
    match strains {
        Ok(Ok(s)) => {
            let _ = writeln!(out, "{id} strains len={} {}", s.len(), digest(&s));
        }
        Ok(Err(e)) => {
            let _ = writeln!(out, "{id} strains convert:{e:?}");
        }
        Err(p) => {
            let _ = writeln!(out, "{id} strains panic:{p}");
        }
    }
    // performance (from the map and from the attributes; a few score specs)
    if let Ok(attrs) = &full {
        let specs: [(Option<f64>, Option<u32>, Option<u32>); 4] =
            [(None, None, None), (Some(97.5), None, Some(1)), (Some(88.0), Some(3), Some(2)), (Some(0.0), None, None)];
        for (si, (acc, combo, misses)) in specs.iter().enumerate() {
            let r = guarded(|| {
                let mut p = Performance::new(attrs.clone()).mods(settings.mods.build(mode));
                if let Some(r) = settings.clock_rate {
                    p = p.clock_rate(r);
                }
                if let Some(a) = acc {
                    p = p.accuracy(*a);
                }
                if let Some(c) = combo {
                    p = p.combo(*c);
                }
                if let Some(m) = misses {
                    p = p.misses(*m);
                }
                canon(&p.calculate())
            });
            match r {
                Ok(s) => {
                    let _ = writeln!(out, "{id} performance#{si} {}", digest(&s));
                }
                Err(p) => {
                    let _ = writeln!(out, "{id} performance#{si} panic:{p}");
                }
            }
        }
    }
    // gradual walks (difficulty: every value; performance: every 3rd via nth)
    let gd = guarded(|| {
        let mut acc = String::new();
        let mut count = 0usize;
        if let Ok(g) = GradualDifficulty::new_with_mode(d.clone(), map, gm) {
            for a in g {
                let _ = write!(acc, "{}|", canon(&a));
                count += 1;
                if count > 3000 {
                    break;
                }
            }
        }
        (count, acc)
    });
    match gd {
        Ok((count, acc)) => {
            let _ = writeln!(out, "{id} gradual-difficulty n={count} {:016x}", hash64(&acc));
        }
        Err(p) => {
            let _ = writeln!(out, "{id} gradual-difficulty panic:{p}");
        }
    }
    let gp = guarded(|| {
        let mut acc = String::new();
        let mut count = 0usize;
        if let Ok(mut g) = GradualPerformance::new_with_mode(d.clone(), map, gm) {
            let mut state = ScoreState::new();
            loop {
                state.max_combo += 2;
                state.n300 += 1;
                let r = if count % 2 == 0 { g.next(state.clone()) } else { g.nth(state.clone(), 2) };
                match r {
                    Some(a) => {
                        let _ = write!(acc, "{}|", canon(&a));
                    }
                    None => break,
                }
                count += 1;
                if count > 1500 {
                    break;
                }
            }
        }
        (count, acc)
    });
    match gp {
        Ok((count, acc)) => {
            let _ = writeln!(out, "{id} gradual-performance n={count} {:016x}", hash64(&acc));
        }
        Err(p) => {
            let _ = writeln!(out, "{id} gradual-performance panic:{p}");
        }
    }
}

/// The seeded workload; identical case list in every build.
pub fn dump(tier: &str, seed: u64) -> (String, String) {
    let thorough = tier == "thorough";
    let mut rng = Rng::new(seed ^ 0xD0_C10);
    let mut out = String::new();
    let mut notes = String::new();
    let mut cases: Vec<(String, u8, String, Settings)> = Vec::new();
    for mode in 0..4u8 {
        for (i, spec) in corner_specs(mode).into_iter().enumerate() {
            cases.push((format!("corner-{}-{i}", mode_name(mode)), mode, spec.render(), Settings::default()));
        }
    }
    let n_random = if thorough { 5000 } else { 250 };
    for i in 0..n_random {
        let target = rng.below(4) as u8;
        let native = target == 0 || rng.chance(1, 2);
        let mut cfg = GenCfg::small(if native { target } else { 0 });
        cfg.max_objects = *rng.pick(&[3, 8, 20, 50]);
        cfg.allow_negative_start = rng.chance(1, 3);
        cfg.long_gaps = rng.chance(1, 2);
        cfg.dense = rng.chance(1, 8);
        let mut spec = random_map(&mut rng, &cfg);
        // hour-long silence (many zero strain sections) in some maps
        if rng.chance(1, 6) && spec.objects.len() >= 2 {
            let k = spec.objects.len() / 2;
            for o in spec.objects.iter_mut().skip(k) {
                o.time += 3_600_000.0;
                match &mut o.kind {
                    crate::mapgen::ObjKind::Spinner { end } | crate::mapgen::ObjKind::Hold { end } => *end += 3_600_000.0,
                    _ => {}
                }
            }
        }
        let settings = if rng.chance(1, 3) { Settings::default() } else { random_settings(&mut rng, target) };
        cases.push((
            format!("rnd-{i}-{}{}-{}", mode_name(target), if native { "" } else { "-conv" }, spec.kinds()),
            target,
            spec.render(),
            settings,
        ));
    }
    // 8 and 20 hours of silence (> 2^16 resp. > 2^17 consecutive zero strain sections; still inside
    // check_suspicion's one-day limit): the exported strain vectors must keep every section
    for mode in 0..4u8 {
        for gap_h in [8.0f64, 20.0] {
            let mut grng = Rng::new(0x6A9 ^ u64::from(mode) ^ (gap_h as u64) << 8);
            let mut cfg = GenCfg::small(mode);
            cfg.max_objects = 6;
            let mut spec = random_map(&mut grng, &cfg);
            for _ in 0..20 {
                if spec.objects.len() >= 2 {
                    break;
                }
                spec = random_map(&mut grng, &cfg);
            }
            if spec.objects.len() < 2 {
                continue;
            }
            let k = spec.objects.len() / 2;
            let shift = gap_h * 3_600_000.0;
            for o in spec.objects.iter_mut().skip(k) {
                o.time += shift;
                match &mut o.kind {
                    crate::mapgen::ObjKind::Spinner { end } | crate::mapgen::ObjKind::Hold { end } => *end += shift,
                    _ => {}
                }
            }
            cases.push((format!("gap{gap_h}h-{}-{}", mode_name(mode), spec.kinds()), mode, spec.render(), Settings::default()));
        }
    }
    for (mode, text) in resource_maps() {
        for target in 0..4u8 {
            if target != mode && mode != 0 {
                continue;
            }
            let ks: &[usize] = if thorough { &[100, usize::MAX] } else { &[150] };
            for &k in ks {
                let t = if k == usize::MAX { text.clone() } else { truncate_objects(&text, k) };
                for s in 0..2 {
                    let settings = if s == 0 { Settings::default() } else { random_settings(&mut rng, target) };
                    cases.push((format!("res-{}-to-{}-first{k}-s{s}", mode_name(mode), mode_name(target)), target, t.clone(), settings));
                }
            }
        }
    }
    let _ = writeln!(out, "workload tier={tier} seed={seed} cases={}", cases.len());
    for (id, mode, text, settings) in cases {
        match decode(&text) {
            Ok(map) => dump_case(&mut out, &mut notes, &id, &map, mode, &settings),
            Err(e) => {
                let _ = writeln!(out, "{id} decode {e}");
            }
        }
    }
    (out, notes)
}

#[cfg(test)]
mod tests {
    use super::normalize_neg_zero;

    #[test]
    fn neg_zero() {
        assert_eq!(normalize_neg_zero("a: -0.0, b: -0.05, c: -0.0}"), "a: 0.0, b: -0.05, c: 0.0}");
        assert_eq!(normalize_neg_zero("[-0.0]"), "[0.0]");
        assert_eq!(normalize_neg_zero("1e-0.0"), "1e-0.0");
    }
}
