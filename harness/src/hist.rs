//! Request pool shared by C01 (determinism over call histories) and C20 (concurrent use):
//! a request is (map, target mode, settings, operation); executing it returns a canonical dump of
//! the response.  The same request must always produce the same dump.

use std::{collections::BTreeMap, str::FromStr};

use rosu_pp::{
    any::{HitResultPriority, ScoreState},
    model::beatmap::BeatmapAttributesBuilder,
    Beatmap, Difficulty, GradualDifficulty, GradualPerformance, Performance,
};

use crate::{
    common::{guarded, hash64, mode_name, mode_of, random_settings, resource_maps, truncate_objects, Run, Settings},
    grad,
    mapgen::{random_map, GenCfg, MapSpec, ObjKind, ObjSpec, TimingSpec},
    rng::Rng,
};

#[derive(Clone, Debug, PartialEq)]
pub struct ScoreSpec {
    pub acc: Option<f64>,
    pub combo: Option<u32>,
    pub misses: Option<u32>,
    pub n300: Option<u32>,
    pub n100: Option<u32>,
    pub n50: Option<u32>,
    pub n_geki: Option<u32>,
    pub n_katu: Option<u32>,
    pub large_ticks: Option<u32>,
    pub small_ticks: Option<u32>,
    pub slider_ends: Option<u32>,
    pub worst_case: Option<bool>,
    pub passed: Option<u32>,
}

#[derive(Clone, Debug, PartialEq)]
pub enum Op {
    DecodeBytes,
    DecodeStr,
    ConvertVal,
    ConvertRef,
    ConvertMut,
    Difficulty,
    /// `Difficulty::calculate` on the converted map instead of `calculate_for_mode`
    DifficultyOnConverted,
    Strains,
    Perf(ScoreSpec),
    /// performance from previously computed difficulty attributes
    PerfFromAttrs(ScoreSpec),
    /// gradual difficulty: arguments of successive `nth` calls (0 = `next`)
    GradDiff(Vec<usize>),
    /// gradual performance: arguments of successive `nth(state, n)` calls
    GradPerf(Vec<usize>),
    Bpm,
    Attrs,
}

impl Op {
    pub fn tag(&self) -> &'static str {
        match self {
            Op::DecodeBytes => "decode-bytes",
            Op::DecodeStr => "decode-str",
            Op::ConvertVal => "convert-value",
            Op::ConvertRef => "convert-ref",
            Op::ConvertMut => "convert-mut",
            Op::Difficulty => "difficulty",
            Op::DifficultyOnConverted => "difficulty-on-converted",
            Op::Strains => "strains",
            Op::Perf(_) => "performance",
            Op::PerfFromAttrs(_) => "performance-from-attrs",
            Op::GradDiff(_) => "gradual-difficulty",
            Op::GradPerf(_) => "gradual-performance",
            Op::Bpm => "bpm",
            Op::Attrs => "attributes",
        }
    }
}

#[derive(Clone, Debug)]
pub struct Req {
    pub map: usize,
    pub mode: u8,
    pub settings: Settings,
    pub op: Op,
}

pub struct PoolMap {
    pub id: String,
    pub text: String,
    pub map: Beatmap,
    pub n_objects: usize,
    pub tie_heavy: bool,
}

pub struct Pool {
    pub maps: Vec<PoolMap>,
    pub reqs: Vec<Req>,
}

/// Maps built to contain exact ties: equal start times, equal timing-section durations, equal
/// distances/strains (repeated identical patterns), duplicated objects.
pub fn tie_maps(rng: &mut Rng) -> Vec<(String, MapSpec)> {
    let mut v = Vec::new();
    for mode in 0..4u8 {
        // equal section durations, objects after the last section
        let mut m = MapSpec { mode, ..Default::default() };
        m.timing = vec![
            TimingSpec { time: 0.0, beat_len: 500.0, uninherited: true, kiai: false },
            TimingSpec { time: 1000.0, beat_len: 250.0, uninherited: true, kiai: false },
            TimingSpec { time: 2000.0, beat_len: 500.0, uninherited: true, kiai: true },
            TimingSpec { time: 3000.0, beat_len: 250.0, uninherited: true, kiai: false },
            TimingSpec { time: 3000.0, beat_len: -50.0, uninherited: false, kiai: false },
        ];
        let cols = 4;
        m.cs = if mode == 3 { cols as f32 } else { 4.0 };
        // all objects at a few shared timestamps, identical positions
        for i in 0..12 {
            let t = 1000.0 + 500.0 * f64::from(i / 3);
            let x = if mode == 3 { ((i % cols) * 512 + 256) / cols } else { 256 };
            let kind = match (mode, i % 4) {
                (3, 1) => ObjKind::Hold { end: t + 500.0 },
                (3, _) => ObjKind::Circle,
                (_, 3) => ObjKind::Slider { curve: 'L', points: vec![(356, 192)], slides: 1, length: 100.0 },
                _ => ObjKind::Circle,
            };
            m.objects.push(ObjSpec { x, y: 192, time: t, sound: [0u8, 2, 8, 4][(i % 4) as usize], kind });
        }
        v.push((format!("tie-{}-equal-sections", mode_name(mode)), m.clone()));
        // perfectly periodic pattern: every strain section identical
        let mut p = MapSpec { mode, ..Default::default() };
        p.cs = m.cs;
        for i in 0..40 {
            let t = 400.0 * f64::from(i);
            let x = if mode == 3 { ((i % cols) * 512 + 256) / cols } else { 100 + 200 * (i % 2) };
            p.objects.push(ObjSpec { x, y: 100 + 100 * (i % 2), time: t, sound: 0, kind: ObjKind::Circle });
        }
        v.push((format!("tie-{}-periodic", mode_name(mode)), p));
        // duplicates of one object
        let mut d = MapSpec { mode, ..Default::default() };
        d.cs = m.cs;
        let n = rng.range(3, 9);
        for _ in 0..n {
            d.objects.push(ObjSpec { x: 64, y: 64, time: 1234.0, sound: 0, kind: ObjKind::Circle });
        }
        v.push((format!("tie-{}-duplicates", mode_name(mode)), d));
    }
    v
}

fn random_score(rng: &mut Rng, n_objects: usize) -> ScoreSpec {
    let n = n_objects as i64;
    let cnt = |rng: &mut Rng| Some(rng.range(0, n + 2) as u32);
    let mut s = ScoreSpec {
        acc: None,
        combo: None,
        misses: None,
        n300: None,
        n100: None,
        n50: None,
        n_geki: None,
        n_katu: None,
        large_ticks: None,
        small_ticks: None,
        slider_ends: None,
        worst_case: None,
        passed: None,
    };
    match rng.below(5) {
        0 => {}
        1 => s.acc = Some(*rng.pick(&[100.0, 99.5, 97.25, 90.0, 66.6, 33.3, 0.0, 120.0])),
        2 => {
            s.acc = Some(rng.range(500, 1000) as f64 / 10.0);
            s.misses = cnt(rng);
        }
        3 => {
            s.n300 = cnt(rng);
            s.n100 = cnt(rng);
            s.n50 = cnt(rng);
            s.misses = cnt(rng);
        }
        _ => {
            s.acc = Some(rng.range(0, 1000) as f64 / 10.0);
            if rng.chance(1, 2) {
                s.n_geki = cnt(rng);
            }
            if rng.chance(1, 2) {
                s.n_katu = cnt(rng);
            }
            if rng.chance(1, 2) {
                s.n100 = cnt(rng);
            }
        }
    }
    if rng.chance(1, 3) {
        s.combo = cnt(rng);
    }
    if rng.chance(1, 5) {
        s.large_ticks = cnt(rng);
        s.small_ticks = cnt(rng);
        s.slider_ends = cnt(rng);
    }
    if rng.chance(1, 4) {
        s.worst_case = Some(rng.chance(1, 2));
    }
    if rng.chance(1, 5) {
        s.passed = cnt(rng);
    }
    s
}

fn walk(rng: &mut Rng, cap: usize) -> Vec<usize> {
    let len = rng.range(1, cap as i64) as usize;
    (0..len)
        .map(|_| match rng.below(8) {
            0 => rng.range(1, 3) as usize,
            1 => rng.range(4, 30) as usize,
            _ => 0,
        })
        .collect()
}

pub fn build_pool(seed: u64, thorough: bool) -> Pool {
    let mut rng = Rng::new(seed ^ 0xC01_9001);
    let mut sources: Vec<(String, String, bool)> = Vec::new();
    for (id, spec) in tie_maps(&mut rng) {
        sources.push((id, spec.render(), true));
    }
    let n_random = if thorough { 160 } else { 48 };
    for c in grad::cases(seed ^ 0x01, n_random, &[]) {
        // every second corner map is enough here
        if c.id.starts_with("corner") && hash64(&c.id) % 3 != 0 {
            continue;
        }
        sources.push((c.id, c.text, false));
    }
    for i in 0..(if thorough { 24 } else { 8 }) {
        let mode = (i % 4) as u8;
        let mut cfg = GenCfg::small(mode);
        cfg.min_objects = 20;
        cfg.max_objects = 90;
        cfg.dense = i % 3 == 0;
        sources.push((format!("mid-{i}-{}", mode_name(mode)), random_map(&mut rng, &cfg).render(), false));
    }
    for (mode, text) in resource_maps() {
        sources.push((format!("res-{}-first60", mode_name(mode)), truncate_objects(&text, 60), false));
        sources.push((format!("res-{}-full", mode_name(mode)), text, false));
    }
    let mut maps = Vec::new();
    for (id, text, tie_heavy) in sources {
        if let Ok(map) = crate::common::decode(&text) {
            let n_objects = map.hit_objects.len();
            maps.push(PoolMap { id, text, map, n_objects, tie_heavy });
        }
    }
    let mut reqs = Vec::new();
    for (mi, pm) in maps.iter().enumerate() {
        let native = crate::common::mode_idx(pm.map.mode);
        let big = pm.n_objects > 300;
        let per_map = if big { 5 } else if thorough { 10 } else { 6 };
        reqs.push(Req { map: mi, mode: native, settings: Settings::default(), op: Op::Bpm });
        reqs.push(Req { map: mi, mode: native, settings: Settings::default(), op: if mi % 2 == 0 { Op::DecodeBytes } else { Op::DecodeStr } });
        for _ in 0..per_map {
            let mode = if native == 0 && rng.chance(1, 2) { rng.below(4) as u8 } else if rng.chance(1, 12) { rng.below(4) as u8 } else { native };
            let settings = if rng.chance(1, 3) { Settings::default() } else { random_settings(&mut rng, mode) };
            let cap = if big { 25 } else { 40 };
            let op = match rng.below(14) {
                0 => Op::ConvertVal,
                1 => Op::ConvertRef,
                2 => Op::ConvertMut,
                3 | 4 => Op::Difficulty,
                5 => Op::DifficultyOnConverted,
                6 => Op::Strains,
                7 | 8 => Op::Perf(random_score(&mut rng, pm.n_objects)),
                9 => Op::PerfFromAttrs(random_score(&mut rng, pm.n_objects)),
                10 | 11 => Op::GradDiff(walk(&mut rng, cap)),
                12 => Op::GradPerf(walk(&mut rng, cap)),
                _ => Op::Attrs,
            };
            reqs.push(Req { map: mi, mode, settings, op });
        }
    }
    Pool { maps, reqs }
}

fn canon(s: String) -> String {
    if s.len() > 1536 {
        format!("h:{:016x}:len={}:{}…", hash64(&s), s.len(), &s[..s.char_indices().nth(160).map_or(s.len(), |(i, _)| i)])
    } else {
        s
    }
}

fn apply_score<'a>(mut p: Performance<'a>, s: &ScoreSpec) -> Performance<'a> {
    if let Some(v) = s.acc {
        p = p.accuracy(v);
    }
    if let Some(v) = s.combo {
        p = p.combo(v);
    }
    if let Some(v) = s.misses {
        p = p.misses(v);
    }
    if let Some(v) = s.n300 {
        p = p.n300(v);
    }
    if let Some(v) = s.n100 {
        p = p.n100(v);
    }
    if let Some(v) = s.n50 {
        p = p.n50(v);
    }
    if let Some(v) = s.n_geki {
        p = p.n_geki(v);
    }
    if let Some(v) = s.n_katu {
        p = p.n_katu(v);
    }
    if let Some(v) = s.large_ticks {
        p = p.large_tick_hits(v);
    }
    if let Some(v) = s.small_ticks {
        p = p.small_tick_hits(v);
    }
    if let Some(v) = s.slider_ends {
        p = p.slider_end_hits(v);
    }
    if let Some(w) = s.worst_case {
        p = p.hitresult_priority(if w { HitResultPriority::WorstCase } else { HitResultPriority::BestCase });
    }
    if let Some(v) = s.passed {
        p = p.passed_objects(v);
    }
    p
}

fn state_for(step: usize) -> ScoreState {
    let mut st = ScoreState::new();
    let k = step as u32 + 1;
    st.max_combo = k;
    st.n300 = k - k / 5;
    st.n100 = k / 5;
    st.n_geki = k / 3;
    st.misses = k / 11;
    st
}

/// Per-thread builder cache: a reused `Difficulty` value per request.
#[derive(Default)]
pub struct Ctx {
    pub builders: BTreeMap<usize, Difficulty>,
}

/// Executes request `ri`.  `variant` selects fresh vs. reused/cloned builder values and shared
/// vs. cloned maps; it must not influence the response.  Returns the canonical dump and whether
/// the by-reference map was left untouched.
pub fn exec(pool: &Pool, ri: usize, variant: u8, ctx: &mut Ctx) -> (String, Result<(), String>) {
    let req = &pool.reqs[ri];
    let pm = &pool.maps[req.map];
    let gm = mode_of(req.mode);
    let private_copy;
    let map: &Beatmap = if variant & 2 != 0 {
        private_copy = pm.map.clone();
        &private_copy
    } else {
        &pm.map
    };
    let before = map.clone();
    let difficulty: Difficulty = if variant & 1 != 0 {
        ctx.builders.entry(ri).or_insert_with(|| req.settings.build(req.mode)).clone()
    } else {
        req.settings.build(req.mode)
    };
    let mods = req.settings.mods.build(req.mode);
    let out = guarded(|| match &req.op {
        Op::DecodeBytes => format!("{:?}", Beatmap::from_bytes(pm.text.as_bytes()).map_err(|e| e.to_string())),
        Op::DecodeStr => format!("{:?}", Beatmap::from_str(&pm.text).map_err(|e| e.to_string())),
        Op::ConvertVal => format!("{:?}", map.clone().convert(gm, &mods)),
        Op::ConvertRef => format!("{:?}", map.convert_ref(gm, &mods).map(|c| c.into_owned())),
        Op::ConvertMut => {
            let mut m = map.clone();
            let r = m.convert_mut(gm, &mods);
            format!("{r:?} {m:?}")
        }
        Op::Difficulty => format!("{:?}", grad::one_shot(&difficulty, map, gm).map(|a| grad::dbg(&a))),
        Op::DifficultyOnConverted => match map.convert_ref(gm, &mods) {
            Ok(c) => format!("{:?}", difficulty.calculate(&c)),
            Err(e) => format!("{e:?}"),
        },
        Op::Strains => match map.convert_ref(gm, &mods) {
            Ok(c) => format!("{:?}", difficulty.strains(&c)),
            Err(e) => format!("{e:?}"),
        },
        // variant bit 4: the builder is not fresh when `calculate()` runs — `generate_state()` was called on it
        // once or twice before (it takes `&mut self` and writes the generated values back; the property says the
        // result carries no dependence on previous calls). Seed C01-generate-state-writes-back-map-max-combo.
        Op::Perf(s) => match Performance::new(map).try_mode(gm) {
            Ok(p) => {
                let mut p = apply_score(p.difficulty(difficulty.clone()), s);
                if variant & 4 != 0 {
                    let first = format!("{:?}", p.generate_state());
                    let second = format!("{:?}", p.generate_state());
                    if first != second {
                        // differs from the fresh builder's response, so the history oracle reports it
                        return format!("generate_state() twice on one builder: first {first}, second {second}");
                    }
                }
                format!("{:?}", p.calculate())
            }
            Err(_) => "not-convertible".to_owned(),
        },
        Op::PerfFromAttrs(s) => match grad::one_shot(&difficulty, map, gm) {
            Ok(a) => {
                let mut p = apply_score(Performance::new(a).difficulty(difficulty.clone()), s);
                if variant & 4 != 0 {
                    let _ = p.generate_state();
                }
                format!("{:?}", p.calculate())
            }
            Err(e) => e,
        },
        Op::GradDiff(ns) => match GradualDifficulty::new_with_mode(difficulty.clone(), map, gm) {
            Ok(mut g) => {
                let mut o = format!("len={} ", g.len().min(1 << 40));
                for n in ns {
                    match if *n == 0 { g.next() } else { g.nth(*n) } {
                        Some(a) => o.push_str(&format!("{a:?};")),
                        None => {
                            o.push_str("None;");
                            break;
                        }
                    }
                }
                o
            }
            Err(e) => format!("{e:?}"),
        },
        Op::GradPerf(ns) => match GradualPerformance::new_with_mode(difficulty.clone(), map, gm) {
            Ok(mut g) => {
                let mut o = format!("len={} ", g.len().min(1 << 40));
                for (i, n) in ns.iter().enumerate() {
                    match if *n == 0 { g.next(state_for(i)) } else { g.nth(state_for(i), *n) } {
                        Some(a) => o.push_str(&format!("{a:?};")),
                        None => {
                            o.push_str("None;");
                            break;
                        }
                    }
                }
                o
            }
            Err(e) => format!("{e:?}"),
        },
        Op::Bpm => format!("{:016x}", map.bpm().to_bits()),
        Op::Attrs => {
            let b = BeatmapAttributesBuilder::new().map(map).difficulty(&difficulty).mode(gm, map.mode != gm);
            format!("{:?} {:?}", b.build(), b.hit_windows())
        }
    });
    let dump = match out {
        Ok(s) => canon(s),
        Err(p) => format!("panic:{p}"),
    };
    let untouched = if *map == before || format!("{map:?}") == format!("{before:?}") {
        Ok(())
    } else {
        Err(format!("map {} modified through a shared reference by {}", pm.id, req.op.tag()))
    };
    (dump, untouched)
}

pub fn describe(pool: &Pool, ri: usize) -> String {
    let r = &pool.reqs[ri];
    format!(
        "request #{ri}: op={:?} map={} target-mode={} settings={}",
        r.op,
        pool.maps[r.map].id,
        mode_name(r.mode),
        r.settings.describe()
    )
}

pub fn repro(pool: &Pool, ri: usize) -> String {
    format!("{}\nmap=<<\n{}>>", describe(pool, ri), pool.maps[pool.reqs[ri].map].text)
}

pub fn note_pool(run: &mut Run, pool: &Pool) {
    run.count_n("pool:maps", pool.maps.len() as u64);
    run.count_n("pool:maps-tie-heavy", pool.maps.iter().filter(|m| m.tie_heavy).count() as u64);
    run.count_n("pool:maps-empty", pool.maps.iter().filter(|m| m.n_objects == 0).count() as u64);
    run.count_n("pool:maps-over-300-objects", pool.maps.iter().filter(|m| m.n_objects > 300).count() as u64);
    run.count_n("pool:requests", pool.reqs.len() as u64);
    for r in &pool.reqs {
        run.count(&format!("pool:op:{}", r.op.tag()));
        if crate::common::mode_idx(pool.maps[r.map].map.mode) != r.mode {
            run.count("pool:cross-mode-request");
        }
        if r.settings != Settings::default() {
            run.count("pool:non-default-settings");
        }
    }
}
