//! C08, second wave: lazer mods WITH explicit settings, `Difficulty` setters that have a lazer
//! counterpart, and the `&GameModsIntermode` downgrade for mods without legacy bit.
//!
//! * correspondence `LZS`: every accessor + the `Difficulty` getters for the product of
//!   {Classic(nsha), Mirror(reflection), HardRock, DifficultyAdjust(hard_rock_offsets | scroll_speed),
//!   Random(seed), key mods, HoldOff, Invert} per mode × `Difficulty::{hardrock_offsets, lazer}`;
//! * correspondence `IMS`: owned / borrowed `GameModsIntermode` given by acronyms (which variant
//!   of `GameMods` the conversion picks + every accessor);
//! * oracles: explicit default ≡ unset, default-settings lazer ≡ intermode ≡ &intermode, and for
//!   every equivalence stated in `Props/C08.lean` bit-identical difficulty / strains / performance.

use rosu_pp::{
    model::mods::rosu_mods::{
        generated_mods::{
            ClassicOsu, DifficultyAdjustCatch, DifficultyAdjustMania, DifficultyAdjustOsu, DifficultyAdjustTaiko,
            MirrorOsu, RandomMania, RandomOsu, RandomTaiko,
        },
        GameMod, GameModIntermode, GameMods as GameModsLazer, GameModsIntermode,
    },
    verif::{difficulty_getters, mods_snapshot, ModsSnapshot},
    Difficulty, GameMods,
};

use super::{both_directions, first_diff, results_n, snap_str, E2eMap, SCORES};
use crate::common::{guarded, mode_name, mods_mode, Run};

/// a lazer mod as data
#[derive(Clone, Debug, PartialEq)]
pub enum STag {
    /// `GameMod::new(acronym, mode)`: default settings
    Plain(&'static str),
    /// `ClassicOsu { no_slider_head_accuracy }` (osu! only)
    Classic(Option<bool>),
    /// `MirrorOsu { reflection }` (osu! only)
    Mirror(Option<&'static str>),
    /// the mode's DifficultyAdjust; `hard_rock_offsets` exists for catch, `scroll_speed` for taiko
    Da { hro: Option<bool>, scroll: Option<f64> },
    /// the mode's Random with `seed` (osu!, taiko, mania)
    Random(Option<f64>),
}

impl STag {
    fn wire(&self) -> String {
        match self {
            STag::Plain(a) => format!("A.{a}"),
            STag::Classic(v) => format!("CL.{}", v.map_or("u", |b| if b { "1" } else { "0" })),
            STag::Mirror(None) => "MR.u".to_owned(),
            STag::Mirror(Some(s)) => format!("MR.s{s}"),
            STag::Da { hro, scroll } => format!(
                "DA.{}.{}",
                hro.map_or("u", |b| if b { "1" } else { "0" }),
                scroll.map_or_else(|| "-".to_owned(), |x| format!("{:x}", x.to_bits()))
            ),
            STag::Random(None) => "RD.u".to_owned(),
            STag::Random(Some(s)) => format!("RD.{s:.0}"),
        }
    }

    fn acronym(&self) -> &'static str {
        match self {
            STag::Plain(a) => a,
            STag::Classic(_) => "CL",
            STag::Mirror(_) => "MR",
            STag::Da { .. } => "DA",
            STag::Random(_) => "RD",
        }
    }

    /// no setting given explicitly
    fn is_default(&self) -> bool {
        matches!(
            self,
            STag::Plain(_) | STag::Classic(None) | STag::Mirror(None) | STag::Da { hro: None, scroll: None } | STag::Random(None)
        )
    }
}

pub fn build(mode: u8, bits: u32, tags: &[STag]) -> GameModsLazer {
    let mut mods = GameModsLazer::from_intermode(&GameModsIntermode::from_bits(bits), mods_mode(mode));
    for t in tags {
        let m = match (t, mode) {
            (STag::Plain(a), _) => GameMod::new(a, mods_mode(mode)),
            (STag::Classic(v), 0) => GameMod::ClassicOsu(ClassicOsu { no_slider_head_accuracy: *v, ..Default::default() }),
            (STag::Classic(_), _) => GameMod::new("CL", mods_mode(mode)),
            (STag::Mirror(r), 0) => GameMod::MirrorOsu(MirrorOsu { reflection: r.map(str::to_owned) }),
            (STag::Mirror(_), _) => GameMod::new("MR", mods_mode(mode)),
            (STag::Da { .. }, 0) => GameMod::DifficultyAdjustOsu(DifficultyAdjustOsu::default()),
            (STag::Da { scroll, .. }, 1) => {
                GameMod::DifficultyAdjustTaiko(DifficultyAdjustTaiko { scroll_speed: *scroll, ..Default::default() })
            }
            (STag::Da { hro, .. }, 2) => {
                GameMod::DifficultyAdjustCatch(DifficultyAdjustCatch { hard_rock_offsets: *hro, ..Default::default() })
            }
            (STag::Da { .. }, _) => GameMod::DifficultyAdjustMania(DifficultyAdjustMania::default()),
            (STag::Random(s), 0) => GameMod::RandomOsu(RandomOsu { seed: *s, ..Default::default() }),
            (STag::Random(s), 1) => GameMod::RandomTaiko(RandomTaiko { seed: *s }),
            (STag::Random(s), 3) => GameMod::RandomMania(RandomMania { seed: *s }),
            (STag::Random(_), _) => GameMod::new("RD", mods_mode(mode)),
        };
        mods.insert(m);
    }
    mods
}

/// the same acronyms as a `GameModsIntermode`
fn intermode_of(bits: u32, tags: &[STag]) -> GameModsIntermode {
    let mut im = GameModsIntermode::from_bits(bits);
    for t in tags {
        im.insert(GameModIntermode::from_acronym(t.acronym().parse().expect("acronym")));
    }
    im
}

fn tags_wire(tags: &[STag]) -> String {
    if tags.is_empty() {
        "-".to_owned()
    } else {
        tags.iter().map(STag::wire).collect::<Vec<_>>().join(",")
    }
}

fn ob(v: Option<bool>) -> &'static str {
    match v {
        None => "-",
        Some(true) => "1",
        Some(false) => "0",
    }
}

fn with_setters(mods: GameMods, hro: Option<bool>, lazer: Option<bool>) -> Difficulty {
    let mut d = Difficulty::new().mods(mods);
    if let Some(b) = hro {
        d = d.hardrock_offsets(b);
    }
    if let Some(b) = lazer {
        d = d.lazer(b);
    }
    d
}

/// what an `LZS` line reports
fn observe(snap: &ModsSnapshot, d: &Difficulty) -> String {
    let g = difficulty_getters(d);
    let ucsa = if g.lazer { snap.no_slider_head_acc_lazer } else { snap.no_slider_head_acc_stable };
    // flags[10] = cl()
    let mclassic = !g.lazer || snap.flags[10];
    format!(
        "{} | ghro={} glazer={} ucsa={} mclassic={}",
        snap_str(snap),
        u8::from(g.hardrock_offsets),
        u8::from(g.lazer),
        u8::from(ucsa),
        u8::from(mclassic)
    )
}

const OB3: [Option<bool>; 3] = [None, Some(false), Some(true)];

/// all mod sets of the grid for `mode`: (bits, tags)
fn grid(mode: u8, thorough: bool) -> Vec<(u32, Vec<STag>)> {
    fn product(groups: &[Vec<Option<STag>>]) -> Vec<Vec<STag>> {
        let mut acc: Vec<Vec<STag>> = vec![Vec::new()];
        for g in groups {
            let mut next = Vec::with_capacity(acc.len() * g.len());
            for base in &acc {
                for choice in g {
                    let mut v = base.clone();
                    if let Some(t) = choice {
                        v.push(t.clone());
                    }
                    next.push(v);
                }
            }
            acc = next;
        }
        acc
    }
    let opt = |ts: Vec<STag>| -> Vec<Option<STag>> { std::iter::once(None).chain(ts.into_iter().map(Some)).collect() };
    let (bits, groups): (Vec<u32>, Vec<Vec<Option<STag>>>) = match mode {
        0 => (
            if thorough { vec![0, 16, 8, 1024 | 64, 2 | 16, 4096 | 8192] } else { vec![0, 16, 8, 1024 | 64] },
            vec![
                opt(OB3.iter().map(|v| STag::Classic(*v)).collect()),
                opt([None, Some("0"), Some("1"), Some("2"), Some("x"), Some(""), Some("01"), Some("Horizontal")]
                    .iter()
                    .map(|r| STag::Mirror(*r))
                    .collect()),
                opt(vec![STag::Da { hro: None, scroll: None }]),
                opt(vec![STag::Random(None), STag::Random(Some(0.0)), STag::Random(Some(42.0))]),
                opt(if thorough { vec![STag::Plain("BL"), STag::Plain("TC")] } else { vec![STag::Plain("TC")] }),
            ],
        ),
        1 => (
            vec![0, 16, 2, 8 | 64],
            vec![
                opt(vec![STag::Plain("CL")]),
                opt([None, Some(0.5), Some(1.0), Some(2.5)].iter().map(|s| STag::Da { hro: None, scroll: *s }).collect()),
                opt([None, Some(0.0), Some(42.0), Some(-1.0), Some(3e9), Some(-3e9), Some(2147483647.0), Some(-2147483648.0)]
                    .iter()
                    .map(|s| STag::Random(*s))
                    .collect()),
            ],
        ),
        2 => (
            vec![0, 16, 2, 16 | 8, 2 | 16],
            vec![
                opt(vec![STag::Plain("CL")]),
                opt(vec![STag::Plain("MR")]),
                opt(OB3.iter().map(|v| STag::Da { hro: *v, scroll: None }).collect()),
            ],
        ),
        _ => (
            if thorough { vec![0, 16, 1 << 15, 1 << 26, (1 << 18) | 2, 1 << 24] } else { vec![0, 16, 1 << 15, 1 << 26] },
            vec![
                opt(if thorough {
                    vec![STag::Plain("10K"), STag::Plain("7K"), STag::Plain("1K"), STag::Plain("4K"), STag::Plain("9K")]
                } else {
                    vec![STag::Plain("10K"), STag::Plain("7K"), STag::Plain("1K")]
                }),
                opt(vec![STag::Plain("CL")]),
                opt(vec![STag::Plain("MR")]),
                opt(vec![STag::Plain("HO")]),
                opt(vec![STag::Plain("IN")]),
                opt([None, Some(0.0), Some(42.0), Some(-1.0)].iter().map(|s| STag::Random(*s)).collect()),
                opt(vec![STag::Da { hro: None, scroll: None }]),
            ],
        ),
    };
    let sets = product(&groups);
    let mut out = Vec::with_capacity(bits.len() * sets.len());
    for b in bits {
        for s in &sets {
            out.push((b, s.clone()));
        }
    }
    out
}

fn case_id(mode: u8, bits: u32, tags: &[STag]) -> String {
    format!("set-{}-{bits}-{}", mode_name(mode), tags_wire(tags))
}

/// the set with one tag replaced
fn replaced(tags: &[STag], i: usize, t: STag) -> Vec<STag> {
    let mut v = tags.to_vec();
    v[i] = t;
    v
}

fn without(tags: &[STag], i: usize) -> Vec<STag> {
    let mut v = tags.to_vec();
    v.remove(i);
    v
}

/// Mirror is honoured by the lazer representation only: the set has a Mirror that decides the lazer
/// `reflection()` (osu!: no HardRock; catch: always), the lazer answer is Horizontal, the other side
/// answers as if Mirror were absent, and nothing else differs.
fn mirror_only_lazer(mode: u8, bits: u32, tags: &[STag], lz: &ModsSnapshot, other: &ModsSnapshot) -> bool {
    let has_mr = tags.iter().any(|t| t.acronym() == "MR" && t.is_default());
    let hr = bits & 16 != 0;
    let applies = has_mr && ((mode == 0 && !hr) || mode == 2);
    let mut t = lz.clone();
    t.reflection = other.reflection;
    // (for catch both sides were reduced to `== Horizontal`, so the other side reads 0)
    applies && lz.reflection == 2 && other.reflection == if hr && mode == 0 { 1 } else { 0 } && &t == other
}

pub fn settings_cases(run: &mut Run, thorough: bool, only: Option<&str>) {
    for mode in 0..4u8 {
        for (bits, tags) in grid(mode, thorough) {
            let id = case_id(mode, bits, &tags);
            if only.is_some_and(|o| o != id) {
                continue;
            }
            run.repro.insert(
                id.clone(),
                format!("mode {}: GameMods::from_intermode(from_bits({bits})) + lazer mods {tags:?}; rosu_pp::verif::mods_snapshot / difficulty_getters", mode_name(mode)),
            );
            let lazer = build(mode, bits, &tags);
            let mods = GameMods::from(lazer);
            let snap = match guarded(|| mods_snapshot(&mods)) {
                Ok(s) => s,
                Err(p) => {
                    run.fail("oracle:settings-panic", "", &id, p, format!("{tags:?}"));
                    continue;
                }
            };
            // correspondence: accessors × Difficulty setters (mania: hardrock_offsets is irrelevant, keep the lazer axis)
            let hros: &[Option<bool>] = if mode == 3 || mode == 1 { &[None] } else { &OB3 };
            for &hro in hros {
                for &lz in &OB3 {
                    let d = with_setters(mods.clone(), hro, lz);
                    let line = format!("LZS {mode} {bits} {} {} {}", tags_wire(&tags), ob(hro), ob(lz));
                    let obs = observe(&snap, &d);
                    if mode == 2 && bits == 16 && tags == [STag::Da { hro: Some(false), scroll: None }] && hro.is_none() && lz.is_none() {
                        run.sample(format!("{id}: {line} -> {obs}"));
                    }
                    run.line(&id, line, obs);
                }
            }
            for t in &tags {
                run.count(&format!("settings:{}:{}", mode_name(mode), t.wire().split('.').take(2).collect::<Vec<_>>().join(".")));
            }
            run.count(&format!("settings:sets:{}", mode_name(mode)));
            run.eval(Some(&id));

            // oracle 1: a setting that spells its documented default explicitly ≡ the unset setting
            for (i, t) in tags.iter().enumerate() {
                let (unset, what): (STag, &str) = match t {
                    STag::Classic(Some(true)) => (STag::Classic(None), "Classic no_slider_head_accuracy=true vs unset"),
                    STag::Mirror(Some("0")) => (STag::Mirror(None), "Mirror reflection=\"0\" (Horizontal) vs unset"),
                    STag::Da { hro: Some(b), scroll: None } if mode == 2 && *b == (bits & 16 != 0) => {
                        (STag::Da { hro: None, scroll: None }, "DifficultyAdjust hard_rock_offsets=<HardRock present> vs unset")
                    }
                    _ => continue,
                };
                let other = mods_snapshot(&GameMods::from(build(mode, bits, &replaced(&tags, i, unset))));
                run.count("oracle:explicit-default-pairs");
                if other != snap {
                    // known finding: Mirror "0" is read as no reflection; classifier: no HardRock (it would win),
                    // explicit side None, unset side Horizontal, nothing else differs
                    let mut tmp = snap.clone();
                    tmp.reflection = other.reflection;
                    let class = if matches!(t, STag::Mirror(Some("0"))) && bits & 16 == 0 && snap.reflection == 0 && other.reflection == 2 && tmp == other {
                        "mods-mirror-explicit-horizontal"
                    } else {
                        ""
                    };
                    run.fail(
                        "oracle:settings-explicit-default",
                        class,
                        &id,
                        format!("{what}: `{}` vs `{}`", snap_str(&snap), snap_str(&other)),
                        format!("mode {} bits {bits} lazer mods {tags:?}", mode_name(mode)),
                    );
                }
            }
            // oracle 2: Random with unset seed ≡ no Random mod
            for (i, t) in tags.iter().enumerate() {
                if *t == STag::Random(None) {
                    let other = mods_snapshot(&GameMods::from(build(mode, bits, &without(&tags, i))));
                    if other != snap {
                        run.fail("oracle:settings-random-unset", "", &id, format!("`{}` vs `{}`", snap_str(&snap), snap_str(&other)), format!("{tags:?}"));
                    }
                }
            }
            // oracle 3: all settings unset ⇒ lazer ≡ owned intermode ≡ borrowed intermode on every accessor
            if tags.iter().all(STag::is_default) {
                let im = intermode_of(bits, &tags);
                let own = mods_snapshot(&GameMods::from(im.clone()));
                let bor = mods_snapshot(&GameMods::from(&im));
                run.count("oracle:default-settings-vs-intermode");
                if own != bor {
                    let mut t = bor.clone();
                    t.clock_rate = own.clock_rate;
                    let class = if both_directions(bits) && t == own { "mods-dt-and-ht-together" } else { "" };
                    run.fail("oracle:settings-ref-vs-owned", class, &id, format!("owned `{}` vs borrowed `{}`", snap_str(&own), snap_str(&bor)), format!("GameModsIntermode {im}"));
                }
                let mut want = own.clone();
                let mut got = snap.clone();
                if mode != 0 {
                    // the lazer arms of no_slider_head_acc / reflection look at osu!'s Classic, osu!'s HardRock only;
                    // nobody outside osu! calls no_slider_head_acc, catch only asks `== Horizontal`
                    want.no_slider_head_acc_lazer = got.no_slider_head_acc_lazer;
                    want.no_slider_head_acc_stable = got.no_slider_head_acc_stable;
                    want.reflection = u8::from(want.reflection == 2) * 2;
                    got.reflection = u8::from(got.reflection == 2) * 2;
                }
                if got != want {
                    let class = if mirror_only_lazer(mode, bits, &tags, &got, &want) { "mods-mirror-only-lazer" } else { "" };
                    run.fail(
                        "oracle:settings-lazer-vs-intermode",
                        class,
                        &id,
                        format!("lazer `{}` vs intermode `{}`", snap_str(&got), snap_str(&want)),
                        format!("mode {} lazer {tags:?} + bits {bits} vs GameModsIntermode {im}", mode_name(mode)),
                    );
                }
            }
        }
    }
}

/// `IMS` lines: intermode sets by acronym, owned and borrowed
pub fn intermode_cases(run: &mut Run, only: Option<&str>) {
    const NO_BIT: [&str; 9] = ["CL", "IN", "HO", "DC", "BL", "TC", "10K", "DA", "MR"];
    const BASES: [&[&str]; 4] = [&[], &["HR"], &["DT", "HT"], &["HD", "NC", "4K"]];
    for base in BASES {
        for sub in 0..(1u32 << NO_BIT.len()) {
            let mut acrs: Vec<&str> = base.to_vec();
            for (j, a) in NO_BIT.iter().enumerate() {
                if sub & (1 << j) != 0 {
                    acrs.push(a);
                }
            }
            let list = if acrs.is_empty() { "-".to_owned() } else { acrs.join(",") };
            let id = format!("ims-{list}");
            if only.is_some_and(|o| o != id) {
                continue;
            }
            let mut im = GameModsIntermode::new();
            for a in &acrs {
                im.insert(GameModIntermode::from_acronym(a.parse().expect("acronym")));
            }
            run.repro.insert(id.clone(), format!("GameModsIntermode {{{list}}} as GameMods::from(im.clone()) and GameMods::from(&im)"));
            let variant = |m: &GameMods| match m {
                GameMods::Lazer(_) => "lazer",
                GameMods::Intermode(_) => "intermode",
                GameMods::Legacy(_) => "legacy",
            };
            let own = GameMods::from(im.clone());
            let bor = GameMods::from(&im);
            let (so, sb) = (mods_snapshot(&own), mods_snapshot(&bor));
            run.line(&id, format!("IMS own {list}"), format!("rep={} {}", variant(&own), snap_str(&so)));
            run.line(&id, format!("IMS ref {list}"), format!("rep={} {}", variant(&bor), snap_str(&sb)));
            run.count(&format!("ims:borrowed-becomes-{}", variant(&bor)));
            run.eval(Some(&id));
            // oracle: a mod without legacy bit keeps the whole set (borrowed = owned); otherwise the
            // accessors agree (known: DT+HT)
            let has_unrepresentable = im.checked_bits().is_none();
            if has_unrepresentable && (variant(&bor) != "intermode" || sb != so) {
                run.fail("oracle:ims-unrepresentable-dropped", "", &id, format!("owned `{}` vs borrowed `{}`", snap_str(&so), snap_str(&sb)), list.clone());
            } else if sb != so {
                let mut t = sb.clone();
                t.clock_rate = so.clock_rate;
                let dtht = acrs.contains(&"DT") && acrs.contains(&"HT");
                run.fail(
                    "oracle:ims-ref-vs-owned",
                    if dtht && t == so { "mods-dt-and-ht-together" } else { "" },
                    &id,
                    format!("owned `{}` vs borrowed `{}`", snap_str(&so), snap_str(&sb)),
                    list.clone(),
                );
            }
        }
    }
}

/// one side of an end-to-end equivalence
#[derive(Clone, Debug)]
pub enum Side {
    Lazer { bits: u32, tags: Vec<STag>, hro: Option<bool>, lazer: Option<bool> },
    /// owned (`false`) or borrowed (`true`) `GameModsIntermode` with the tags' acronyms
    Intermode { bits: u32, tags: Vec<STag>, borrowed: bool },
}

impl Side {
    fn lz(bits: u32, tags: &[STag]) -> Side {
        Side::Lazer { bits, tags: tags.to_vec(), hro: None, lazer: None }
    }

    fn set(bits: u32, tags: &[STag], hro: Option<bool>, lazer: Option<bool>) -> Side {
        Side::Lazer { bits, tags: tags.to_vec(), hro, lazer }
    }

    fn difficulty(&self, mode: u8) -> Difficulty {
        match self {
            Side::Lazer { bits, tags, hro, lazer } => with_setters(GameMods::from(build(mode, *bits, tags)), *hro, *lazer),
            Side::Intermode { bits, tags, borrowed } => {
                let im = intermode_of(*bits, tags);
                Difficulty::new().mods(if *borrowed { GameMods::from(&im) } else { GameMods::from(im) })
            }
        }
    }
}

/// (name, A, B, expectation): `Same` = the theorem-backed equivalence; `Finding(class, explain)` = the two
/// sides are *meant* to be equivalent, the code disagrees, and `explain` is the side-B-like spelling
/// whose results side A must reproduce exactly for the failure to count as that known finding.
enum Expect {
    Same,
    Finding(&'static str, Side),
}

fn pairs(mode: u8) -> Vec<(&'static str, Side, Side, Expect)> {
    use Expect::{Finding, Same};
    let da = |hro| STag::Da { hro, scroll: None };
    let sc = |scroll| STag::Da { hro: None, scroll };
    let mut v: Vec<(&'static str, Side, Side, Expect)> = Vec::new();
    match mode {
        0 => {
            for bits in [0u32, 8 | 64] {
                v.push(("classic-unset=true", Side::lz(bits, &[STag::Classic(None)]), Side::lz(bits, &[STag::Classic(Some(true))]), Same));
                v.push(("classic-lazer=intermode", Side::lz(bits, &[STag::Classic(None)]), Side::Intermode { bits, tags: vec![STag::Plain("CL")], borrowed: false }, Same));
                v.push(("classic-intermode=ref", Side::Intermode { bits, tags: vec![STag::Plain("CL")], borrowed: true }, Side::Intermode { bits, tags: vec![STag::Plain("CL")], borrowed: false }, Same));
                v.push(("lazer-on:classic-false=no-classic", Side::lz(bits, &[STag::Classic(Some(false))]), Side::lz(bits, &[]), Same));
                v.push(("stable:classic=no-classic", Side::set(bits, &[STag::Classic(None)], None, Some(false)), Side::set(bits, &[], None, Some(false)), Same));
                v.push((
                    "mirror-unset=\"0\"",
                    Side::lz(bits, &[STag::Mirror(Some("0"))]),
                    Side::lz(bits, &[STag::Mirror(None)]),
                    Finding("mods-mirror-explicit-horizontal", Side::lz(bits, &[])),
                ));
                v.push((
                    "mirror-intermode=lazer",
                    Side::Intermode { bits, tags: vec![STag::Plain("MR")], borrowed: false },
                    Side::lz(bits, &[STag::Mirror(None)]),
                    Finding("mods-mirror-only-lazer", Side::lz(bits, &[])),
                ));
                v.push(("mirror-ref=owned", Side::Intermode { bits, tags: vec![STag::Plain("MR")], borrowed: true }, Side::Intermode { bits, tags: vec![STag::Plain("MR")], borrowed: false }, Same));
                v.push(("mirror-unknown=none", Side::lz(bits, &[STag::Mirror(Some("x"))]), Side::lz(bits, &[]), Same));
                v.push(("hr+mirror=hr", Side::lz(bits | 16, &[STag::Mirror(None)]), Side::lz(bits | 16, &[]), Same));
                v.push(("random-osu-ignored", Side::lz(bits, &[STag::Random(Some(42.0))]), Side::lz(bits, &[]), Same));
                v.push(("blinds+traceable", Side::lz(bits, &[STag::Plain("BL"), STag::Plain("TC")]), Side::Intermode { bits, tags: vec![STag::Plain("BL"), STag::Plain("TC")], borrowed: true }, Same));
            }
        }
        1 => {
            for bits in [0u32, 16, 2 | 256] {
                v.push(("scroll-unset=1.0", Side::lz(bits, &[sc(None)]), Side::lz(bits, &[sc(Some(1.0))]), Same));
                v.push(("scroll-unset=no-da", Side::lz(bits, &[sc(None)]), Side::lz(bits, &[]), Same));
                v.push(("random-unset=no-random", Side::lz(bits, &[STag::Random(None)]), Side::lz(bits, &[]), Same));
                v.push(("random-intermode=no-random", Side::Intermode { bits, tags: vec![STag::Plain("RD")], borrowed: false }, Side::lz(bits, &[]), Same));
                v.push(("random-saturates", Side::lz(bits, &[STag::Random(Some(3e9))]), Side::lz(bits, &[STag::Random(Some(2147483647.0))]), Same));
                v.push(("classic-taiko", Side::lz(bits, &[STag::Plain("CL")]), Side::Intermode { bits, tags: vec![STag::Plain("CL")], borrowed: true }, Same));
            }
        }
        2 => {
            for bits in [0u32, 16, 2] {
                let hr = bits & 16 != 0;
                for b in [false, true] {
                    v.push(("da-hro=setter", Side::lz(bits, &[da(Some(b))]), Side::set(bits, &[da(None)], Some(b), None), Same));
                    v.push(("da-hro=setter-no-da", Side::lz(bits, &[da(Some(b))]), Side::set(bits, &[], Some(b), None), Same));
                    v.push(("setter-wins", Side::set(bits, &[da(Some(b))], Some(!b), None), Side::set(bits, &[], Some(!b), None), Same));
                }
                v.push(("da-hro-unset=hr", Side::lz(bits, &[da(None)]), Side::lz(bits, &[da(Some(hr))]), Same));
                v.push(("da-unset=no-da", Side::lz(bits, &[da(None)]), Side::lz(bits, &[]), Same));
                v.push((
                    "mirror-intermode=lazer",
                    Side::Intermode { bits, tags: vec![STag::Plain("MR")], borrowed: false },
                    Side::lz(bits, &[STag::Plain("MR")]),
                    Finding("mods-mirror-only-lazer", Side::lz(bits, &[])),
                ));
                v.push(("classic-catch", Side::lz(bits, &[STag::Plain("CL")]), Side::Intermode { bits, tags: vec![STag::Plain("CL")], borrowed: true }, Same));
            }
        }
        _ => {
            for bits in [0u32, 64, 1 << 15] {
                v.push(("lazer(false)=classic", Side::set(bits, &[], None, Some(false)), Side::lz(bits, &[STag::Plain("CL")]), Same));
                v.push(("classic-lazer=intermode", Side::lz(bits, &[STag::Plain("CL")]), Side::Intermode { bits, tags: vec![STag::Plain("CL")], borrowed: false }, Same));
                for a in ["HO", "IN", "10K", "MR"] {
                    v.push(("plain-lazer=intermode", Side::lz(bits, &[STag::Plain(a)]), Side::Intermode { bits, tags: vec![STag::Plain(a)], borrowed: false }, Same));
                    v.push(("plain-ref=owned", Side::Intermode { bits, tags: vec![STag::Plain(a)], borrowed: true }, Side::Intermode { bits, tags: vec![STag::Plain(a)], borrowed: false }, Same));
                }
                v.push(("random-unset=no-random", Side::lz(bits, &[STag::Random(None)]), Side::lz(bits, &[]), Same));
                v.push(("ho+in+cl", Side::lz(bits, &[STag::Plain("HO"), STag::Plain("IN"), STag::Plain("CL")]), Side::Intermode { bits, tags: vec![STag::Plain("HO"), STag::Plain("IN"), STag::Plain("CL")], borrowed: true }, Same));
            }
            v.push(("key-lazer=bit", Side::lz(0, &[STag::Plain("4K")]), Side::lz(1 << 15, &[]), Same));
            v.push(("key-lazer=bit", Side::lz(0, &[STag::Plain("7K")]), Side::Intermode { bits: 1 << 18, tags: vec![], borrowed: true }, Same));
        }
    }
    v
}

pub fn e2e_settings(run: &mut Run, maps: &[E2eMap], only: Option<&str>) {
    for m in maps {
        for (k, (name, a, b, expect)) in pairs(m.mode).into_iter().enumerate() {
            let id = format!("e2e-set-{}-{k}-{name}", m.id);
            if only.is_some_and(|o| o != id) {
                continue;
            }
            run.repro.insert(id.clone(), format!("map {} ({}): {a:?} vs {b:?}\n{}", m.id, mode_name(m.mode), m.text));
            // equivalences that hold for `lazer` unset/true only leave out the score spec that forces `lazer(false)`
            let n = if name.starts_with("lazer-on:") { 2 } else { SCORES.len() };
            let results = |d: &Difficulty, m: &E2eMap, v: Option<&GameMods>| results_n(d, m, v, n);
            let (ra, rb) = (results(&a.difficulty(m.mode), m, None), results(&b.difficulty(m.mode), m, None));
            match (ra, rb) {
                (Ok(x), Ok(y)) => {
                    run.count(&format!("e2e:settings:{}:{name}", mode_name(m.mode)));
                    run.eval(Some(&id));
                    match expect {
                        Expect::Same => {
                            if x != y {
                                run.fail("oracle:e2e-settings", "", &id, format!("{name} on {}: {}", m.id, first_diff(&x, &y)), format!("{a:?} vs {b:?}\n{}", m.text));
                            }
                        }
                        Expect::Finding(class, explain) => {
                            if x != y {
                                // narrow: side A gives exactly the results of the spelling that ignores the mod
                                let ex = results(&explain.difficulty(m.mode), m, None);
                                let explained = ex.is_ok_and(|e| e == x);
                                run.fail(
                                    "oracle:e2e-settings",
                                    if explained { class } else { "" },
                                    &id,
                                    format!("{name} on {}: {}", m.id, first_diff(&x, &y)),
                                    format!("{a:?} vs {b:?}\n{}", m.text),
                                );
                            } else {
                                run.count(&format!("e2e:settings:{name}:results-happen-to-coincide"));
                            }
                        }
                    }
                }
                (Err(e), _) | (_, Err(e)) if e.starts_with("convert:") => run.count("e2e:not-convertible"),
                (Err(e), _) | (_, Err(e)) => run.fail("oracle:e2e-panic", "", &id, e, m.text.clone()),
            }
        }
    }
}
