//! C05 correspondence lines for the Lean safety models (`Model/Safety*.lean`): the real
//! `LimitedQueue`, `ContainedColumns`, `find_available_column` and `BananaShower::new` (through the
//! `--cfg rosu_pp_verif` hooks) are driven with the same inputs as the models.

use rosu_pp::{
    catch::verif::n_bananas,
    mania::verif::{find_available_column, ContainedColumns},
    verif::LimitedQueue,
};

use crate::{
    common::{guarded, Run},
    rng::Rng,
};

/// Runs `f` on its own thread; `None` if it has not finished after `secs` seconds (the thread is
/// then left spinning until the process exits). After three timeouts nothing is started any more.
fn with_timeout<T: Send + 'static>(secs: u64, f: impl FnOnce() -> T + Send + 'static) -> Option<Result<T, String>> {
    use std::sync::atomic::{AtomicUsize, Ordering};
    static TIMEOUTS: AtomicUsize = AtomicUsize::new(0);
    if TIMEOUTS.load(Ordering::Relaxed) >= 3 {
        return Some(Err("SKIPPED".to_owned()));
    }
    let (tx, rx) = std::sync::mpsc::channel();
    std::thread::spawn(move || {
        let _ = tx.send(guarded(f));
    });
    match rx.recv_timeout(std::time::Duration::from_secs(secs)) {
        Ok(r) => Some(r),
        Err(_) => {
            TIMEOUTS.fetch_add(1, Ordering::Relaxed);
            None
        }
    }
}

fn show_list(l: &[u64]) -> String {
    if l.is_empty() {
        "e".to_owned()
    } else {
        l.iter().map(u64::to_string).collect::<Vec<_>>().join(":")
    }
}

fn lq_run<const N: usize>(ops: &[String]) -> String {
    let r = guarded(|| {
        let mut q = LimitedQueue::<u64, N>::new();
        let mut out: Vec<String> = Vec::new();
        for op in ops {
            let (k, arg) = op.split_at(1);
            let r = std::panic::catch_unwind(std::panic::AssertUnwindSafe(|| match k {
                "p" => {
                    q.push(arg.parse().unwrap_or(0));
                    "-".to_owned()
                }
                "l" => q.len().to_string(),
                "f" => u8::from(q.is_full()).to_string(),
                "i" => q[arg.parse::<usize>().unwrap_or(0)].to_string(),
                "s" => {
                    let (a, b) = q.as_slices();
                    format!("{}|{}", show_list(a), show_list(b))
                }
                _ => "?".to_owned(),
            }));
            match r {
                Ok(s) => out.push(s),
                Err(_) => {
                    out.push("PANIC".to_owned());
                    break;
                }
            }
        }
        out.join(";")
    });
    r.unwrap_or_else(|_| "PANIC".to_owned())
}

fn lq_case(run: &mut Run, id: &str, n: usize, ops: Vec<String>) {
    let out = match n {
        1 => lq_run::<1>(&ops),
        2 => lq_run::<2>(&ops),
        3 => lq_run::<3>(&ops),
        4 => lq_run::<4>(&ops),
        5 => lq_run::<5>(&ops),
        7 => lq_run::<7>(&ops),
        8 => lq_run::<8>(&ops),
        _ => lq_run::<16>(&ops),
    };
    if out.contains("PANIC") {
        run.fail("oracle:limited-queue-panic", "", id, format!("N={n} ops={} -> {out}", ops.join(",")), format!("LimitedQueue<u64,{n}> ops {}", ops.join(",")));
    }
    run.count("model:LQ lines");
    run.count(&format!("model:LQ N={n}"));
    run.line(id, format!("LQ {n} {}", ops.join(",")), out);
    run.eval(Some(id));
}

fn cc_case(run: &mut Run, id: &str, ops: Vec<String>) {
    let out = guarded(|| {
        let mut s = ContainedColumns::default();
        let mut out: Vec<String> = Vec::new();
        for op in &ops {
            let (k, arg) = op.split_at(1);
            match k {
                "i" => {
                    s.insert(arg.parse().unwrap_or(0));
                    out.push("-".into());
                }
                "c" => out.push(u8::from(s.contains(arg.parse().unwrap_or(0))).to_string()),
                "l" => out.push(s.len().to_string()),
                "a" => {
                    // build `other` from its bits through the public `insert`
                    let bits: u32 = arg.parse().unwrap_or(0);
                    let mut o = ContainedColumns::default();
                    for c in 0..16u8 {
                        if bits & (1 << c) != 0 {
                            o.insert(c);
                        }
                    }
                    s.append(&mut o);
                    if o.len() != 0 {
                        out.push("other-not-emptied".into());
                    } else {
                        out.push("-".into());
                    }
                }
                _ => out.push("?".into()),
            }
        }
        out.join(";")
    })
    .unwrap_or_else(|_| "PANIC".to_owned());
    if out.contains("PANIC") {
        run.fail("oracle:contained-columns-panic", "", id, format!("ops={} -> {out}", ops.join(",")), format!("ContainedColumns ops {}", ops.join(",")));
    }
    run.count("model:CC lines");
    run.line(id, format!("CC {}", ops.join(",")), out);
    run.eval(Some(id));
}

#[allow(clippy::too_many_arguments)]
fn fac_case(run: &mut Run, id: &str, total: i32, initial: u8, upper: i32, mode: &str, seed: i32, patterns: &[Vec<u8>], expect_panic: bool) {
    let rs = i32::from(total == 8);
    let gathered = match mode {
        "g" => Some(true),
        "n" => Some(false),
        _ => None,
    };
    let pats = patterns.to_vec();
    let up = if upper == total { None } else { Some(upper) };
    let out = match with_timeout(10, move || find_available_column(total, initial, up, gathered, seed, &pats)) {
        Some(Ok(c)) => format!("found:{c}"),
        Some(Err(e)) if e == "SKIPPED" => "SKIPPED-after-3-hangs".to_owned(),
        Some(Err(_)) => "PANIC".to_owned(),
        None => "HANG".to_owned(),
    };
    if out == "HANG" {
        run.fail(
            "oracle:hang",
            "",
            id,
            format!("find_available_column did not return within 10 s: total={total} rs={rs} initial={initial} upper={upper} mode={mode} seed={seed} patterns={patterns:?}"),
            format!("mania::verif::find_available_column({total}, {initial}, {up:?}, {gathered:?}, {seed}, {patterns:?})"),
        );
    } else if !out.starts_with("SKIPPED") && (out == "PANIC") != expect_panic {
        run.fail(
            "oracle:find-available-column",
            "",
            id,
            format!("total={total} rs={rs} initial={initial} upper={upper} mode={mode} seed={seed} patterns={patterns:?}: {out}, expected panic: {expect_panic}"),
            format!("mania::verif::find_available_column({total}, {initial}, {up:?}, {gathered:?}, {seed}, {patterns:?})"),
        );
    }
    let bits: Vec<String> = patterns.iter().map(|p| p.iter().fold(0u32, |a, c| a | (1 << c)).to_string()).collect();
    run.count(&format!("model:FAC {mode}"));
    run.line(
        id,
        format!("FAC {total} {rs} {initial} {upper} {mode} {seed} {}", if bits.is_empty() { "-".to_owned() } else { bits.join("|") }),
        out,
    );
    run.eval(Some(id));
}

fn ban_case(run: &mut Run, id: &str, start: i64, end: i64) {
    let out = match with_timeout(10, move || n_bananas(start as f64, end as f64)) {
        Some(Ok(n)) => n.to_string(),
        Some(Err(e)) if e == "SKIPPED" => "SKIPPED-after-3-hangs".to_owned(),
        Some(Err(_)) => "PANIC".to_owned(),
        None => "HANG".to_owned(),
    };
    if out == "HANG" {
        run.fail(
            "oracle:hang",
            "",
            id,
            format!("BananaShower::new({start}, {end}) did not return within 10 s"),
            format!("catch map with the spinner `256,192,{start},12,0,{end}` (catch::verif::n_bananas({start}.0, {end}.0))"),
        );
    }
    run.count("model:BAN lines");
    if start >= 16_777_216 || end >= 16_777_216 {
        run.count("model:BAN t>=2^24");
    }
    // the Float32 replica of the FIXED loop; fuel exhaustion in the replica would print HANG
    run.line(id, format!("BAN 1 {start} {end} 200000000"), out.clone());
    // exact arithmetic = f32 while every intermediate value is representable
    if (0..4096).contains(&start) && (0..4096).contains(&end) {
        run.count("model:BANX lines");
        run.line(id, format!("BANX {start} {end}"), out);
    }
    run.eval(Some(id));
}

pub fn model_lines(run: &mut Run, tier: &str, seed: u64, only: Option<&str>) {
    if only.is_some_and(|o| !o.starts_with("m:")) {
        return;
    }
    let want = |id: &str| only.is_none_or(|o| o == id);
    let thorough = tier == "thorough";
    let mut rng = Rng::new(seed ^ 0xC05);

    // LimitedQueue: fixed corner sequences + random op sequences for several capacities
    let n_lq = if thorough { 4000 } else { 400 };
    for i in 0..n_lq {
        let id = format!("m:lq:{i}");
        let n = *rng.pick(&[1usize, 2, 3, 4, 5, 7, 7, 7, 8, 16]);
        let len = rng.range(0, if thorough { 60 } else { 30 }) as usize;
        let mut ops = Vec::new();
        let mut v = 1u64;
        for _ in 0..len {
            ops.push(match rng.below(8) {
                0..=3 => {
                    v += rng.range(1, 9) as u64;
                    format!("p{v}")
                }
                4 => "l".to_owned(),
                5 => "f".to_owned(),
                6 => format!("i{}", rng.range(0, 2 * n as i64 + 1)),
                _ => "s".to_owned(),
            });
        }
        if ops.is_empty() {
            ops.push("s".to_owned());
        }
        if want(&id) {
            lq_case(run, &id, n, ops);
        }
    }
    // ContainedColumns: columns < 16 (a shift by >= 16 panics with overflow checks and is masked
    // without; the converter never produces such a column — Props/C05.generated_columns_shift_safe)
    let n_cc = if thorough { 2000 } else { 300 };
    for i in 0..n_cc {
        let id = format!("m:cc:{i}");
        let len = rng.range(1, 24) as usize;
        let ops: Vec<String> = (0..len)
            .map(|_| match rng.below(6) {
                0 | 1 => format!("i{}", rng.range(0, 15)),
                2 | 3 => format!("c{}", rng.range(0, 15)),
                4 => "l".to_owned(),
                _ => format!("a{}", rng.below(1 << 16)),
            })
            .collect();
        if want(&id) {
            cc_case(run, &id, ops);
        }
    }
    // find_available_column: exhaustive over small totals for the gathered variant, random for
    // the PRNG variants; plus "all columns taken" cases where the assert! must fire
    let mut k = 0usize;
    for total in 2..=10i32 {
        let rs = i32::from(total == 8);
        let n_masks = if thorough { 120 } else { 24 };
        for _ in 0..n_masks {
            let m1 = rng.below(1 << total) as u32;
            let m2 = if rng.chance(1, 2) { rng.below(1 << total) as u32 } else { 0 };
            let cols = |m: u32| (0..total as u8).filter(|c| m & (1 << c) != 0).collect::<Vec<u8>>();
            let pats: Vec<Vec<u8>> = if m2 == 0 { vec![cols(m1)] } else { vec![cols(m1), cols(m2)] };
            let occupied = m1 | m2;
            for initial in 0..total as u8 {
                let initial_free = occupied & (1 << initial) == 0;
                let any_free = (rs..total).any(|c| occupied & (1 << c) == 0);
                let expect_panic = !initial_free && !any_free;
                for mode in ["g", "n", "r"] {
                    if mode != "g" && !rng.chance(1, 3) {
                        continue;
                    }
                    let id = format!("m:fac:{k}");
                    k += 1;
                    if want(&id) {
                        fac_case(run, &id, total, initial, total, mode, rng.range(-1000, 100_000) as i32, &pats, expect_panic);
                    }
                }
            }
        }
        // mirrored variant: `upper = column_limit`
        let limit = if total % 2 == 0 { total / 2 } else { (total - 1) / 2 };
        if limit > rs {
            for _ in 0..(if thorough { 40 } else { 8 }) {
                let m1 = rng.below(1 << total) as u32;
                let cols: Vec<u8> = (0..total as u8).filter(|c| m1 & (1 << c) != 0).collect();
                let initial = rng.range(i64::from(rs), i64::from(limit - 1)) as u8;
                let initial_free = m1 & (1 << initial) == 0;
                let any_free = (rs..limit).any(|c| m1 & (1 << c) == 0);
                let id = format!("m:fac:{k}");
                k += 1;
                if want(&id) {
                    fac_case(run, &id, total, initial, limit, "r", rng.range(0, 100_000) as i32, &[cols], !initial_free && !any_free);
                }
            }
        }
    }
    // BananaShower::new: grid incl. t >= 2^24 with 1 ms duration (the old hang inputs)
    let mut grid: Vec<(i64, i64)> = vec![
        (20_000_000, 20_000_001), // permanent regression input `256,192,20000000,12,0,20000001`
        (16_777_216, 16_777_217),
        (16_777_215, 16_777_216),
        (16_777_217, 16_777_218),
        (33_554_432, 33_554_433),
        (33_554_432, 33_554_435),
        (2_147_483_000, 2_147_483_647),
        (2_147_483_646, 2_147_483_647),
        (1_073_741_824, 1_073_741_825),
        (1_000_000_000, 1_000_000_050),
        (0, 0),
        (0, 1),
        (5, 3),
        (0, 100),
        (0, 101),
        (0, 200),
        (0, 201),
        (-500, 700),
        (-2_000_000_000, -1_999_999_999),
        (-16_777_217, -16_777_216),
        (-20_000_001, -20_000_000),
        (0, 10_000_000),
    ];
    for e in 14..31u32 {
        for d in [1i64, 2, 3, 7, 50, 99, 100, 101, 150, 1000] {
            grid.push(((1i64 << e) - 1, (1i64 << e) - 1 + d));
            grid.push((1i64 << e, (1i64 << e) + d));
            grid.push(((1i64 << e) + 1, (1i64 << e) + 1 + d));
        }
    }
    let n_rand = if thorough { 20_000 } else { 1500 };
    for _ in 0..n_rand {
        let start = match rng.below(4) {
            0 => rng.range(0, 4000),
            1 => rng.range(0, 11_000_000),
            2 => rng.range(16_000_000, 2_147_000_000),
            _ => rng.range(-3000, 40_000_000),
        };
        let d = match rng.below(5) {
            0 => rng.range(0, 3),
            1 => rng.range(0, 300),
            2 => rng.range(0, 4000),
            3 => rng.range(0, 60_000),
            _ => rng.range(-50, 400_000),
        };
        grid.push((start, (start + d).min(2_147_483_647)));
    }
    for (i, (s, e)) in grid.into_iter().enumerate() {
        let id = format!("m:ban:{i}");
        if want(&id) {
            ban_case(run, &id, s, e);
        }
    }
    susp_model_lines(run, tier, seed, only);
    stk_model_lines(run, tier, seed, only);
}

// ------------------------------------------------------------------------------------------------
// check_suspicion (`TooSuspicious::new`) vs Model/Suspicion.lean: SUSP / SUSPX lines

use rosu_pp::{
    model::hit_object::{HitObject, HitObjectKind},
    Beatmap,
};

use crate::common::{decode, mode_idx, mode_of};

/// `count` objects, the `j`-th starting at `t + (j as f64) * step`
#[derive(Clone, Debug)]
pub struct Grp {
    pub t: f64,
    /// 'c' circle, 's' slider, 'p' spinner, 'h' hold note
    pub kind: char,
    pub rep: usize,
    pub x: f32,
    pub y: f32,
    pub count: usize,
    pub step: f64,
}

impl Grp {
    pub fn one(t: f64, kind: char, rep: usize, x: f32, y: f32) -> Self {
        Self { t, kind, rep, x, y, count: 1, step: 0.0 }
    }

    pub fn run(t: f64, count: usize, step: f64) -> Self {
        Self { t, kind: 'c', rep: 0, x: 256.0, y: 192.0, count, step }
    }
}

fn is_int(v: f64) -> bool {
    v.is_finite() && v.fract() == 0.0 && v.abs() < 9.0e15
}

/// request lines for a feature list: IEEE replay, plus the exact-integer line if every value is an integer
pub fn susp_requests(mode: u8, groups: &[Grp]) -> (String, Option<String>) {
    use std::fmt::Write as _;
    let mut s = format!("SUSP {mode} ");
    let mut x = format!("SUSPX {mode} ");
    let mut exact = true;
    if groups.is_empty() {
        s.push('-');
        x.push('-');
    }
    for (i, g) in groups.iter().enumerate() {
        if i > 0 {
            s.push(';');
            x.push(';');
        }
        let _ = write!(s, "{:x}:{}:{}:{:x}:{:x}", g.t.to_bits(), g.kind, g.rep, g.x.to_bits(), g.y.to_bits());
        if g.count != 1 {
            let _ = write!(s, ":{}:{:x}", g.count, g.step.to_bits());
        }
        exact = exact && is_int(g.t) && is_int(f64::from(g.x)) && is_int(f64::from(g.y)) && (g.count == 1 || (is_int(g.step) && is_int(g.t + g.count as f64 * g.step)));
        if exact {
            let _ = write!(x, "{}:{}:{}:{}:{}", g.t as i64, g.kind, g.rep, g.x as i64, g.y as i64);
            if g.count != 1 {
                let _ = write!(x, ":{}:{}", g.count, g.step as i64);
            }
        }
    }
    (s, exact.then_some(x))
}

/// the feature list `TooSuspicious::new` reads of a map (one group per object)
pub fn susp_features(map: &Beatmap) -> Vec<Grp> {
    map.hit_objects
        .iter()
        .map(|h| {
            let (kind, rep) = match h.kind {
                HitObjectKind::Circle => ('c', 0),
                HitObjectKind::Slider(ref s) => ('s', s.repeats),
                HitObjectKind::Spinner(_) => ('p', 0),
                HitObjectKind::Hold(_) => ('h', 0),
            };
            Grp::one(h.start_time, kind, rep, h.pos.x, h.pos.y)
        })
        .collect()
}

/// `map.check_suspicion()` as the model prints it: `ok` or the variant's `Debug` name
pub fn susp_observed(map: &Beatmap) -> String {
    match guarded(|| map.check_suspicion()) {
        Ok(Ok(())) => "ok".to_owned(),
        Ok(Err(e)) => format!("{e:?}"),
        Err(_) => "PANIC".to_owned(),
    }
}

/// the SUSP (and SUSPX) lines of a decoded map: `(request, observed)`
pub fn susp_lines_of_map(map: &Beatmap) -> Vec<(String, String)> {
    let obs = susp_observed(map);
    let (s, x) = susp_requests(mode_idx(map.mode), &susp_features(map));
    let mut v = vec![(s, obs.clone())];
    if let Some(x) = x {
        v.push((x, obs));
    }
    v
}

/// template objects (circle, slider, spinner, hold) obtained from the decoder, so that no struct
/// literal of the library's types is needed
fn templates() -> Option<[HitObject; 4]> {
    let text = "osu file format v14\n\n[General]\nMode: 3\n\n[Difficulty]\nSliderMultiplier:1\nSliderTickRate:1\n\n[TimingPoints]\n0,500,4,2,0,100,1,0\n\n[HitObjects]\n\
        64,192,1000,1,0\n\
        192,192,2000,128,0,2500:0:0:0:0:\n";
    let text2 = "osu file format v14\n\n[General]\nMode: 0\n\n[Difficulty]\nSliderMultiplier:1\nSliderTickRate:1\n\n[TimingPoints]\n0,500,4,2,0,100,1,0\n\n[HitObjects]\n\
        100,100,1000,2,0,L|200:100,1,100\n\
        256,192,3000,12,0,4000\n";
    let m1 = decode(text).ok()?;
    let m2 = decode(text2).ok()?;
    let circle = m1.hit_objects.iter().find(|h| h.is_circle())?.clone();
    let hold = m1.hit_objects.iter().find(|h| h.is_hold_note())?.clone();
    let slider = m2.hit_objects.iter().find(|h| h.is_slider())?.clone();
    let spinner = m2.hit_objects.iter().find(|h| h.is_spinner())?.clone();
    Some([circle, slider, spinner, hold])
}

/// builds the `Beatmap` value of a feature list by field assignment on `Beatmap::default()`
pub fn synth_map(mode: u8, groups: &[Grp], tpl: &[HitObject; 4]) -> Beatmap {
    let mut map = Beatmap::default();
    map.mode = mode_of(mode);
    let mut objs: Vec<HitObject> = Vec::with_capacity(groups.iter().map(|g| g.count).sum());
    for g in groups {
        let mut o = match g.kind {
            's' => tpl[1].clone(),
            'p' => tpl[2].clone(),
            'h' => tpl[3].clone(),
            _ => tpl[0].clone(),
        };
        o.pos.x = g.x;
        o.pos.y = g.y;
        if let HitObjectKind::Slider(ref mut s) = o.kind {
            s.repeats = g.rep;
        }
        if g.count == 1 {
            o.start_time = g.t;
            objs.push(o);
        } else {
            for j in 0..g.count {
                let mut c = o.clone();
                c.start_time = g.t + (j as f64) * g.step;
                objs.push(c);
            }
        }
    }
    map.hit_objects = objs;
    map
}

fn next_up32(v: f32) -> f32 {
    f32::from_bits(if v >= 0.0 { v.to_bits() + 1 } else { v.to_bits() - 1 })
}

fn up64(v: f64, n: i64) -> f64 {
    // n ulps up (n < 0: down) for positive finite v
    f64::from_bits((v.to_bits() as i64 + n) as u64)
}

fn susp_case(run: &mut Run, id: &str, mode: u8, groups: &[Grp], tpl: &[HitObject; 4], expect: Option<&str>) {
    let map = synth_map(mode, groups, tpl);
    let obs = susp_observed(&map);
    run.count("model:SUSP synthetic");
    run.count(&format!("model:SUSP verdict:{obs}"));
    if let Some(e) = expect {
        if e != obs {
            run.fail(
                "oracle:check-suspicion-threshold",
                "",
                id,
                format!("mode={mode} objects={} expected {e}, check_suspicion answered {obs}", map.hit_objects.len()),
                format!("synthetic Beatmap: {}", susp_requests(mode, groups).0.chars().take(600).collect::<String>()),
            );
        }
    }
    let (s, x) = susp_requests(mode, groups);
    run.line(id, s, obs.clone());
    if let Some(x) = x {
        run.count("model:SUSPX lines");
        run.line(id, x, obs);
    }
    run.eval(Some(id));
}

/// targeted maps around every threshold of `TooSuspicious::new` + random feature lists
pub fn susp_model_lines(run: &mut Run, tier: &str, seed: u64, only: Option<&str>) {
    let want = |id: &str| only.is_none_or(|o| o == id);
    let thorough = tier == "thorough";
    let Some(tpl) = templates() else {
        run.fail("oracle:susp-templates", "", "m:susp", "cannot decode the template objects".into(), String::new());
        return;
    };
    let mut rng = Rng::new(seed ^ 0x5055_5350);
    let mut cases: Vec<(u8, Vec<Grp>, Option<&'static str>)> = Vec::new();
    const DAY: f64 = 86_400_000.0;

    // --- object count: threshold - 1, threshold, threshold + 1; sparse / dense / longer than a day
    for mode in 0..4u8 {
        let thr = if mode == 1 { 20_000usize } else { 500_000 };
        for n in [thr - 1, thr, thr + 1] {
            let over = n > thr;
            // sparse (40 ms apart: below both density limits of every mode), inside one day
            cases.push((mode, vec![Grp::run(0.0, n, 40.0)], Some(if over { "ObjectCount" } else { "ok" })));
            // all at the same time: too dense, but the count is tested first
            cases.push((mode, vec![Grp::run(5.0, n, 0.0)], Some(if over { "ObjectCount" } else { "Density" })));
            // longer than a day: count first, then length
            let step = if mode == 1 { 5000.0 } else { 200.0 };
            cases.push((mode, vec![Grp::run(0.0, n, step)], Some(if over { "ObjectCount" } else { "Length" })));
        }
    }
    // --- length: last - first around one day (ulps), rounding of the subtraction, unsorted, tiny maps
    for mode in 0..4u8 {
        for (first, d, exp) in [
            (0.0, DAY, "ok"),
            (0.0, up64(DAY, 1), "Length"),
            (0.0, up64(DAY, -1), "ok"),
            (0.0, DAY + 1.0, "Length"),
            (1000.0, DAY, "ok"),
            (-DAY / 2.0, DAY, "ok"),
            (0.1, DAY, "ok"),
            (1.0e9, DAY, "ok"),
        ] {
            let last = first + d;
            // what the code computes: (last - first) > DAY in f64
            let exp = if first == 0.0 { exp } else if last - first > DAY { "Length" } else { "ok" };
            cases.push((mode, vec![Grp::one(first, 'c', 0, 0.0, 0.0), Grp::one(last, 'c', 0, 0.0, 0.0)], Some(exp)));
            cases.push((mode, vec![Grp::one(first, 'c', 0, 0.0, 0.0), Grp::one(first + 3.0 * DAY, 'p', 0, 0.0, 0.0), Grp::one(last, 'h', 0, 0.0, 0.0)], Some(exp)));
        }
        cases.push((mode, vec![], Some("ok")));
        cases.push((mode, vec![Grp::one(1.0e300, 'c', 0, 0.0, 0.0)], Some("ok")));
        // unsorted: only first and last count
        cases.push((mode, vec![Grp::one(2.0 * DAY, 'c', 0, 0.0, 0.0), Grp::one(0.0, 'c', 0, 0.0, 0.0)], Some("ok")));
        cases.push((mode, vec![Grp::one(0.0, 'c', 0, 0.0, 0.0), Grp::one(f64::INFINITY, 'c', 0, 0.0, 0.0)], Some("Length")));
        cases.push((mode, vec![Grp::one(0.0, 'c', 0, 0.0, 0.0), Grp::one(f64::NAN, 'c', 0, 0.0, 0.0)], Some("ok")));
    }
    // --- density: index boundary (len = i + PER vs + 1) and time boundary (exactly 1000.0 / 10000.0 ms)
    for mode in 0..4u8 {
        let (p1, p10) = if mode == 3 { (200usize, 500usize) } else { (100, 250) };
        for lead in [0usize, 1, 7] {
            let lead_grp = || Grp::run(-1.0e6, lead, 50_000.0);
            let t0 = 0.0;
            // PER_1S objects at one time: `len > i + PER` fails; one more: dense
            cases.push((mode, vec![lead_grp(), Grp::run(t0, p1, 0.0)], Some("ok")));
            cases.push((mode, vec![lead_grp(), Grp::run(t0, p1 + 1, 0.0)], Some("Density")));
            // the object PER_1S later exactly 1000.0 ms later / one ulp less / one ulp more
            for (d, exp) in [(1000.0, "ok"), (up64(1000.0, -1), "Density"), (up64(1000.0, 1), "ok")] {
                cases.push((mode, vec![lead_grp(), Grp::run(t0, p1, 0.0), Grp::one(t0 + d, 'c', 0, 0.0, 0.0)], Some(exp)));
            }
            // 10 s window: groups of PER_1S at one time, 1000 ms apart (never 1 s dense), PER_10S objects in all
            let full = p10 / p1;
            let rest = p10 - full * p1;
            let mut base: Vec<Grp> = vec![lead_grp()];
            for g in 0..full {
                base.push(Grp::run(t0 + 1000.0 * g as f64, p1, 0.0));
            }
            if rest > 0 {
                base.push(Grp::run(t0 + 1000.0 * full as f64, rest, 0.0));
            }
            cases.push((mode, base.clone(), Some("ok")));
            for (d, exp) in [(10_000.0, "ok"), (up64(10_000.0, -1), "Density"), (up64(10_000.0, 1), "ok"), (9000.0, "Density")] {
                let mut v = base.clone();
                v.push(Grp::one(t0 + d, 'c', 0, 0.0, 0.0));
                cases.push((mode, v, Some(exp)));
            }
        }
        // evenly spaced: 10 ms = exactly 100 per second (ok outside mania's looser limit, too dense per 10 s)
        cases.push((mode, vec![Grp::run(0.0, 400, 10.0)], Some(if mode == 3 { "ok" } else { "Density" })));
        cases.push((mode, vec![Grp::run(0.0, 250, 10.0)], Some("ok")));
        cases.push((mode, vec![Grp::run(0.0, 251, 10.0)], Some(if mode == 3 { "ok" } else { "Density" })));
        cases.push((mode, vec![Grp::run(0.0, 5000, 40.0)], Some("ok")));
        cases.push((mode, vec![Grp::run(0.0, 5000, up64(40.0, -1))], Some(if mode == 3 { "ok" } else { "Density" })));
        cases.push((mode, vec![Grp::run(0.0, 5000, 20.0)], Some(if mode == 3 { "ok" } else { "Density" })));
        cases.push((mode, vec![Grp::run(0.0, 5000, up64(20.0, -1))], Some("Density")));
    }
    // --- repeats 1000 / 1001, |pos| 10000 vs the next f32, the red flag, the two counters (256 / 257)
    let beyond = next_up32(10_000.0);
    for mode in 0..4u8 {
        let oc = mode == 0 || mode == 2;
        for rep in [1000usize, 1001] {
            for (x, y) in [(10_000.0f32, 0.0f32), (beyond, 0.0), (-10_000.0, 5.0), (-beyond, 5.0), (0.0, 10_000.0), (3.0, beyond), (3.0, -beyond), (f32::NAN, 0.0), (f32::INFINITY, 0.0)] {
                let b = x.abs() > 10_000.0 || y.abs() > 10_000.0;
                let exp = if rep > 1000 && b && oc { "RedFlag" } else { "ok" };
                cases.push((mode, vec![Grp::one(0.0, 'c', 0, 0.0, 0.0), Grp::one(100.0, 's', rep, x, y)], Some(exp)));
                // the same features on a non-slider are never looked at
                cases.push((mode, vec![Grp::one(100.0, 'h', rep, x, y), Grp::one(200.0, 'p', rep, x, y), Grp::one(300.0, 'c', rep, x, y)], Some("ok")));
            }
        }
        for (n_pos, n_rep) in [(256usize, 256usize), (257, 0), (0, 257), (257, 257), (256, 257), (300, 256)] {
            let exp = if !oc {
                "ok"
            } else if n_pos > 256 {
                "SliderPositions"
            } else if n_rep > 256 {
                "SliderRepeats"
            } else {
                "ok"
            };
            let mut g1 = Grp::run(0.0, n_rep, 50.0);
            g1.kind = 's';
            g1.rep = 1001;
            let mut g2 = Grp::run(50.0 * n_rep as f64, n_pos, 50.0);
            g2.kind = 's';
            g2.rep = 1000;
            g2.x = beyond;
            cases.push((mode, vec![g1.clone(), g2.clone()], Some(exp)));
            cases.push((mode, vec![{ let mut g = g2.clone(); g.t = 0.0; g }, { let mut g = g1.clone(); g.t = 50.0 * n_pos as f64; g }], Some(exp)));
        }
        // order inside the loop: the first triggering object decides; density wins on the same object
        let red = |t: f64| Grp::one(t, 's', 5000, -20_000.0, 0.0);
        let exp_red = if oc { "RedFlag" } else { "Density" };
        cases.push((mode, vec![red(-20_000.0), Grp::run(10.0, 600, 0.0)], Some(exp_red)));
        cases.push((mode, vec![red(0.0), Grp::run(10.0, 600, 0.0)], Some("Density")));
        cases.push((mode, vec![Grp::run(10.0, 600, 0.0), red(20.0)], Some("Density")));
        cases.push((mode, vec![{ let mut g = Grp::run(10.0, 600, 0.0); g.kind = 's'; g.rep = 5000; g.x = 20_000.0; g }], Some("Density")));
        // red flag on an object that is not too dense although later ones are
        cases.push((mode, vec![Grp::run(0.0, 3, 5000.0), red(20_000.0), Grp::run(30_000.0, 600, 1.0)], Some(exp_red)));
        // length wins over everything in the loop
        cases.push((mode, vec![red(0.0), Grp::run(10.0, 600, 0.0), Grp::one(2.0 * DAY, 'c', 0, 0.0, 0.0)], Some("Length")));
    }
    // --- random feature lists (all modes): spacings around the density limits, random sliders
    let n_rand = if thorough { 6000 } else { 700 };
    for _ in 0..n_rand {
        let mode = rng.below(4) as u8;
        let mut groups = Vec::new();
        let mut t = *rng.pick(&[0.0, -5000.0, 0.5, 1.0e7, 16_777_216.0]);
        let n_groups = rng.range(1, 8);
        let integer = rng.chance(1, 2);
        for _ in 0..n_groups {
            let step = if integer {
                *rng.pick(&[0.0, 1.0, 4.0, 5.0, 9.0, 10.0, 11.0, 19.0, 20.0, 21.0, 39.0, 40.0, 41.0, 100.0, 1000.0, 60_000.0])
            } else {
                *rng.pick(&[0.1, 9.999, 10.000_000_000_000_002, 10.1, 19.999_999_999_999_996, 20.000_001, 39.999_999_999_999_99, 40.000_000_000_000_01, 3.3, 1000.0 / 3.0])
            };
            let count = match rng.below(4) {
                0 => rng.range(1, 4),
                1 => rng.range(90, 110),
                2 => rng.range(190, 260),
                _ => rng.range(1, 700),
            } as usize;
            let kind = *rng.pick(&['c', 'c', 's', 's', 'p', 'h']);
            let rep = *rng.pick(&[0usize, 1, 999, 1000, 1001, 9000]);
            let coords: [f32; 8] = [0.0, 256.0, -3.0, 9999.0, 10_000.0, 10_001.0, -10_000.0, -10_001.0];
            let (x, y) = if integer { (*rng.pick(&coords), *rng.pick(&coords)) } else { (*rng.pick(&[beyond, -beyond, 0.5, 10_000.0]), *rng.pick(&[0.25, beyond, -9999.5])) };
            groups.push(Grp { t, kind, rep, x, y, count, step });
            t += count as f64 * step + if integer { *rng.pick(&[0.0, 10.0, 1000.0, 10_000.0, 86_000_000.0]) } else { *rng.pick(&[0.0, 0.3, 999.999_999, 10_000.000_001]) };
            if rng.chance(1, 12) {
                t -= 50_000.0; // unsorted
            }
        }
        cases.push((mode, groups, None));
    }
    for (i, (mode, groups, expect)) in cases.iter().enumerate() {
        let id = format!("m:susp:{i}");
        if want(&id) {
            susp_case(run, &id, *mode, groups, &tpl, *expect);
        }
    }
}

// ------------------------------------------------------------------------------------------------
// osu! stacking passes (`stacking`, `old_stacking`) vs Model/StackingFull.lean: STK lines

use rosu_pp::{
    model::hit_object::Pos,
    osu::verif::{stacking_probe_map, stacking_probe_synth, StackProbe, StackSynthKind},
};

fn pos_hex(p: Pos) -> String {
    format!("{:x},{:x}", p.x.to_bits(), p.y.to_bits())
}

fn stk_request(old: bool, thr: f64, probe: &StackProbe) -> String {
    use std::fmt::Write as _;
    let mut s = format!("STK {} {:x} ", if old { "old" } else { "new" }, thr.to_bits());
    if probe.objects.is_empty() {
        s.push('-');
    }
    for (i, o) in probe.objects.iter().enumerate() {
        if i > 0 {
            s.push(';');
        }
        let _ = write!(
            s,
            "{}:{:x}:{:x}:{:x}:{:x}:{:x}:{:x}:{}:{}:{}",
            o.kind,
            o.pos.x.to_bits(),
            o.pos.y.to_bits(),
            o.start_time.to_bits(),
            o.end_time.to_bits(),
            o.end_pos.x.to_bits(),
            o.end_pos.y.to_bits(),
            o.repeat_count,
            o.tail.map_or("-".to_owned(), pos_hex),
            o.first_repeat.map_or("-".to_owned(), pos_hex),
        );
    }
    s
}

fn heights_str(h: &[i32]) -> String {
    if h.is_empty() {
        "e".to_owned()
    } else {
        h.iter().map(i32::to_string).collect::<Vec<_>>().join(",")
    }
}

/// Runs one pass through `probe_fn(old)`; a panic of the pass becomes the observed value `PANIC` (the
/// feature snapshot is then taken from the other pass, it does not depend on the pass).
fn stk_line(old: bool, thr: f64, probe_fn: &dyn Fn(bool) -> StackProbe) -> Option<(String, String)> {
    match guarded(|| probe_fn(old)) {
        Ok(p) => Some((stk_request(old, thr, &p), heights_str(&p.heights))),
        Err(_) => guarded(|| probe_fn(!old)).ok().map(|p| (stk_request(old, thr, &p), "PANIC".to_owned())),
    }
}

/// STK lines (both passes) of an osu! map's objects as `convert_objects` builds them
pub fn stk_lines_of_map(map: &Beatmap, thr: f64) -> Vec<(String, String)> {
    [false, true].into_iter().filter_map(|old| stk_line(old, thr, &|o| stacking_probe_map(map, o, thr))).collect()
}

fn stk_synth_case(run: &mut Run, id: &str, objs: &[(Pos, f64, StackSynthKind)], thr: f64) {
    for old in [false, true] {
        run.count("model:STK synthetic");
        match stk_line(old, thr, &|o| stacking_probe_synth(objs, o, thr)) {
            Some((req, obs)) => {
                if obs == "PANIC" {
                    run.fail("oracle:panic", "", id, format!("{} panicked on a synthetic object list", if old { "old_stacking" } else { "stacking" }), req.chars().take(2000).collect());
                } else {
                    if obs.split(',').any(|h| h != "0" && h != "e") {
                        run.count("model:STK synthetic with non-zero heights");
                    }
                    if obs.contains('-') {
                        run.count("model:STK synthetic with negative heights");
                    }
                }
                run.line(id, req, obs);
            }
            None => run.fail("oracle:panic", "", id, "both stacking passes panicked on a synthetic object list".into(), format!("{objs:?}").chars().take(2000).collect()),
        }
    }
    run.eval(Some(id));
}

pub fn stk_model_lines(run: &mut Run, tier: &str, seed: u64, only: Option<&str>) {
    let want = |id: &str| only.is_none_or(|o| o == id);
    let thorough = tier == "thorough";
    let mut rng = Rng::new(seed ^ 0x53544b);
    let n = if thorough { 6000 } else { 600 };
    // offsets around STACK_DISTANCE = 3.0 (f32 distance via f64 sqrt)
    let jit: [f32; 11] = [0.0, 0.0, 0.0, 1.0, 2.0, 2.9, 2.999_999_8, 3.0, 3.000_000_2, 2.121_32, 2.121_320_5];
    for i in 0..n {
        let id = format!("m:stk:{i}");
        let len = match rng.below(6) {
            0 => rng.range(0, 3),
            1..=3 => rng.range(3, 14),
            4 => rng.range(14, 40),
            _ => rng.range(40, if thorough { 160 } else { 80 }),
        } as usize;
        let n_spots = rng.range(1, 4) as usize;
        let spots: Vec<(f32, f32)> = (0..n_spots).map(|_| (rng.range(0, 512) as f32, rng.range(0, 384) as f32)).collect();
        let near = |rng: &mut Rng| {
            let s = *rng.pick(&spots);
            let (dx, dy) = (*rng.pick(&jit), *rng.pick(&jit));
            Pos::new(s.0 + if rng.chance(1, 2) { dx } else { -dx }, s.1 + if rng.chance(1, 2) { dy } else { -dy })
        };
        let thr = *rng.pick(&[0.0, 100.0, 450.0, 840.0, 1260.0, 1.0e9, f64::INFINITY, -50.0]);
        let mut t = *rng.pick(&[0.0, 1000.5, -300.0, 16_777_216.0]);
        let mut objs = Vec::with_capacity(len);
        for _ in 0..len {
            t += *rng.pick(&[0.0, 1.0, 50.0, 100.0, 100.0, 250.0, 449.0, 450.0, 451.0, 840.0, 2000.0]);
            if rng.chance(1, 25) {
                t -= 700.0; // unsorted
            }
            let kind = match rng.below(20) {
                0..=10 => StackSynthKind::Circle,
                11..=16 => {
                    let dur = *rng.pick(&[0.0, 30.0, 100.0, 400.0, 900.0]);
                    let mut nested = Vec::new();
                    let reps = rng.below(4);
                    for _ in 0..rng.below(3) {
                        nested.push((near(&mut rng), 2));
                    }
                    for _ in 0..reps {
                        nested.push((near(&mut rng), 0));
                    }
                    if !rng.chance(1, 8) {
                        nested.push((near(&mut rng), 1));
                    }
                    if rng.chance(1, 10) {
                        nested.push((near(&mut rng), 2)); // the tail is not always the last nested object
                    }
                    StackSynthKind::Slider { end_time: t + dur, nested }
                }
                _ => StackSynthKind::Spinner { duration: *rng.pick(&[0.0, 100.0, 1000.0, -50.0]) },
            };
            objs.push((near(&mut rng), t, kind));
        }
        if want(&id) {
            stk_synth_case(run, &id, &objs, thr);
        }
    }
}
