//! C05 correspondence lines for the Lean safety models (`Model/Safety*.lean`): the real
//! `LimitedQueue`, `ContainedColumns`, `find_available_column` and `BananaShower::new` (through the
//! `--cfg rosu_pp_verif` hooks) are driven with the same inputs as the models.

use rosu_pp::{
    catch::verif::n_bananas,
    mania::verif::{find_available_column, ContainedColumns},
    verif::LimitedQueue,
};

use crate::{
    common::{guarded, Run},
    rng::Rng,
};

/// Runs `f` on its own thread; `None` if it has not finished after `secs` seconds (the thread is
/// then left spinning until the process exits). After three timeouts nothing is started any more.
fn with_timeout<T: Send + 'static>(secs: u64, f: impl FnOnce() -> T + Send + 'static) -> Option<Result<T, String>> {
    use std::sync::atomic::{AtomicUsize, Ordering};
    static TIMEOUTS: AtomicUsize = AtomicUsize::new(0);
    if TIMEOUTS.load(Ordering::Relaxed) >= 3 {
        return Some(Err("SKIPPED".to_owned()));
    }
    let (tx, rx) = std::sync::mpsc::channel();
    std::thread::spawn(move || {
        let _ = tx.send(guarded(f));
    });
    match rx.recv_timeout(std::time::Duration::from_secs(secs)) {
        Ok(r) => Some(r),
        Err(_) => {
            TIMEOUTS.fetch_add(1, Ordering::Relaxed);
            None
        }
    }
}

fn show_list(l: &[u64]) -> String {
    if l.is_empty() {
        "e".to_owned()
    } else {
        l.iter().map(u64::to_string).collect::<Vec<_>>().join(":")
    }
}

fn lq_run<const N: usize>(ops: &[String]) -> String {
    let r = guarded(|| {
        let mut q = LimitedQueue::<u64, N>::new();
        let mut out: Vec<String> = Vec::new();
        for op in ops {
            let (k, arg) = op.split_at(1);
            let r = std::panic::catch_unwind(std::panic::AssertUnwindSafe(|| match k {
                "p" => {
                    q.push(arg.parse().unwrap_or(0));
                    "-".to_owned()
                }
                "l" => q.len().to_string(),
                "f" => u8::from(q.is_full()).to_string(),
                "i" => q[arg.parse::<usize>().unwrap_or(0)].to_string(),
                "s" => {
                    let (a, b) = q.as_slices();
                    format!("{}|{}", show_list(a), show_list(b))
                }
                _ => "?".to_owned(),
            }));
            match r {
                Ok(s) => out.push(s),
                Err(_) => {
                    out.push("PANIC".to_owned());
                    break;
                }
            }
        }
        out.join(";")
    });
    r.unwrap_or_else(|_| "PANIC".to_owned())
}

fn lq_case(run: &mut Run, id: &str, n: usize, ops: Vec<String>) {
    let out = match n {
        1 => lq_run::<1>(&ops),
        2 => lq_run::<2>(&ops),
        3 => lq_run::<3>(&ops),
        4 => lq_run::<4>(&ops),
        5 => lq_run::<5>(&ops),
        7 => lq_run::<7>(&ops),
        8 => lq_run::<8>(&ops),
        _ => lq_run::<16>(&ops),
    };
    if out.contains("PANIC") {
        run.fail("oracle:limited-queue-panic", "", id, format!("N={n} ops={} -> {out}", ops.join(",")), format!("LimitedQueue<u64,{n}> ops {}", ops.join(",")));
    }
    run.count("model:LQ lines");
    run.count(&format!("model:LQ N={n}"));
    run.line(id, format!("LQ {n} {}", ops.join(",")), out);
    run.eval(Some(id));
}

fn cc_case(run: &mut Run, id: &str, ops: Vec<String>) {
    let out = guarded(|| {
        let mut s = ContainedColumns::default();
        let mut out: Vec<String> = Vec::new();
        for op in &ops {
            let (k, arg) = op.split_at(1);
            match k {
                "i" => {
                    s.insert(arg.parse().unwrap_or(0));
                    out.push("-".into());
                }
                "c" => out.push(u8::from(s.contains(arg.parse().unwrap_or(0))).to_string()),
                "l" => out.push(s.len().to_string()),
                "a" => {
                    // build `other` from its bits through the public `insert`
                    let bits: u32 = arg.parse().unwrap_or(0);
                    let mut o = ContainedColumns::default();
                    for c in 0..16u8 {
                        if bits & (1 << c) != 0 {
                            o.insert(c);
                        }
                    }
                    s.append(&mut o);
                    if o.len() != 0 {
                        out.push("other-not-emptied".into());
                    } else {
                        out.push("-".into());
                    }
                }
                _ => out.push("?".into()),
            }
        }
        out.join(";")
    })
    .unwrap_or_else(|_| "PANIC".to_owned());
    if out.contains("PANIC") {
        run.fail("oracle:contained-columns-panic", "", id, format!("ops={} -> {out}", ops.join(",")), format!("ContainedColumns ops {}", ops.join(",")));
    }
    run.count("model:CC lines");
    run.line(id, format!("CC {}", ops.join(",")), out);
    run.eval(Some(id));
}

#[allow(clippy::too_many_arguments)]
fn fac_case(run: &mut Run, id: &str, total: i32, initial: u8, upper: i32, mode: &str, seed: i32, patterns: &[Vec<u8>], expect_panic: bool) {
    let rs = i32::from(total == 8);
    let gathered = match mode {
        "g" => Some(true),
        "n" => Some(false),
        _ => None,
    };
    let pats = patterns.to_vec();
    let up = if upper == total { None } else { Some(upper) };
    let out = match with_timeout(10, move || find_available_column(total, initial, up, gathered, seed, &pats)) {
        Some(Ok(c)) => format!("found:{c}"),
        Some(Err(e)) if e == "SKIPPED" => "SKIPPED-after-3-hangs".to_owned(),
        Some(Err(_)) => "PANIC".to_owned(),
        None => "HANG".to_owned(),
    };
    if out == "HANG" {
        run.fail(
            "oracle:hang",
            "",
            id,
            format!("find_available_column did not return within 10 s: total={total} rs={rs} initial={initial} upper={upper} mode={mode} seed={seed} patterns={patterns:?}"),
            format!("mania::verif::find_available_column({total}, {initial}, {up:?}, {gathered:?}, {seed}, {patterns:?})"),
        );
    } else if !out.starts_with("SKIPPED") && (out == "PANIC") != expect_panic {
        run.fail(
            "oracle:find-available-column",
            "",
            id,
            format!("total={total} rs={rs} initial={initial} upper={upper} mode={mode} seed={seed} patterns={patterns:?}: {out}, expected panic: {expect_panic}"),
            format!("mania::verif::find_available_column({total}, {initial}, {up:?}, {gathered:?}, {seed}, {patterns:?})"),
        );
    }
    let bits: Vec<String> = patterns.iter().map(|p| p.iter().fold(0u32, |a, c| a | (1 << c)).to_string()).collect();
    run.count(&format!("model:FAC {mode}"));
    run.line(
        id,
        format!("FAC {total} {rs} {initial} {upper} {mode} {seed} {}", if bits.is_empty() { "-".to_owned() } else { bits.join("|") }),
        out,
    );
    run.eval(Some(id));
}

fn ban_case(run: &mut Run, id: &str, start: i64, end: i64) {
    let out = match with_timeout(10, move || n_bananas(start as f64, end as f64)) {
        Some(Ok(n)) => n.to_string(),
        Some(Err(e)) if e == "SKIPPED" => "SKIPPED-after-3-hangs".to_owned(),
        Some(Err(_)) => "PANIC".to_owned(),
        None => "HANG".to_owned(),
    };
    if out == "HANG" {
        run.fail(
            "oracle:hang",
            "",
            id,
            format!("BananaShower::new({start}, {end}) did not return within 10 s"),
            format!("catch map with the spinner `256,192,{start},12,0,{end}` (catch::verif::n_bananas({start}.0, {end}.0))"),
        );
    }
    run.count("model:BAN lines");
    if start >= 16_777_216 || end >= 16_777_216 {
        run.count("model:BAN t>=2^24");
    }
    // the Float32 replica of the FIXED loop; fuel exhaustion in the replica would print HANG
    run.line(id, format!("BAN 1 {start} {end} 200000000"), out.clone());
    // exact arithmetic = f32 while every intermediate value is representable
    if (0..4096).contains(&start) && (0..4096).contains(&end) {
        run.count("model:BANX lines");
        run.line(id, format!("BANX {start} {end}"), out);
    }
    run.eval(Some(id));
}

pub fn model_lines(run: &mut Run, tier: &str, seed: u64, only: Option<&str>) {
    if only.is_some_and(|o| !o.starts_with("m:")) {
        return;
    }
    let want = |id: &str| only.is_none_or(|o| o == id);
    let thorough = tier == "thorough";
    let mut rng = Rng::new(seed ^ 0xC05);

    // LimitedQueue: fixed corner sequences + random op sequences for several capacities
    let n_lq = if thorough { 4000 } else { 400 };
    for i in 0..n_lq {
        let id = format!("m:lq:{i}");
        let n = *rng.pick(&[1usize, 2, 3, 4, 5, 7, 7, 7, 8, 16]);
        let len = rng.range(0, if thorough { 60 } else { 30 }) as usize;
        let mut ops = Vec::new();
        let mut v = 1u64;
        for _ in 0..len {
            ops.push(match rng.below(8) {
                0..=3 => {
                    v += rng.range(1, 9) as u64;
                    format!("p{v}")
                }
                4 => "l".to_owned(),
                5 => "f".to_owned(),
                6 => format!("i{}", rng.range(0, 2 * n as i64 + 1)),
                _ => "s".to_owned(),
            });
        }
        if ops.is_empty() {
            ops.push("s".to_owned());
        }
        if want(&id) {
            lq_case(run, &id, n, ops);
        }
    }
    // ContainedColumns: columns < 16 (a shift by >= 16 panics with overflow checks and is masked
    // without; the converter never produces such a column — Props/C05.generated_columns_shift_safe)
    let n_cc = if thorough { 2000 } else { 300 };
    for i in 0..n_cc {
        let id = format!("m:cc:{i}");
        let len = rng.range(1, 24) as usize;
        let ops: Vec<String> = (0..len)
            .map(|_| match rng.below(6) {
                0 | 1 => format!("i{}", rng.range(0, 15)),
                2 | 3 => format!("c{}", rng.range(0, 15)),
                4 => "l".to_owned(),
                _ => format!("a{}", rng.below(1 << 16)),
            })
            .collect();
        if want(&id) {
            cc_case(run, &id, ops);
        }
    }
    // find_available_column: exhaustive over small totals for the gathered variant, random for
    // the PRNG variants; plus "all columns taken" cases where the assert! must fire
    let mut k = 0usize;
    for total in 2..=10i32 {
        let rs = i32::from(total == 8);
        let n_masks = if thorough { 120 } else { 24 };
        for _ in 0..n_masks {
            let m1 = rng.below(1 << total) as u32;
            let m2 = if rng.chance(1, 2) { rng.below(1 << total) as u32 } else { 0 };
            let cols = |m: u32| (0..total as u8).filter(|c| m & (1 << c) != 0).collect::<Vec<u8>>();
            let pats: Vec<Vec<u8>> = if m2 == 0 { vec![cols(m1)] } else { vec![cols(m1), cols(m2)] };
            let occupied = m1 | m2;
            for initial in 0..total as u8 {
                let initial_free = occupied & (1 << initial) == 0;
                let any_free = (rs..total).any(|c| occupied & (1 << c) == 0);
                let expect_panic = !initial_free && !any_free;
                for mode in ["g", "n", "r"] {
                    if mode != "g" && !rng.chance(1, 3) {
                        continue;
                    }
                    let id = format!("m:fac:{k}");
                    k += 1;
                    if want(&id) {
                        fac_case(run, &id, total, initial, total, mode, rng.range(-1000, 100_000) as i32, &pats, expect_panic);
                    }
                }
            }
        }
        // mirrored variant: `upper = column_limit`
        let limit = if total % 2 == 0 { total / 2 } else { (total - 1) / 2 };
        if limit > rs {
            for _ in 0..(if thorough { 40 } else { 8 }) {
                let m1 = rng.below(1 << total) as u32;
                let cols: Vec<u8> = (0..total as u8).filter(|c| m1 & (1 << c) != 0).collect();
                let initial = rng.range(i64::from(rs), i64::from(limit - 1)) as u8;
                let initial_free = m1 & (1 << initial) == 0;
                let any_free = (rs..limit).any(|c| m1 & (1 << c) == 0);
                let id = format!("m:fac:{k}");
                k += 1;
                if want(&id) {
                    fac_case(run, &id, total, initial, limit, "r", rng.range(0, 100_000) as i32, &[cols], !initial_free && !any_free);
                }
            }
        }
    }
    // BananaShower::new: grid incl. t >= 2^24 with 1 ms duration (the old hang inputs)
    let mut grid: Vec<(i64, i64)> = vec![
        (20_000_000, 20_000_001), // permanent regression input `256,192,20000000,12,0,20000001`
        (16_777_216, 16_777_217),
        (16_777_215, 16_777_216),
        (16_777_217, 16_777_218),
        (33_554_432, 33_554_433),
        (33_554_432, 33_554_435),
        (2_147_483_000, 2_147_483_647),
        (2_147_483_646, 2_147_483_647),
        (1_073_741_824, 1_073_741_825),
        (1_000_000_000, 1_000_000_050),
        (0, 0),
        (0, 1),
        (5, 3),
        (0, 100),
        (0, 101),
        (0, 200),
        (0, 201),
        (-500, 700),
        (-2_000_000_000, -1_999_999_999),
        (-16_777_217, -16_777_216),
        (-20_000_001, -20_000_000),
        (0, 10_000_000),
    ];
    for e in 14..31u32 {
        for d in [1i64, 2, 3, 7, 50, 99, 100, 101, 150, 1000] {
            grid.push(((1i64 << e) - 1, (1i64 << e) - 1 + d));
            grid.push((1i64 << e, (1i64 << e) + d));
            grid.push(((1i64 << e) + 1, (1i64 << e) + 1 + d));
        }
    }
    let n_rand = if thorough { 20_000 } else { 1500 };
    for _ in 0..n_rand {
        let start = match rng.below(4) {
            0 => rng.range(0, 4000),
            1 => rng.range(0, 11_000_000),
            2 => rng.range(16_000_000, 2_147_000_000),
            _ => rng.range(-3000, 40_000_000),
        };
        let d = match rng.below(5) {
            0 => rng.range(0, 3),
            1 => rng.range(0, 300),
            2 => rng.range(0, 4000),
            3 => rng.range(0, 60_000),
            _ => rng.range(-50, 400_000),
        };
        grid.push((start, (start + d).min(2_147_483_647)));
    }
    for (i, (s, e)) in grid.into_iter().enumerate() {
        let id = format!("m:ban:{i}");
        if want(&id) {
            ban_case(run, &id, s, e);
        }
    }
}
