//! C14 — reported object counts and max combo account for exactly the objects of the map.

use crate::{
    common::Run,
    grad::{cases, check_counts, note_prepared, prepare},
};

pub fn run(tier: &str, seed: u64, only: Option<&str>) -> Run {
    let mut run = Run::default();
    let (n_random, prefixes): (usize, &[usize]) = if tier == "thorough" {
        (40000, &[1, 2, 5, 11, 33, 90, 250])
    } else {
        (4000, &[3, 8, 25])
    };
    for c in cases(seed ^ 0x14, n_random, prefixes) {
        if only.is_some_and(|o| o != c.id) {
            continue;
        }
        match prepare(&c.text, c.mode, &c.settings) {
            Ok(p) => {
                note_prepared(&mut run, &p);
                run.repro.insert(c.id.clone(), p.repro());
                let key = format!("{}|{}", p.mode, p.objs);
                run.eval((p.units >= 1).then_some(key.as_str()));
                if p.units >= 2 {
                    run.sample(format!("{}: mode={} objs={} n=0..{}", c.id, p.mode, p.objs, p.units + 1));
                }
                check_counts(&mut run, &c.id, &p);
            }
            Err(e) if e.starts_with("convert:") => run.count("skipped:not-convertible"),
            Err(e) => run.fail("oracle:prepare", "", &c.id, e, c.text.clone()),
        }
    }
    // nested-object generation from raw slider parameters (SLEV / OSLD / JUICE / ONER lines)
    crate::nested::run(&mut run, tier, seed, only);
    // convert_objects (osu!, catch) from decoded objects (OCONV / LTT / CCONV lines)
    crate::conv::run_osu(&mut run, tier, seed, only);
    crate::conv::run_catch(&mut run, tier, seed, only);
    run
}
