//! C08 — results do not depend on how equivalent settings are expressed.
//!
//! * correspondence: `mods_snapshot` of every accessor for all 2^12 combinations of
//!   {NF EZ TD HD HR DT RX HT NC-bit FL SO AP} × key mods in every spelling vs. the Lean model
//!   (`MODS`), iteration order (`ORD`), lazer rate / DifficultyAdjust payloads (`LAZER`),
//!   `Difficulty::get_clock_rate` (`GCR`);
//! * second wave (`c08_settings.rs`): lazer mods with explicit settings (`LZS`), intermode sets by
//!   acronym owned/borrowed (`IMS`), end-to-end oracles for every stated setting equivalence;
//! * oracle: snapshots agree across spellings; difficulty, strains and performance are
//!   bit-identical (Debug strings) across the five spellings; `mods(rate mod r)` ≡ `clock_rate(r)`;
//!   DifficultyAdjust value ≡ `Difficulty::{ar,cs,hp,od}(value, false)`.

use std::fmt::Write as _;

use rosu_pp::{
    any::{PerformanceAttributes, Strains},
    catch::Catch,
    mania::Mania,
    model::{
        mode::GameMode,
        mods::rosu_mods::{GameModIntermode, GameMods as GameModsLazer, GameModsIntermode, GameModsLegacy},
    },
    osu::Osu,
    taiko::Taiko,
    verif::{difficulty_clock_rate, mods_snapshot, ModsSnapshot},
    Beatmap, Difficulty, GameMods, Performance,
};

use crate::{
    common::{
        build_lazer, decode, guarded, mode_name, mode_of, mods_mode, resource_maps, truncate_objects, LazerTag, Run,
    },
    grad::one_shot,
    mapgen::{random_map, GenCfg},
    rng::Rng,
};

#[path = "c08_settings.rs"]
pub mod settings;

pub const BASE_BITS: [u32; 12] = [0, 1, 2, 3, 4, 6, 7, 8, 9, 10, 12, 13];
/// 1K 2K 3K 4K 5K 6K 7K 8K 9K
pub const KEY_BITS: [u32; 9] = [26, 28, 27, 15, 16, 17, 18, 19, 24];
pub const KEY_MASK: u32 = (0x1f << 15) | (1 << 24) | (0x7 << 26);
pub const SPELLINGS: [&str; 5] = ["u32", "legacy", "im", "imref", "lazer"];

pub fn spelled(sp: &str, bits: u32, mode: u8) -> GameMods {
    match sp {
        "u32" => GameMods::from(bits),
        "legacy" => GameMods::from(GameModsLegacy::from_bits(bits)),
        "im" => GameMods::from(GameModsIntermode::from_bits(bits)),
        "imref" => GameMods::from(&GameModsIntermode::from_bits(bits)),
        _ => GameMods::from(GameModsLazer::from_intermode(
            &GameModsIntermode::from_bits(bits),
            mods_mode(mode),
        )),
    }
}

fn opt_bits(v: Option<f64>) -> String {
    v.map_or_else(|| "-".to_owned(), |x| format!("{:x}", x.to_bits()))
}

pub fn snap_str(s: &ModsSnapshot) -> String {
    const NAMES: [&str; 14] = ["nf", "ez", "td", "hd", "hr", "rx", "fl", "so", "ap", "bl", "cl", "invert", "ho", "tc"];
    let mut o = String::new();
    let _ = write!(
        o,
        "cr={:x} mult={:x} hro={} nshl={} nshs={} refl={} keys={} scroll={} seed={} ar={} cs={} hp={} od={} flags=",
        s.clock_rate.to_bits(),
        s.od_ar_hp_multiplier.to_bits(),
        u8::from(s.hardrock_offsets),
        u8::from(s.no_slider_head_acc_lazer),
        u8::from(s.no_slider_head_acc_stable),
        s.reflection,
        opt_bits(s.mania_keys.map(f64::from)),
        opt_bits(s.scroll_speed),
        s.random_seed.map_or_else(|| "-".to_owned(), |x| x.to_string()),
        opt_bits(s.ar),
        opt_bits(s.cs),
        opt_bits(s.hp),
        opt_bits(s.od),
    );
    for (i, n) in NAMES.iter().enumerate() {
        if i > 0 {
            o.push(',');
        }
        let _ = write!(o, "{n}:{}", u8::from(s.flags[i]));
    }
    o
}

/// speed-up and slow-down mod in one set (the known DT+HT disagreement)
pub fn both_directions(bits: u32) -> bool {
    bits & 64 != 0 && bits & 256 != 0
}

/// `GameMod::new` turns a mod the mode lacks into `Unknown…{acronym}`; `contains_intermode` still
/// finds it when the kind is `System` (only "TD" among the legacy mods)
fn found_by_contains(m: &rosu_pp::model::mods::rosu_mods::GameMod) -> bool {
    !matches!(m.intermode(), GameModIntermode::Unknown(_)) || m.acronym().as_str() == "TD"
}

/// the bits of `bits` whose mod exists in `mode` according to rosu-mods itself
fn available_bits(bits: u32, mode: u8) -> u32 {
    let im = GameModsIntermode::from_bits(bits);
    let lazer = GameModsLazer::from_intermode(&im, mods_mode(mode));
    let mut kept = GameModsIntermode::new();
    for m in lazer.iter() {
        if found_by_contains(m) {
            kept.insert(GameModIntermode::from_acronym(m.acronym()));
        }
    }
    kept.bits()
}

fn snapshot_cases(run: &mut Run, bits: u32, only: Option<&str>) {
    let id = format!("snap-{bits}");
    if only.is_some_and(|o| o != id) {
        return;
    }
    run.repro.insert(id.clone(), format!("mods bits {bits} in all spellings; rosu_pp::verif::mods_snapshot"));
    let mut snaps: Vec<(String, ModsSnapshot)> = Vec::new();
    for sp in SPELLINGS {
        let modes: &[u8] = if sp == "lazer" { &[0, 1, 2, 3] } else { &[0] };
        for &mode in modes {
            let r = guarded(|| mods_snapshot(&spelled(sp, bits, mode)));
            match r {
                Ok(s) => {
                    if bits == 88 && (sp == "u32" || (sp == "lazer" && mode == 2)) {
                        run.sample(format!("{id}: MODS {sp} {mode} {bits} -> {}", snap_str(&s)));
                    }
                    run.line(&id, format!("MODS {sp} {mode} {bits}"), snap_str(&s));
                    snaps.push((format!("{sp}{}", if sp == "lazer" { mode_name(mode) } else { "" }), s));
                }
                Err(p) => run.fail("oracle:snapshot-panic", "", &id, format!("{sp} mode {mode}: {p}"), format!("bits {bits}")),
            }
        }
    }
    run.count(if both_directions(bits) { "snapshot:dt+ht" } else { "snapshot:one-direction" });
    run.count(if bits & KEY_MASK != 0 { "snapshot:with-key-mod" } else { "snapshot:no-key-mod" });
    run.eval(Some(&id));
    // oracle: the four non-lazer spellings agree on every accessor
    let class = if both_directions(bits) { "mods-dt-and-ht-together" } else { "" };
    if let Some((n0, s0)) = snaps.first().cloned() {
        for (n, s) in snaps.iter().filter(|(n, _)| !n.starts_with("lazer")) {
            if *s != s0 {
                let only_rate = {
                    let mut t = s.clone();
                    t.clock_rate = s0.clock_rate;
                    t == s0
                };
                run.fail(
                    "oracle:snapshot-spelling",
                    if only_rate { class } else { "" },
                    &id,
                    format!("bits {bits}: {n0} `{}` vs {n} `{}`", snap_str(&s0), snap_str(s)),
                    format!("mods_snapshot(GameMods::from(..{bits}..)) as {n0} and as {n}"),
                );
            }
        }
        // lazer with default settings: agrees on the mods that exist in that mode
        for (n, s) in snaps.iter().filter(|(n, _)| n.starts_with("lazer")) {
            let mode = ["lazerosu", "lazertaiko", "lazercatch", "lazermania"].iter().position(|x| x == n).unwrap_or(0) as u8;
            let avail = available_bits(bits, mode);
            let mut want = mods_snapshot(&GameMods::from(avail));
            let mut got = s.clone();
            // `reflection()` of lazer mods only looks at the osu!/catch variants; catch only
            // distinguishes Horizontal, taiko/mania never call it
            if mode != 0 {
                want.reflection = u8::from(want.reflection == 2) * 2;
                got.reflection = u8::from(got.reflection == 2) * 2;
            }
            // the Mirror bit 1<<30 is outside the property's domain (GameModsLegacy::from_bits drops
            // it, the intermode/lazer conversions keep it): reported as an observation only
            if bits & (1 << 30) != 0 {
                if got.reflection != want.reflection {
                    run.count("observation:mirror-bit-30-changes-lazer-reflection(out-of-domain)");
                }
                got.reflection = want.reflection;
            }
            let cls = if both_directions(avail) { "mods-dt-and-ht-together" } else { "" };
            if got != want {
                let only_rate = {
                    let mut t = got.clone();
                    t.clock_rate = want.clock_rate;
                    t == want
                };
                run.fail(
                    "oracle:snapshot-lazer",
                    if only_rate { cls } else { "" },
                    &id,
                    format!("bits {bits} ({n}, available bits {avail}): lazer `{}` vs legacy `{}`", snap_str(&got), snap_str(&want)),
                    format!("GameMods::from_intermode(from_bits({bits}), {n}) vs GameMods::from({avail})"),
                );
            }
        }
    }
}

fn order_cases(run: &mut Run, bits: u32, only: Option<&str>) {
    let id = format!("ord-{bits}");
    if only.is_some_and(|o| o != id) {
        return;
    }
    let im = GameModsIntermode::from_bits(bits);
    let acr: Vec<String> = im.iter().map(|m| m.acronym().as_str().to_owned()).collect();
    run.line(&id, format!("ORD - {bits}"), format!("ord={}", acr.join(",")));
    for mode in 0..4u8 {
        let lz = GameModsLazer::from_intermode(&im, mods_mode(mode));
        let acr: Vec<String> = lz
            .iter()
            .filter(|m| found_by_contains(m))
            .map(|m| m.acronym().as_str().to_owned())
            .collect();
        run.line(&id, format!("ORD {mode} {bits}"), format!("ord={}", acr.join(",")));
    }
    run.count("order-lines");
}

fn f64_hex(x: f64) -> String {
    format!("{:x}", x.to_bits())
}

fn rate_tag(kind: &str, r: f64) -> LazerTag {
    match kind {
        "DT" => LazerTag::DtRate(r),
        "HT" => LazerTag::HtRate(r),
        "NC" => LazerTag::NcRate(r),
        _ => LazerTag::DcRate(r),
    }
}

fn legacy_tags(bits: u32) -> Vec<LazerTag> {
    let mut v = Vec::new();
    for (b, a) in [(1u32, "NF"), (2, "EZ"), (8, "HD"), (16, "HR"), (1024, "FL")] {
        if bits & b != 0 {
            v.push(LazerTag::Acronym(a));
        }
    }
    v
}

fn rate_default(kind: &str) -> f64 {
    if kind == "DT" || kind == "NC" {
        1.5
    } else {
        0.75
    }
}

/// (class, explanation) for a lazer rate mod whose clock rate is not `r`
fn rate_class(kind: &str, r: f64, got: f64) -> &'static str {
    let d = rate_default(kind);
    if (kind == "NC" || kind == "DC") && d * (r / d) != r && got.to_bits() == (d * (r / d)).to_bits() {
        "mods-nc-dc-rate-roundtrip"
    } else {
        ""
    }
}

fn rate_grid(run: &mut Run, only: Option<&str>, modes: &[u8]) {
    for &mode in modes {
        for kind in ["DT", "HT", "NC", "DC"] {
            // the 0.01 grid, then rates OFF that grid (thousandths, a few odd doubles): seed
            // C08-lazer-speed-change-snapped-to-grid rounded the lazer rate to 0.01 and was invisible on the grid
            let off_grid: [f64; 14] = [
                0.501, 0.625, 0.904, 0.999, 1.001, 1.255, 1.337, 1.499, 1.501, 1.999,
                1.0 + 1.0 / 1073741824.0, 0.75 + 1e-9, 1.5 - 1e-12, std::f64::consts::FRAC_PI_2,
            ];
            for i in 50..=214u32 {
                let r = if i <= 200 { f64::from(i) / 100.0 } else { off_grid[(i - 201) as usize] };
                let id = format!("rate-{}-{kind}-{i}", mode_name(mode));
                if only.is_some_and(|o| o != id) {
                    continue;
                }
                let bits = [0u32, 8, 16, 2][(i % 4) as usize];
                let mut tags = legacy_tags(bits);
                tags.push(rate_tag(kind, r));
                let lazer = build_lazer(mode, &tags);
                let mods = GameMods::from(lazer);
                run.repro.insert(id.clone(), format!("mode {} lazer mods {tags:?}", mode_name(mode)));
                let snap = match guarded(|| mods_snapshot(&mods)) {
                    Ok(s) => s,
                    Err(p) => {
                        run.fail("oracle:rate-panic", "", &id, p, format!("{tags:?}"));
                        continue;
                    }
                };
                if kind == "DC" && i == 87 && mode == 0 {
                    run.sample(format!("{id}: LAZER {mode} {bits} {kind} {} - - - - -> {}", f64_hex(r), snap_str(&snap)));
                }
                run.line(&id, format!("LAZER {mode} {bits} {kind} {} - - - -", f64_hex(r)), snap_str(&snap));
                let d_mods = Difficulty::new().mods(mods.clone());
                let d_rate = Difficulty::new().mods(GameMods::from(build_lazer(mode, &legacy_tags(bits)))).clock_rate(r);
                let (a, b) = (difficulty_clock_rate(&d_mods), difficulty_clock_rate(&d_rate));
                run.line(&id, format!("GCR {mode} {bits} {kind} {} -", f64_hex(r)), format!("gcr={}", f64_hex(a)));
                run.line(&id, format!("GCR {mode} {bits} - - {}", f64_hex(r)), format!("gcr={}", f64_hex(b)));
                run.count(&format!("rate:{kind}"));
                run.eval(Some(&id));
                if a.to_bits() != b.to_bits() || b.to_bits() != r.to_bits() {
                    run.fail(
                        "oracle:rate-vs-clock-rate",
                        rate_class(kind, r, a),
                        &id,
                        format!("{kind} speed_change {r}: get_clock_rate via mods = {a:?}, via clock_rate({r}) = {b:?}"),
                        format!("Difficulty::new().mods({tags:?}) vs Difficulty::new().clock_rate({r}), mode {}", mode_name(mode)),
                    );
                }
            }
        }
    }
}

fn da_tag(mode: u8, attr: &str, v: f64) -> LazerTag {
    let has_ar_cs = mode == 0 || mode == 2;
    LazerTag::Da {
        ar: (attr == "ar" && has_ar_cs).then_some(v),
        cs: (attr == "cs" && has_ar_cs).then_some(v),
        hp: (attr == "hp").then_some(v),
        od: (attr == "od").then_some(v),
    }
}

fn with_override(d: Difficulty, attr: &str, v: f32) -> Difficulty {
    match attr {
        "ar" => d.ar(v, false),
        "cs" => d.cs(v, false),
        "hp" => d.hp(v, false),
        _ => d.od(v, false),
    }
}

struct E2eMap {
    id: String,
    mode: u8,
    map: Beatmap,
    text: String,
}

fn e2e_maps(seed: u64, thorough: bool) -> Vec<E2eMap> {
    let mut rng = Rng::new(seed ^ 0xc08);
    let mut v = Vec::new();
    for target in 0..4u8 {
        let n = if thorough { 6 } else { 2 };
        for i in 0..n {
            let native = target == 0 || i % 2 == 0;
            let mut cfg = GenCfg::small(if native { target } else { 0 });
            cfg.min_objects = 3;
            cfg.max_objects = if i == 0 { 6 } else { 30 };
            let spec = random_map(&mut rng, &cfg);
            let text = spec.render();
            if let Ok(map) = decode(&text) {
                v.push(E2eMap {
                    id: format!("gen{}-{}{}", i, mode_name(target), if native { "" } else { "-conv" }),
                    mode: target,
                    map,
                    text,
                });
            }
        }
    }
    for (mode, text) in resource_maps() {
        let k = if thorough { 400 } else { 60 };
        let text = truncate_objects(&text, k);
        for target in 0..4u8 {
            if target != mode && (mode != 0 || !thorough) {
                continue;
            }
            if let Ok(map) = decode(&text) {
                v.push(E2eMap {
                    id: format!("res-{}-to-{}", mode_name(mode), mode_name(target)),
                    mode: target,
                    map,
                    text: format!("/repo/resources map of mode {mode}, first {k} objects"),
                });
            }
        }
    }
    v
}

#[derive(Clone, Copy, Debug)]
struct ScoreSpec {
    acc: Option<f64>,
    misses: u32,
    combo_pct: Option<u32>,
    lazer: Option<bool>,
}

const SCORES: [ScoreSpec; 3] = [
    ScoreSpec { acc: None, misses: 0, combo_pct: None, lazer: None },
    ScoreSpec { acc: Some(96.37), misses: 2, combo_pct: Some(70), lazer: None },
    ScoreSpec { acc: Some(88.0), misses: 0, combo_pct: None, lazer: Some(false) },
];

fn strains_of(d: &Difficulty, map: &Beatmap, mode: GameMode) -> Result<String, String> {
    let r = guarded(|| match mode {
        GameMode::Osu => d.strains_for_mode::<Osu>(map).map(Strains::Osu),
        GameMode::Taiko => d.strains_for_mode::<Taiko>(map).map(Strains::Taiko),
        GameMode::Catch => d.strains_for_mode::<Catch>(map).map(Strains::Catch),
        GameMode::Mania => d.strains_for_mode::<Mania>(map).map(Strains::Mania),
    });
    match r {
        Ok(Ok(s)) => Ok(format!("{s:?}")),
        Ok(Err(e)) => Err(format!("convert:{e:?}")),
        Err(p) => Err(format!("panic:{p}")),
    }
}

fn perf_of(d: &Difficulty, map: &Beatmap, mode: GameMode, sc: &ScoreSpec, via_mods: Option<&GameMods>) -> Result<String, String> {
    let r = guarded(|| {
        let mut p = Performance::new(map);
        // `Performance::mods` and `Performance::difficulty` are two ways in
        p = match via_mods {
            Some(m) => p.mods(m.clone()),
            None => p.difficulty(d.clone()),
        };
        p = p.mode_or_ignore(mode);
        if let Some(a) = sc.acc {
            p = p.accuracy(a);
        }
        if sc.misses > 0 {
            p = p.misses(sc.misses);
        }
        if let Some(l) = sc.lazer {
            p = p.lazer(l);
        }
        let attrs: PerformanceAttributes = if let Some(pct) = sc.combo_pct {
            let max = p.clone().calculate().max_combo();
            p.combo(max * pct / 100).calculate()
        } else {
            p.calculate()
        };
        format!("{attrs:?}")
    });
    r.map_err(|p| format!("panic:{p}"))
}

/// difficulty + strains + performances + builder output, as one comparable string
fn results(d: &Difficulty, m: &E2eMap, via_mods: Option<&GameMods>) -> Result<String, String> {
    results_n(d, m, via_mods, SCORES.len())
}

/// `results` with the first `n_specs` score specifications only (the third one forces `lazer(false)`)
fn results_n(d: &Difficulty, m: &E2eMap, via_mods: Option<&GameMods>, n_specs: usize) -> Result<String, String> {
    let mode = mode_of(m.mode);
    let mut out = String::new();
    let a = one_shot(d, &m.map, mode)?;
    let _ = write!(out, "D {a:?}\nS {:x}\n", crate::common::hash64(&strains_of(d, &m.map, mode)?));
    for sc in SCORES.iter().take(n_specs) {
        let _ = writeln!(out, "P {}", perf_of(d, &m.map, mode, sc, via_mods)?);
    }
    let b = guarded(|| m.map.attributes().difficulty(d).build()).map_err(|p| format!("panic:{p}"))?;
    let _ = writeln!(out, "B {b:?}");
    if let Some(mods) = via_mods {
        let b2 = guarded(|| m.map.attributes().mods(mods.clone()).build()).map_err(|p| format!("panic:{p}"))?;
        let _ = writeln!(out, "BM {b2:?}");
    }
    Ok(out)
}

fn first_diff(a: &str, b: &str) -> String {
    for (la, lb) in a.lines().zip(b.lines()) {
        if la != lb {
            let n = la.bytes().zip(lb.bytes()).take_while(|(x, y)| x == y).count();
            let lo = n.saturating_sub(60);
            return format!("`{}` vs `{}`", &la[lo..(n + 60).min(la.len())], &lb[lo..(n + 60).min(lb.len())]);
        }
    }
    "different number of lines".to_owned()
}

fn e2e_spellings(run: &mut Run, maps: &[E2eMap], sets: &[u32], only: Option<&str>) {
    for m in maps {
        for &bits in sets {
            let id = format!("e2e-{}-{bits}", m.id);
            if only.is_some_and(|o| o != id) {
                continue;
            }
            // key mods only make sense for mania
            if m.mode != 3 && bits & KEY_MASK != 0 {
                continue;
            }
            run.repro.insert(id.clone(), format!("map {} ({}), mods bits {bits}\n{}", m.id, mode_name(m.mode), m.text));
            let mut outs: Vec<(&str, String)> = Vec::new();
            let mut skip = false;
            for sp in SPELLINGS {
                let mods = spelled(sp, bits, m.mode);
                let d = Difficulty::new().mods(mods.clone());
                match results(&d, m, Some(&mods)) {
                    Ok(s) => outs.push((sp, s)),
                    Err(e) if e.starts_with("convert:") => {
                        run.count("e2e:not-convertible");
                        skip = true;
                        break;
                    }
                    Err(e) => run.fail("oracle:e2e-panic", "", &id, format!("{sp}: {e}"), m.text.clone()),
                }
            }
            if skip {
                continue;
            }
            if outs.iter().any(|(_, s)| *s != outs[0].1) {
                // known finding: DT/NC together with HT — the legacy-backed spellings behave like the set
                // without HT (rate 1.5), the ordered sets like the set without DT/NC (rate 0.75); anything
                // else is reported as an unlisted violation
                let mut class = "";
                if both_directions(bits) && outs.len() == 5 {
                    let as_u32 = |b: u32| {
                        let mods = GameMods::from(b);
                        results(&Difficulty::new().mods(mods.clone()), m, Some(&mods)).unwrap_or_default()
                    };
                    let fast = as_u32(bits & !256);
                    let slow = as_u32(bits & !(64 | 512));
                    let get = |n: &str| outs.iter().find(|(sp, _)| *sp == n).map(|(_, s)| s.as_str()).unwrap_or("");
                    if get("u32") == fast && get("legacy") == fast && get("imref") == fast && get("im") == slow && get("lazer") == slow {
                        class = "mods-dt-and-ht-together";
                    }
                }
                let (sp0, s0) = &outs[0];
                let (sp1, s1) = outs.iter().find(|(_, s)| s != s0).unwrap();
                run.fail(
                    "oracle:e2e-spelling",
                    class,
                    &id,
                    format!("bits {bits} on {}: {sp0} vs {sp1}: {}", m.id, first_diff(s0, s1)),
                    format!("mode {} mods {bits} as {sp0} and as {sp1}\n{}", mode_name(m.mode), m.text),
                );
            }
            run.count(&format!("e2e:mode:{}", mode_name(m.mode)));
            run.count(if both_directions(bits) { "e2e:dt+ht" } else { "e2e:one-direction" });
            run.eval(Some(&id));
        }
    }
}

fn e2e_rate(run: &mut Run, maps: &[E2eMap], rates: &[(&'static str, u32)], only: Option<&str>) {
    for m in maps {
        for &(kind, i) in rates {
            // thousandths (rates off the 0.01 grid included)
            let r = f64::from(i) / 1000.0;
            let id = format!("e2e-rate-{}-{kind}-{i}", m.id);
            if only.is_some_and(|o| o != id) {
                continue;
            }
            let bits = [0u32, 8, 16][(i % 3) as usize];
            let mut tags = legacy_tags(bits);
            let rest = GameMods::from(build_lazer(m.mode, &tags));
            tags.push(rate_tag(kind, r));
            let with_rate = GameMods::from(build_lazer(m.mode, &tags));
            let d1 = Difficulty::new().mods(with_rate.clone());
            let d2 = Difficulty::new().mods(rest).clock_rate(r);
            run.repro.insert(id.clone(), format!("map {} mods {tags:?} vs clock_rate({r})\n{}", m.id, m.text));
            match (results(&d1, m, None), results(&d2, m, None)) {
                (Ok(a), Ok(b)) => {
                    if a != b {
                        let got = difficulty_clock_rate(&d1);
                        // known finding only if the results are those of clock_rate(d*(r/d))
                        let rest2 = GameMods::from(build_lazer(m.mode, &legacy_tags(bits)));
                        let d3 = Difficulty::new().mods(rest2).clock_rate(got);
                        let explained = results(&d3, m, None).is_ok_and(|c| c == a);
                        run.fail(
                            "oracle:e2e-rate",
                            if explained { rate_class(kind, r, got) } else { "" },
                            &id,
                            format!("{kind} {r} on {}: {}", m.id, first_diff(&a, &b)),
                            format!("mods {tags:?} vs clock_rate({r})\n{}", m.text),
                        );
                    }
                }
                (Err(e), _) | (_, Err(e)) if e.starts_with("convert:") => run.count("e2e:not-convertible"),
                (Err(e), _) | (_, Err(e)) => run.fail("oracle:e2e-panic", "", &id, e, m.text.clone()),
            }
            run.count("e2e:rate");
            run.eval(Some(&id));
        }
    }
}

fn da_grid(run: &mut Run, maps: &[E2eMap], only: Option<&str>, thorough: bool) {
    for mode in 0..4u8 {
        let attrs: &[&str] = if mode == 0 || mode == 2 { &["ar", "cs", "hp", "od"] } else { &["hp", "od"] };
        let mode_maps: Vec<&E2eMap> = maps.iter().filter(|m| m.mode == mode).collect();
        for attr in ["ar", "cs", "hp", "od"] {
            for i in 0..=110u32 {
                let v = f64::from(i) / 10.0;
                let id = format!("da-{}-{attr}-{i}", mode_name(mode));
                if only.is_some_and(|o| o != id) {
                    continue;
                }
                let bits = [0u32, 16, 2, 8][(i % 4) as usize];
                let mut tags = legacy_tags(bits);
                let rest = GameMods::from(build_lazer(mode, &tags));
                tags.push(da_tag(mode, attr, v));
                let with_da = GameMods::from(build_lazer(mode, &tags));
                run.repro.insert(id.clone(), format!("mode {} lazer mods {tags:?} vs Difficulty::{attr}({v}, false)", mode_name(mode)));
                // correspondence: the model is told the value even when the mode's DifficultyAdjust lacks the field
                let snap = match guarded(|| mods_snapshot(&with_da)) {
                    Ok(s) => s,
                    Err(p) => {
                        run.fail("oracle:da-panic", "", &id, p, format!("{tags:?}"));
                        continue;
                    }
                };
                let f = |a: &str| if a == attr { f64_hex(v) } else { "-".to_owned() };
                if attrs.contains(&attr) {
                    run.line(&id, format!("LAZER {mode} {bits} - - {} {} {} {}", f("ar"), f("cs"), f("hp"), f("od")), snap_str(&snap));
                } else {
                    // the type has no such field: adding hp=5 keeps the DA mod present in both worlds
                    let mut t2 = legacy_tags(bits);
                    t2.push(LazerTag::Da { ar: None, cs: None, hp: Some(5.0), od: None });
                    let s2 = mods_snapshot(&GameMods::from(build_lazer(mode, &t2)));
                    let g = |a: &str| if a == attr { f64_hex(v) } else if a == "hp" { f64_hex(5.0) } else { "-".to_owned() };
                    run.line(&id, format!("LAZER {mode} {bits} - - {} {} {} {}", g("ar"), g("cs"), g("hp"), g("od")), snap_str(&s2));
                    run.count("da:field-absent-in-mode");
                    continue;
                }
                run.count(&format!("da:{attr}"));
                run.eval(Some(&id));
                let d1 = Difficulty::new().mods(with_da.clone());
                let d2 = with_override(Difficulty::new().mods(rest.clone()), attr, v as f32);
                // builder output on every grid value, full results on a sample
                for m in &mode_maps {
                    let b1 = guarded(|| (m.map.attributes().difficulty(&d1).build(), m.map.attributes().difficulty(&d1).hit_windows()));
                    let b2 = guarded(|| (m.map.attributes().difficulty(&d2).build(), m.map.attributes().difficulty(&d2).hit_windows()));
                    if b1 != b2 {
                        run.fail(
                            "oracle:da-vs-override-builder",
                            "",
                            &id,
                            format!("{attr}={v} on {}: {b1:?} vs {b2:?}", m.id),
                            format!("mods {tags:?} vs {attr}({v}, false)\n{}", m.text),
                        );
                    }
                    if i % (if thorough { 5 } else { 22 }) == 3 {
                        match (results(&d1, m, None), results(&d2, m, None)) {
                            (Ok(a), Ok(b)) => {
                                if a != b {
                                    run.fail(
                                        "oracle:da-vs-override",
                                        "",
                                        &id,
                                        format!("{attr}={v} on {}: {}", m.id, first_diff(&a, &b)),
                                        format!("mods {tags:?} vs {attr}({v}, false)\n{}", m.text),
                                    );
                                }
                                run.count("e2e:da");
                            }
                            (Err(e), _) | (_, Err(e)) if e.starts_with("convert:") => run.count("e2e:not-convertible"),
                            (Err(e), _) | (_, Err(e)) => run.fail("oracle:e2e-panic", "", &id, e, m.text.clone()),
                        }
                    }
                }
            }
        }
    }
}

pub fn run(tier: &str, seed: u64, only: Option<&str>) -> Run {
    let mut run = Run::default();
    let thorough = tier == "thorough";
    let mut rng = Rng::new(seed ^ 0x08);

    // 1. all 2^12 base combinations × key mods, every spelling
    for sub in 0..(1u32 << 12) {
        let mut bits = 0u32;
        for (j, b) in BASE_BITS.iter().enumerate() {
            if sub & (1 << j) != 0 {
                bits |= 1 << b;
            }
        }
        snapshot_cases(&mut run, bits, only);
        if thorough {
            for k in KEY_BITS {
                snapshot_cases(&mut run, bits | (1 << k), only);
            }
        } else {
            // two of the nine key mods per base set, rotating, so that every key mod meets every
            // single base mod and many combinations
            let k1 = KEY_BITS[(sub % 9) as usize];
            let k2 = KEY_BITS[((sub / 9 + 4) % 9) as usize];
            snapshot_cases(&mut run, bits | (1 << k1), only);
            if k2 != k1 {
                snapshot_cases(&mut run, bits | (1 << k2), only);
            }
        }
        if sub % 16 == 5 || thorough {
            order_cases(&mut run, bits, only);
        }
    }
    // edge sets: all bits, unknown bits, SD/PF, several key mods at once, random 32-bit values
    let mut extra: Vec<u32> = vec![u32::MAX, 1 << 31, 1 << 30, 32, 16384, 16416, 16384 | 64, 512, 576, 576 | 256, KEY_MASK, (1 << 26) | (1 << 24), (1 << 15) | (1 << 28)];
    for _ in 0..(if thorough { 4000 } else { 300 }) {
        extra.push(rng.next() as u32);
    }
    for &bits in &extra {
        snapshot_cases(&mut run, bits, only);
        order_cases(&mut run, bits, only);
    }

    // 1b. lazer mods with explicit settings × Difficulty setters; intermode sets by acronym
    settings::settings_cases(&mut run, thorough, only);
    settings::intermode_cases(&mut run, only);

    // 2. lazer rate mods and DifficultyAdjust
    rate_grid(&mut run, only, if thorough { &[0, 1, 2, 3] } else { &[0, 3] });

    // 3. end-to-end
    let maps = e2e_maps(seed, thorough);
    run.count_n("e2e:maps", maps.len() as u64);
    let mut sets: Vec<u32> = vec![0, 1, 2, 4, 8, 16, 64, 128, 256, 576, 1024, 4096, 8192, 8 | 16, 16 | 64, 2 | 256, 64 | 256, 576 | 256, 8 | 16 | 64 | 1024, 2 | 4 | 128, 16 | 8192 | 4096];
    sets.extend([1 << 15, (1 << 18) | 64, (1 << 24) | 2, (1 << 26) | 16, (1 << 27) | 256, (1 << 28) | 1, (1 << 16) | (1 << 19)]);
    for _ in 0..(if thorough { 150 } else { 12 }) {
        let mut bits = 0u32;
        for b in BASE_BITS {
            if rng.chance(1, 4) {
                bits |= 1 << b;
            }
        }
        if rng.chance(1, 3) {
            bits |= 1 << *rng.pick(&KEY_BITS);
        }
        sets.push(bits);
    }
    e2e_spellings(&mut run, &maps, &sets, only);
    let mut rates: Vec<(&'static str, u32)> = vec![("DC", 870), ("NC", 900), ("DT", 1250), ("HT", 600), ("NC", 1500), ("DC", 750), ("DT", 1990), ("HT", 990), ("DT", 1255), ("HT", 904), ("NC", 1337), ("DC", 625)];
    if thorough {
        for kind in ["DT", "HT", "NC", "DC"] {
            for i in (500..=2000).step_by(73) {
                rates.push((kind, i));
            }
        }
    }
    e2e_rate(&mut run, &maps, &rates, only);
    da_grid(&mut run, &maps, only, thorough);
    settings::e2e_settings(&mut run, &maps, only);
    run.sample(format!("e2e: {} maps × {} mod sets × 5 spellings × (difficulty, strains, 3 score specs, builder)", maps.len(), sets.len()));
    run
}
