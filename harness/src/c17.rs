//! C17 — the attribute builder is self-consistent and matches what the calculators use.
//!
//! * correspondence (`ATTR` lines): the state of a `BeatmapAttributesBuilder` (read back from its
//!   `Debug` output, so whatever the setters stored is what the model is given, bit for bit) plus
//!   the mods as seen through `rosu_pp::verif::mods_snapshot`, against the exact ℚ model of
//!   `build()` / `hit_windows()`; `./check` compares numerically (tools/props/C17.json);
//! * oracles directly on the f64 outputs: `build().hit_windows == hit_windows()`, round trip of
//!   `with_mods = true` values, monotonicity in AR/OD, `window · rate` constancy, HR ≥ NM ≥ EZ,
//!   and bit-equality of the values stored in the difficulty attributes with the builder's output.

use std::fmt::Write as _;

use rosu_pp::{
    any::DifficultyAttributes,
    model::{
        beatmap::{BeatmapAttributes, BeatmapAttributesBuilder, HitWindows},
        mode::GameMode,
    },
    verif::mods_snapshot,
    Beatmap, Difficulty, GameMods,
};

use crate::{
    common::{build_lazer, decode, guarded, mode_name, mode_of, resource_maps, truncate_objects, LazerTag, Run},
    grad::one_shot,
    mapgen::{random_map, GenCfg},
    rng::Rng,
};

#[derive(Clone, Copy, Debug, PartialEq)]
enum ModVariant {
    None,
    Hr,
    Ez,
    Dt,
    Ht,
    HrDt,
    EzHt,
    /// lazer DifficultyAdjust carrying the grid value for every attribute the mode's DA has
    Da,
    /// lazer HR + DA
    HrDa,
}

const VARIANTS: [ModVariant; 9] = [
    ModVariant::None,
    ModVariant::Hr,
    ModVariant::Ez,
    ModVariant::Dt,
    ModVariant::Ht,
    ModVariant::HrDt,
    ModVariant::EzHt,
    ModVariant::Da,
    ModVariant::HrDa,
];

fn mods_of(variant: ModVariant, mode: u8, v: f64) -> GameMods {
    let has_ar_cs = mode == 0 || mode == 2;
    let da = LazerTag::Da {
        ar: has_ar_cs.then_some(v),
        cs: has_ar_cs.then_some(v),
        hp: Some(v),
        od: Some(v),
    };
    match variant {
        ModVariant::None => GameMods::from(0u32),
        ModVariant::Hr => GameMods::from(16u32),
        ModVariant::Ez => GameMods::from(2u32),
        ModVariant::Dt => GameMods::from(64u32),
        ModVariant::Ht => GameMods::from(256u32),
        ModVariant::HrDt => GameMods::from(16u32 | 64),
        ModVariant::EzHt => GameMods::from(2u32 | 256),
        ModVariant::Da => GameMods::from(build_lazer(mode, &[da])),
        ModVariant::HrDa => GameMods::from(build_lazer(mode, &[LazerTag::Acronym("HR"), da])),
    }
}

/// Reads `field: Default(ModsDependent { value: 5.0, with_mods: false })` out of the builder's Debug text.
fn kind_token(dbg: &str, field: &str) -> Option<String> {
    let head = &dbg[..dbg.find(" mods: ")?];
    let i = head.find(&format!(" {field}: "))? + field.len() + 3;
    let rest = &head[i..];
    let custom = rest.starts_with("Custom(");
    let v0 = rest.find("value: ")? + 7;
    let v1 = v0 + rest[v0..].find(',')?;
    let value: f32 = rest[v0..v1].trim().parse().ok()?;
    let w0 = rest.find("with_mods: ")? + 11;
    let with_mods = rest[w0..].starts_with("true");
    Some(if custom {
        format!("C{:x}:{}", value.to_bits(), u8::from(with_mods))
    } else if with_mods {
        // the model's `D` token carries with_mods = false; a Default kind with with_mods = true
        // cannot be built through the public API
        return None;
    } else {
        format!("D{:x}", value.to_bits())
    })
}

fn clock_token(dbg: &str) -> Option<String> {
    let i = dbg.rfind("clock_rate: ")? + 12;
    let rest = &dbg[i..];
    if rest.starts_with("None") {
        return Some("-".to_owned());
    }
    let v0 = rest.find("Some(")? + 5;
    let v1 = v0 + rest[v0..].find(')')?;
    let v: f64 = rest[v0..v1].trim().parse().ok()?;
    Some(format!("{:x}", v.to_bits()))
}

fn opt_hex(v: Option<f64>) -> String {
    v.map_or_else(|| "-".to_owned(), |x| format!("{:x}", x.to_bits()))
}

fn opt_num(v: Option<f64>) -> String {
    v.map_or_else(|| "-".to_owned(), |x| format!("{x:?}"))
}

fn windows_str(h: &HitWindows) -> String {
    format!("war={:?} wgreat={:?} wok={} wmeh={}", h.ar, h.od_great, opt_num(h.od_ok), opt_num(h.od_meh))
}

fn attrs_str(a: &BeatmapAttributes, hw: &HitWindows) -> String {
    format!(
        "ar={:?} od={:?} cs={:?} hp={:?} cr={:?} {} | {}",
        a.ar,
        a.od,
        a.cs,
        a.hp,
        a.clock_rate,
        windows_str(&a.hit_windows),
        windows_str(hw)
    )
}

struct Built {
    attrs: BeatmapAttributes,
    hw: HitWindows,
}

/// Correspondence line + `build` vs `hit_windows` oracle for one builder.
fn observe(run: &mut Run, id: &str, b: &BeatmapAttributesBuilder, mods: &GameMods, mode: u8, conv: bool) -> Option<Built> {
    let r = guarded(|| (b.build(), b.hit_windows()));
    let (attrs, hw) = match r {
        Ok(x) => x,
        Err(p) => {
            run.fail("oracle:builder-panic", "", id, p, format!("{b:?}"));
            return None;
        }
    };
    let dbg = format!("{b:?}");
    let snap = mods_snapshot(mods);
    let toks = (
        kind_token(&dbg, "ar"),
        kind_token(&dbg, "od"),
        kind_token(&dbg, "cs"),
        kind_token(&dbg, "hp"),
        clock_token(&dbg),
    );
    if let (Some(ar), Some(od), Some(cs), Some(hp), Some(clock)) = toks {
        let hr = snap.flags[4];
        let ez = snap.flags[1];
        let line = format!(
            "ATTR {mode} {} {ar} {od} {cs} {hp} {} {} {:x} {:x} {} {} {} {} {clock}",
            u8::from(conv),
            u8::from(hr),
            u8::from(ez),
            snap.od_ar_hp_multiplier.to_bits(),
            snap.clock_rate.to_bits(),
            opt_hex(snap.ar),
            opt_hex(snap.cs),
            opt_hex(snap.hp),
            opt_hex(snap.od),
        );
        if run.samples.len() < 4 && (id.contains("-Hr-5-0-40e") || id.contains("mania-1-EzHt-3-0-40e") || id.starts_with("calc-res")) {
            run.sample(format!("{id}: {line} -> {}", attrs_str(&attrs, &hw)));
        }
        run.line(id, line, attrs_str(&attrs, &hw));
    } else {
        run.fail("oracle:builder-debug-shape", "", id, format!("cannot read builder state from `{dbg}`"), dbg.clone());
    }
    // build() must embed exactly hit_windows()
    let same = attrs.hit_windows.ar.to_bits() == hw.ar.to_bits()
        && attrs.hit_windows.od_great.to_bits() == hw.od_great.to_bits()
        && attrs.hit_windows.od_ok.map(f64::to_bits) == hw.od_ok.map(f64::to_bits)
        && attrs.hit_windows.od_meh.map(f64::to_bits) == hw.od_meh.map(f64::to_bits);
    if !same {
        run.fail(
            "oracle:build-vs-hit-windows",
            "",
            id,
            format!("build().hit_windows = {:?} but hit_windows() = {hw:?}", attrs.hit_windows),
            dbg,
        );
    }
    Some(Built { attrs, hw })
}

fn close(a: f64, b: f64, rel: f64) -> bool {
    (a - b).abs() <= rel * a.abs().max(b.abs()).max(1.0)
}

fn grid_values(step_quarters: i32) -> Vec<f32> {
    let mut v: Vec<f32> = Vec::new();
    let mut q = -80;
    while q <= 80 {
        v.push(q as f32 * 0.25);
        q += step_quarters;
    }
    for bp in [0.0f32, 5.0, 10.0] {
        v.push(f32::from_bits(bp.to_bits().wrapping_add(1)));
        if bp == 0.0 {
            v.push(-f32::from_bits(1)); // smallest negative subnormal
            v.push(-f32::MIN_POSITIVE);
        } else {
            v.push(f32::from_bits(bp.to_bits() - 1));
        }
    }
    // a few values in between, and the HR cap 10/1.4
    v.extend([7.142857f32, 7.1428576, 4.5, 3.5, 9.9, 0.1, 10.1, 13.0]);
    v.sort_by(|a, b| a.partial_cmp(b).unwrap());
    v.dedup();
    v
}

const RATES: [Option<f64>; 8] = [None, Some(0.01), Some(0.5), Some(0.75), Some(1.0), Some(1.5), Some(2.0), Some(100.0)];

fn builder_for(mode: u8, conv: bool, v: f32, w: bool, variant: ModVariant, rate: Option<f64>) -> (BeatmapAttributesBuilder, GameMods) {
    let mods = mods_of(variant, mode, f64::from(v));
    let mut b = BeatmapAttributesBuilder::new().mode(mode_of(mode), conv).mods(mods.clone());
    // DA variants with with_mods = false leave the attributes at their Default kind (5.0), so the
    // mod-provided value is what counts; with with_mods = true the custom value must win over DA
    let custom = !(matches!(variant, ModVariant::Da | ModVariant::HrDa) && !w);
    if custom {
        b = b.ar(v, w).od(v, w).cs(v, w).hp(v, w);
    }
    if let Some(r) = rate {
        b = b.clock_rate(r);
    }
    (b, mods)
}

fn grid(run: &mut Run, only: Option<&str>, thorough: bool) {
    let values = grid_values(if thorough { 1 } else { 2 });
    run.count_n("grid:values", values.len() as u64);
    for mode in 0..4u8 {
        for conv in [false, true] {
            for variant in VARIANTS {
                for (ri, rate) in RATES.iter().enumerate() {
                    // quick tier: every (variant, rate) pair still occurs, for half of the (mode, conv) pairs each
                    if !thorough && (ri + usize::from(mode) + usize::from(conv)) % 2 == 1 && ri != 0 {
                        continue;
                    }
                    for w in [false, true] {
                        let group = format!("grid-{}-{}-{variant:?}-{ri}-{}", mode_name(mode), u8::from(conv), u8::from(w));
                        let mut prev: Option<(f32, Built)> = None;
                        for &v in &values {
                            let id = format!("{group}-{:x}", v.to_bits());
                            if only.is_some_and(|o| o != id && !o.starts_with(&group)) {
                                continue;
                            }
                            let (b, mods) = builder_for(mode, conv, v, w, variant, *rate);
                            run.repro.insert(
                                id.clone(),
                                format!("BeatmapAttributesBuilder::new().mode({}, {conv}).mods({variant:?}){}.clock_rate({rate:?}) with value {v:?}, with_mods {w}", mode_name(mode), if w || !matches!(variant, ModVariant::Da | ModVariant::HrDa) { ".ar/od/cs/hp(v, w)" } else { "" }),
                            );
                            let Some(built) = observe(run, &id, &b, &mods, mode, conv) else { continue };
                            run.count(&format!("grid:mode:{}", mode_name(mode)));
                            run.count(&format!("grid:variant:{variant:?}"));
                            run.eval(Some(&id));
                            let a = &built.attrs;
                            // round trip (with_mods = true)
                            if w {
                                let vf = f64::from(v);
                                let hp_want = vf.min(10.0);
                                if !close(a.ar, vf, 1e-9) || !close(a.od, vf, 1e-9) || a.cs != vf || a.hp != hp_want {
                                    run.fail(
                                        "oracle:roundtrip",
                                        "",
                                        &id,
                                        format!("value {v:?} given with with_mods=true came back as ar {:?} od {:?} cs {:?} hp {:?} (hp is capped at 10 by design)", a.ar, a.od, a.cs, a.hp),
                                        format!("{b:?}"),
                                    );
                                }
                            }
                            // monotone in the value (same group, increasing v): windows never grow
                            if let Some((pv, p)) = &prev {
                                let bad = built.hw.ar > p.hw.ar
                                    || built.hw.od_great > p.hw.od_great
                                    || built.hw.od_ok.zip(p.hw.od_ok).is_some_and(|(x, y)| x > y)
                                    || built.hw.od_meh.zip(p.hw.od_meh).is_some_and(|(x, y)| x > y)
                                    || a.ar < p.attrs.ar
                                    || a.od < p.attrs.od
                                    || a.cs < p.attrs.cs
                                    || a.hp < p.attrs.hp;
                                if bad {
                                    run.fail(
                                        "oracle:monotone",
                                        "",
                                        &id,
                                        format!("value {pv:?} -> {v:?}: {:?} {:?} -> {:?} {:?}", p.hw, p.attrs, built.hw, a),
                                        format!("{b:?}"),
                                    );
                                }
                            }
                            prev = Some((v, built));
                        }
                    }
                }
            }
        }
    }
}

/// window · rate is constant (osu/taiko/catch), mania bounds; HR ≥ NM ≥ EZ on [0, 10]
fn relations(run: &mut Run, only: Option<&str>) {
    let values = grid_values(2);
    for mode in 0..4u8 {
        for conv in [false, true] {
            for &v in &values {
                let id = format!("rel-{}-{}-{:x}", mode_name(mode), u8::from(conv), v.to_bits());
                if only.is_some_and(|o| o != id) {
                    continue;
                }
                run.eval(Some(&id));
                run.count("relations");
                let base = |variant: ModVariant, rate: f64| {
                    let (b, _) = builder_for(mode, conv, v, false, variant, Some(rate));
                    (b.build(), b.hit_windows())
                };
                // clock rate scaling against rate 1
                for variant in [ModVariant::None, ModVariant::Hr, ModVariant::Ez] {
                    let (_, h1) = base(variant, 1.0);
                    for r in [0.01, 0.5, 0.75, 1.5, 2.0, 100.0] {
                        let (_, h) = base(variant, r);
                        let mut ok = close(h.ar * r, h1.ar, 1e-12);
                        if mode != 3 {
                            ok &= close(h.od_great * r, h1.od_great, 1e-12);
                            ok &= h.od_ok.zip(h1.od_ok).map_or(true, |(x, y)| close(x * r, y, 1e-12));
                            ok &= h.od_meh.zip(h1.od_meh).map_or(true, |(x, y)| close(x * r, y, 1e-12));
                        } else {
                            // rate-compensated: integral and within (v - 1/r, v + 1) of the unscaled value
                            ok &= h.od_great.fract() == 0.0;
                            ok &= h.od_great > h1.od_great - 1.0 - 1.0 / r - 1e-6 && h.od_great < h1.od_great + 1.0 + 1e-6;
                        }
                        if !ok {
                            run.fail(
                                "oracle:clock-scaling",
                                "",
                                &id,
                                format!("{variant:?} value {v:?}: rate 1 {h1:?}, rate {r} {h:?}"),
                                format!("mode {} convert {conv} value {v:?} {variant:?} rate {r}", mode_name(mode)),
                            );
                        }
                    }
                }
                // mixed with_mods flags: the attribute given with with_mods=true comes back unchanged
                // at every rate, while the windows of the OTHER attribute still scale with 1/rate
                for (wa, wo) in [(true, false), (false, true)] {
                    let mixed = |rate: f64| {
                        let b = BeatmapAttributesBuilder::new()
                            .mode(mode_of(mode), conv)
                            .ar(v, wa)
                            .od(v, wo)
                            .clock_rate(rate);
                        (b.build(), b.hit_windows())
                    };
                    let (_, h1) = mixed(1.0);
                    for r in [0.5, 0.75, 1.5, 2.0] {
                        let (a, h) = mixed(r);
                        let vf = f64::from(v);
                        let mut ok = true;
                        if wa {
                            ok &= close(a.ar, vf, 1e-9);
                            if mode != 3 {
                                ok &= close(h.od_great * r, h1.od_great, 1e-12);
                                ok &= h.od_ok.zip(h1.od_ok).map_or(true, |(x, y)| close(x * r, y, 1e-12));
                                ok &= h.od_meh.zip(h1.od_meh).map_or(true, |(x, y)| close(x * r, y, 1e-12));
                            }
                        } else {
                            ok &= close(a.od, vf, 1e-9);
                            ok &= close(h.ar * r, h1.ar, 1e-12);
                        }
                        if !ok {
                            run.fail(
                                "oracle:mixed-with-mods-flags",
                                "",
                                &id,
                                format!("ar({v:?}, {wa}) od({v:?}, {wo}): rate 1 {h1:?}; rate {r} {h:?} attrs ar {:?} od {:?}", a.ar, a.od),
                                format!("mode {} convert {conv} value {v:?} ar with_mods {wa} od with_mods {wo} rate {r}", mode_name(mode)),
                            );
                        }
                    }
                }
                // HR / EZ ordering
                if (0.0..=10.0).contains(&v) {
                    for r in [0.75, 1.0, 1.5] {
                        let (ah, hh) = base(ModVariant::Hr, r);
                        let (an, hn) = base(ModVariant::None, r);
                        let (ae, he) = base(ModVariant::Ez, r);
                        let le = |x: f64, y: f64, z: f64| x <= y && y <= z;
                        let ok = le(ae.ar, an.ar, ah.ar)
                            && le(ae.od, an.od, ah.od)
                            && le(ae.cs, an.cs, ah.cs)
                            && le(ae.hp, an.hp, ah.hp)
                            && le(hh.ar, hn.ar, he.ar)
                            && le(hh.od_great, hn.od_great, he.od_great)
                            && hh.od_ok.zip(hn.od_ok).zip(he.od_ok).map_or(true, |((x, y), z)| le(x, y, z))
                            && hh.od_meh.zip(hn.od_meh).zip(he.od_meh).map_or(true, |((x, y), z)| le(x, y, z));
                        if !ok {
                            run.fail(
                                "oracle:hr-ez-order",
                                "",
                                &id,
                                format!("value {v:?} rate {r}: HR {ah:?} NM {an:?} EZ {ae:?}"),
                                format!("mode {} convert {conv} value {v:?} rate {r}", mode_name(mode)),
                            );
                        }
                    }
                }
            }
        }
    }
}

fn settings_pool(rng: &mut Rng, mode: u8) -> Vec<(String, Difficulty)> {
    let mut v: Vec<(String, Difficulty)> = vec![
        ("nomod".into(), Difficulty::new()),
        ("HR".into(), Difficulty::new().mods(16u32)),
        ("EZ".into(), Difficulty::new().mods(2u32)),
        ("DT".into(), Difficulty::new().mods(64u32)),
        ("HT".into(), Difficulty::new().mods(256u32)),
        ("HRDT".into(), Difficulty::new().mods(16u32 | 64)),
        ("EZHT".into(), Difficulty::new().mods(2u32 | 256)),
        ("rate1.3".into(), Difficulty::new().clock_rate(1.3)),
        ("HR+rate0.8".into(), Difficulty::new().mods(16u32).clock_rate(0.8)),
        ("ar9.3w".into(), Difficulty::new().ar(9.3, true).mods(64u32)),
        ("od8.1".into(), Difficulty::new().od(8.1, false).mods(16u32)),
        ("all-custom".into(), Difficulty::new().ar(3.0, false).od(11.0, true).cs(6.5, false).hp(12.0, true).mods(2u32 | 64)),
        ("neg".into(), Difficulty::new().ar(-4.0, false).od(-7.5, false).mods(256u32)),
    ];
    let da = LazerTag::Da {
        ar: (mode == 0 || mode == 2).then_some(8.7),
        cs: (mode == 0 || mode == 2).then_some(3.2),
        hp: Some(6.1),
        od: Some(9.4),
    };
    v.push(("lazer-DA".into(), Difficulty::new().mods(build_lazer(mode, &[da.clone()]))));
    v.push(("lazer-HR-DA-DT1.2".into(), Difficulty::new().mods(build_lazer(mode, &[LazerTag::Acronym("HR"), da.clone(), LazerTag::DtRate(1.2)]))));
    v.push(("lazer-DA+od-override".into(), Difficulty::new().mods(build_lazer(mode, &[da])).od(4.0, false)));
    for i in 0..3 {
        let s = crate::common::random_settings(rng, mode);
        v.push((format!("rnd{i}:{}", s.describe()), s.build(mode)));
    }
    // the ends of the documented override range [-20, 20]: hit windows go negative above OD 13.33 (great) /
    // 17.5 (ok), preempt goes negative above AR ~16.7 — the stored attributes must still be the builder's
    // (seed C17-osu-setup-clamps-negative-windows clamped the stored windows at 0)
    v.push(("od20w".into(), Difficulty::new().od(20.0, true)));
    v.push(("od15".into(), Difficulty::new().od(15.0, false)));
    v.push(("od18w+DT".into(), Difficulty::new().od(18.0, true).mods(64u32)));
    v.push(("od-20".into(), Difficulty::new().od(-20.0, false).mods(256u32)));
    v.push(("ar20w+od14".into(), Difficulty::new().ar(20.0, true).od(14.0, false).clock_rate(0.75)));
    v.push(("ar-20+cs20+hp-20".into(), Difficulty::new().ar(-20.0, false).cs(20.0, false).hp(-20.0, true)));
    v.push(("od13.5+rate2".into(), Difficulty::new().od(13.5, false).clock_rate(2.0)));
    v
}

/// values stored in the difficulty attributes == builder output for the same (converted) map and settings
fn calculators(run: &mut Run, seed: u64, only: Option<&str>, thorough: bool) {
    let mut rng = Rng::new(seed ^ 0x17);
    let mut maps: Vec<(String, u8, Beatmap, String)> = Vec::new();
    for target in 0..3u8 {
        for i in 0..(if thorough { 8 } else { 3 }) {
            let native = target == 0 || i % 2 == 0;
            let mut cfg = GenCfg::small(if native { target } else { 0 });
            cfg.min_objects = 1;
            cfg.max_objects = 10;
            let mut spec = random_map(&mut rng, &cfg);
            // attribute values outside [0, 10] exercise the clamp in `map()`
            if i % 3 == 1 {
                spec.ar = *rng.pick(&[-2.0f32, 10.5, 11.0, 0.0]);
                spec.od = *rng.pick(&[-1.0f32, 10.0, 12.5, 0.3]);
                spec.hp = *rng.pick(&[-3.0f32, 11.0, 7.7]);
                spec.cs = *rng.pick(&[0.0f32, 9.5, 11.0, 2.3]);
            }
            let text = spec.render();
            if let Ok(map) = decode(&text) {
                maps.push((format!("gen{i}-{}{}", mode_name(target), if native { "" } else { "-conv" }), target, map, text));
            }
        }
    }
    for (mode, text) in resource_maps() {
        let text = truncate_objects(&text, if thorough { 200 } else { 30 });
        for target in 0..3u8 {
            if target == mode || mode == 0 {
                if let Ok(map) = decode(&text) {
                    maps.push((format!("res-{}-to-{}", mode_name(mode), mode_name(target)), target, map, format!("/repo/resources map of mode {mode}")));
                }
            }
        }
    }
    for (mid, mode, map, text) in &maps {
        for (sname, d) in settings_pool(&mut rng, *mode) {
            let id = format!("calc-{mid}-{}", crate::common::hash64(&sname) % 100_000);
            if only.is_some_and(|o| o != id) {
                continue;
            }
            run.repro.insert(id.clone(), format!("map {mid} target {} settings {sname}\n{text}", mode_name(*mode)));
            let gm = mode_of(*mode);
            let attrs = match one_shot(&d, map, gm) {
                Ok(a) => a,
                Err(e) if e.starts_with("convert:") => {
                    run.count("calc:not-convertible");
                    continue;
                }
                Err(e) => {
                    run.fail("oracle:calc-panic", "", &id, e, text.clone());
                    continue;
                }
            };
            // the calculators convert first, then ask the converted map's builder
            let mods = rosu_pp::verif::difficulty_getters(&d);
            let _ = mods;
            let conv = match guarded(|| {
                let dm = format!("{d:?}");
                let _ = dm;
                map.clone().convert(gm, &crate::c17::mods_from(&d))
            }) {
                Ok(Ok(m)) => m,
                _ => {
                    run.count("calc:not-convertible");
                    continue;
                }
            };
            let b = conv.attributes().difficulty(&d);
            let built = b.build();
            let hw = b.hit_windows();
            // also a correspondence line for this real-map builder
            let _ = observe(run, &id, &b, &crate::c17::mods_from(&d), *mode, conv.is_convert);
            run.count(&format!("calc:mode:{}", mode_name(*mode)));
            run.eval(Some(&id));
            let mut bad = String::new();
            match &attrs {
                DifficultyAttributes::Osu(a) => {
                    let pairs = [
                        ("ar", a.ar, built.ar),
                        ("od()", a.od(), built.od),
                        ("hp", a.hp, built.hp),
                        ("great", a.great_hit_window, hw.od_great),
                        ("ok", a.ok_hit_window, hw.od_ok.unwrap_or(f64::NAN)),
                        ("meh", a.meh_hit_window, hw.od_meh.unwrap_or(f64::NAN)),
                    ];
                    for (n, x, y) in pairs {
                        if x.to_bits() != y.to_bits() {
                            let _ = write!(bad, "{n}: attributes {x:?} builder {y:?}; ");
                        }
                    }
                }
                DifficultyAttributes::Taiko(a) => {
                    for (n, x, y) in [("great", a.great_hit_window, hw.od_great), ("ok", a.ok_hit_window, hw.od_ok.unwrap_or(f64::NAN))] {
                        if x.to_bits() != y.to_bits() {
                            let _ = write!(bad, "{n}: attributes {x:?} builder {y:?}; ");
                        }
                    }
                }
                DifficultyAttributes::Catch(a) => {
                    if a.ar.to_bits() != built.ar.to_bits() {
                        let _ = write!(bad, "ar: attributes {:?} builder {:?}; ", a.ar, built.ar);
                    }
                }
                DifficultyAttributes::Mania(_) => {}
            }
            if !bad.is_empty() {
                run.fail("oracle:calculator-vs-builder", "", &id, format!("{mid} {sname}: {bad}"), format!("settings {sname}\n{text}"));
            }
        }
    }
}

/// the mods of a `Difficulty` (public through `inspect`)
pub fn mods_from(d: &Difficulty) -> GameMods {
    d.clone().inspect().mods
}

pub fn run(tier: &str, seed: u64, only: Option<&str>) -> Run {
    let mut run = Run::default();
    let thorough = tier == "thorough";
    grid(&mut run, only, thorough);
    relations(&mut run, only);
    calculators(&mut run, seed, only, thorough);
    run.sample("calc-res-osu-to-taiko-…: TaikoDifficultyAttributes.{great,ok}_hit_window vs map.convert(taiko).attributes().difficulty(&d).hit_windows()".to_owned());
    let _ = GameMode::Osu;
    run
}
