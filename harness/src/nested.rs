//! Nested-object generation (C14 / C05): the real `SliderEventsIter` (rosu-map), `OsuSlider::new`
//! and `JuiceStream::new` against `lean/RosuModel/Model/SliderEvents.lean` replayed with IEEE
//! doubles.  Lines:
//!
//! * `SLEV`  raw parameter tuple → every event (kind, span, span start, time, progress), bit-exact;
//! * `OSLD`  what `OsuSlider::new` reads of map and slider → end time, large ticks, nested objects;
//! * `JUICE` what `JuiceStream::new` reads, for every object of a map → the gradual record sequence;
//! * `ONER`  the same raw inputs → the integer difficulty attributes for `passed_objects(n)`.

use rosu_pp::{
    model::{hit_object::HitObjectKind, mode::GameMode},
    osu::verif::{nested_objects, slider_events_raw, slider_inputs, SliderInputs},
    Beatmap, Difficulty,
};

use crate::{
    common::{decode, guarded, resource_maps, truncate_objects, Run},
    grad::{ints, one_shot},
    mapgen::{random_slider, MapSpec, ObjKind, ObjSpec, TimingSpec},
    rng::Rng,
};

/// More estimated ticks than this (over all spans of one slider): the real generator is not called
/// (`generate_ticks` materialises every tick of a span before the first is consumed).
const MAX_EST_EVENTS: f64 = 400_000.0;

pub fn show_f(x: f64) -> String {
    if x.is_nan() {
        "nan".into()
    } else {
        x.to_bits().to_string()
    }
}

fn show_i(i: i32) -> String {
    if i < 0 {
        format!("m{}", i.unsigned_abs())
    } else {
        i.to_string()
    }
}

fn fnv(mut h: u64, s: &str) -> u64 {
    for b in s.bytes() {
        h ^= u64::from(b);
        h = h.wrapping_mul(0x0000_0100_0000_01b3);
    }
    h
}

/// Count, order-sensitive checksum over all items, the items (first and last 24 beyond 48).
pub fn show_long(l: &[String]) -> String {
    let mut h: u64 = 0xcbf2_9ce4_8422_2325;
    for s in l {
        h = fnv(fnv(h, s), ";");
    }
    let n = l.len();
    let shown: Vec<&str> = if n <= 48 {
        l.iter().map(String::as_str).collect()
    } else {
        l[..24]
            .iter()
            .map(String::as_str)
            .chain(std::iter::once("..."))
            .chain(l[n - 24..].iter().map(String::as_str))
            .collect()
    };
    format!("{n}#{h}#{}", if shown.is_empty() { "-".to_owned() } else { shown.join(";") })
}

/// Rough amount of events `SliderEventsIter` will produce (guard only, never compared).
fn estimate_events(tick_dist: f64, total_dist: f64, span_count: i64) -> f64 {
    let len = total_dist.min(100_000.0);
    if !(len >= 0.0) {
        return 0.0; // clamp panics before any tick
    }
    let td = if tick_dist < 0.0 { 0.0 } else if tick_dist > len { len } else { tick_dist };
    let per_span = if td > 0.0 { (len / td).min(1e18) + 1.0 } else { 1.0 };
    per_span * (span_count.max(0) as f64) + 3.0
}

#[derive(Clone, Copy, Debug)]
pub struct Tuple {
    pub start: f64,
    pub span_dur: f64,
    pub velocity: f64,
    pub tick_dist: f64,
    pub total_dist: f64,
    pub span_count: i32,
}

fn slev(run: &mut Run, id: &str, t: Tuple, family: &str) {
    if t.span_count < 0 {
        run.count("slev:skipped:negative-span-count");
        return;
    }
    if estimate_events(t.tick_dist, t.total_dist, i64::from(t.span_count)) > MAX_EST_EVENTS {
        run.count("slev:skipped:too-many-events");
        return;
    }
    let req = format!(
        "SLEV {} {} {} {} {} {}",
        t.start.to_bits(),
        t.span_dur.to_bits(),
        t.velocity.to_bits(),
        t.tick_dist.to_bits(),
        t.total_dist.to_bits(),
        t.span_count
    );
    let real = guarded(|| {
        slider_events_raw(t.start, t.span_dur, t.velocity, t.tick_dist, t.total_dist, t.span_count, usize::MAX)
    });
    let obs = match real {
        Ok(evs) => {
            let n_ticks = evs.iter().filter(|e| e.0 == 1).count();
            run.count(&format!(
                "slev:ticks:{}",
                match n_ticks {
                    0 => "0",
                    1..=3 => "1-3",
                    4..=20 => "4-20",
                    21..=1000 => "21-1000",
                    _ => "1000+",
                }
            ));
            let items: Vec<String> = evs
                .iter()
                .map(|e| format!("{}:{}:{}:{}:{}", e.0, show_i(e.1), show_f(e.2), show_f(e.3), show_f(e.4)))
                .collect();
            run.eval((n_ticks > 0 || t.span_count > 1).then_some(req.as_str()));
            show_long(&items)
        }
        Err(p) => {
            run.count("slev:panic");
            if !p.contains("min > max") {
                run.fail("oracle:slider-events-unexpected-panic", "", id, p, req.clone());
            }
            run.eval(Some(req.as_str()));
            "PANIC".into()
        }
    };
    run.count(&format!("slev:family:{family}"));
    run.repro.insert(id.to_owned(), req.clone());
    run.line(id, req, obs);
}

/// `get_precision_adjusted_beat_len` + the parameter formulas, to build realistic tuples only
/// (the tie of these formulas is the OSLD / JUICE lines, which go through the real constructors).
fn realistic_tuple(rng: &mut Rng) -> Tuple {
    let sm = 0.4 + rng.unit() * 3.2;
    let tick_rate = *rng.pick(&[0.5, 1.0, 1.0, 2.0, 3.0, 4.0, 8.0, 1.5]);
    let sv = if rng.chance(1, 3) { 1.0 } else { 0.1 + rng.unit() * 9.9 };
    let beat_len = if rng.chance(1, 2) {
        *rng.pick(&[250.0, 300.0, 333.333_333_333_333_3, 400.0, 500.0, 600.0, 1000.0])
    } else {
        100.0 + rng.unit() * 1900.0
    };
    let version = *rng.pick(&[3u32, 5, 7, 8, 9, 14, 14, 128]);
    let length = if rng.chance(1, 2) {
        *rng.pick(&[10.0, 35.0, 70.0, 100.0, 140.0, 210.0, 280.0, 400.5, 1000.0, 2000.0])
    } else {
        10.0 + rng.unit() * 1990.0
    };
    let spans = if rng.chance(1, 2) { 1 } else { rng.range(1, 21) } as i32;
    let start = match rng.below(4) {
        0 => rng.range(0, 600_000) as f64,
        1 => rng.unit() * 600_000.0,
        2 => -(rng.range(0, 5000) as f64),
        _ => rng.range(0, 3_600_000) as f64 + 0.5,
    };
    let sv_as_bl = -100.0 / sv;
    let bpm_mult = if sv_as_bl < 0.0 { f64::from(((-sv_as_bl) as f32).clamp(10.0, 10_000.0)) / 100.0 } else { 1.0 };
    let velocity = 100.0 * sm / (beat_len * bpm_mult);
    let scoring = velocity * beat_len;
    let mult = if version < 8 { sv.recip() } else { 1.0 };
    let tick_dist = scoring / tick_rate * mult;
    let span_count = f64::from(spans);
    let (span_dur, _) = if rng.chance(1, 2) {
        // osu!: through end_time
        let end = start + span_count * length / velocity;
        ((end - start) / span_count, end)
    } else {
        let d = span_count * length / velocity;
        (d / span_count, start + d)
    };
    Tuple { start, span_dur, velocity, tick_dist, total_dist: length, span_count: spans }
}

fn next_up(x: f64) -> f64 {
    f64::from_bits(if x >= 0.0 { x.to_bits() + 1 } else { x.to_bits() - 1 })
}

fn next_down(x: f64) -> f64 {
    if x == 0.0 {
        -f64::from_bits(1)
    } else {
        f64::from_bits(if x > 0.0 { x.to_bits() - 1 } else { x.to_bits() + 1 })
    }
}

fn corner_tuples(rng: &mut Rng, n_random: usize) -> Vec<(String, Tuple)> {
    let base = Tuple { start: 1000.0, span_dur: 500.0, velocity: 0.2, tick_dist: 100.0, total_dist: 250.0, span_count: 2 };
    let mut v: Vec<(String, Tuple)> = Vec::new();
    let specials = [
        0.0,
        -0.0,
        f64::from_bits(1),
        1e-300,
        1e-9,
        0.5,
        1.0,
        36.0,
        72.0,
        100.0,
        99_999.999,
        100_000.0,
        100_000.000_000_01,
        131_072.0,
        1e9,
        1e300,
        f64::INFINITY,
        f64::NEG_INFINITY,
        f64::NAN,
        -1.0,
        -1e-9,
        -1e9,
    ];
    for (i, &x) in specials.iter().enumerate() {
        v.push((format!("corner-start-{i}"), Tuple { start: x, ..base }));
        v.push((format!("corner-spandur-{i}"), Tuple { span_dur: x, ..base }));
        v.push((format!("corner-velocity-{i}"), Tuple { velocity: x, ..base }));
        v.push((format!("corner-tickdist-{i}"), Tuple { tick_dist: x, ..base }));
        v.push((format!("corner-totaldist-{i}"), Tuple { total_dist: x, ..base }));
        v.push((format!("corner-totaldist-notick-{i}"), Tuple { total_dist: x, tick_dist: f64::INFINITY, ..base }));
        v.push((format!("corner-both-{i}"), Tuple { total_dist: x, tick_dist: x, ..base }));
    }
    for (i, &sc) in [0, 1, 2, 3, 4, 5, 100, 9001].iter().enumerate() {
        v.push((format!("corner-spans-{i}"), Tuple { span_count: sc, ..base }));
        v.push((format!("corner-spans-1ms-{i}"), Tuple { span_count: sc, span_dur: 1.0, total_dist: 0.2, tick_dist: 0.05, ..base }));
        v.push((format!("corner-spans-zero-{i}"), Tuple { span_count: sc, span_dur: 0.0, total_dist: 0.0, ..base }));
    }
    // a tick exactly at / one ulp around `len - min_dist_from_end`
    for (i, &(len, vel, k)) in [(250.0, 5.0, 2.0), (1000.0, 10.0, 9.0), (300.0, 0.0, 3.0), (640.0, 6.4, 4.0), (100.0, 1.0, 1.0)]
        .iter()
        .enumerate()
    {
        let edge: f64 = len - vel * 10.0;
        let td = edge / k;
        for (j, t) in [td, next_up(td), next_down(td)].into_iter().enumerate() {
            v.push((format!("corner-edge-{i}-{j}"), Tuple { total_dist: len, velocity: vel, tick_dist: t, ..base }));
        }
        for (j, l) in [next_up(len), next_down(len)].into_iter().enumerate() {
            v.push((format!("corner-edge-len-{i}-{j}"), Tuple { total_dist: l, velocity: vel, tick_dist: td, ..base }));
        }
        // tick_dist = total_dist, and total_dist an exact multiple of tick_dist
        v.push((format!("corner-td-eq-len-{i}"), Tuple { total_dist: len, velocity: 0.0, tick_dist: len, ..base }));
        v.push((format!("corner-td-div-len-{i}"), Tuple { total_dist: len, velocity: 0.0, tick_dist: len / 4.0, ..base }));
        v.push((format!("corner-td-div-len-neg-vel-{i}"), Tuple { total_dist: len, velocity: -1.0, tick_dist: len / 4.0, ..base }));
    }
    // the length cap: total_dist above MAX_LEN with few / many ticks
    for (i, &(tot, td)) in [(100_001.0, 50_000.0), (131_072.0, 33_333.3), (1e7, 100_000.0), (1e7, 1e6), (250_000.0, 1.0), (100_000.0, 0.5)]
        .iter()
        .enumerate()
    {
        v.push((format!("corner-cap-{i}"), Tuple { total_dist: tot, tick_dist: td, velocity: 1.0, span_count: 1 + (i as i32 % 3), ..base }));
    }
    // legacy last tick: duration around 72 ms (where start + d/2 = end - 36)
    for (i, &d) in [0.0, 1.0, 35.0, 36.0, 71.0, 72.0, next_up(72.0), next_down(72.0), 73.0, 144.0].iter().enumerate() {
        for sc in [1, 2, 3] {
            v.push((format!("corner-lasttick-{i}-{sc}"), Tuple { span_dur: d / f64::from(sc), span_count: sc, tick_dist: f64::INFINITY, ..base }));
        }
    }
    // large times (i32 range of the juice stream casts is a JUICE concern; here: f64 absorption)
    for (i, &s) in [2_147_483_000.0, -2_147_483_648.0, 1e15, 9_007_199_254_740_992.0, 1e17].iter().enumerate() {
        v.push((format!("corner-bigstart-{i}"), Tuple { start: s, ..base }));
        v.push((format!("corner-bigstart-1ms-{i}"), Tuple { start: s, span_dur: 1.0, span_count: 4, ..base }));
    }
    // random mixes of special values
    for i in 0..n_random {
        let mut t = realistic_tuple(rng);
        for _ in 0..rng.range(1, 3) {
            let x = *rng.pick(&specials);
            match rng.below(5) {
                0 => t.start = x,
                1 => t.span_dur = x,
                2 => t.velocity = x,
                3 => t.tick_dist = x,
                _ => t.total_dist = x,
            }
        }
        if rng.chance(1, 6) {
            t.span_count = *rng.pick(&[0, 1, 2, 3, 7]);
        }
        v.push((format!("mix-{i}"), t));
    }
    v
}

// ---------------------------------------------------------------------------------------------
// map based lines

struct NestedMap {
    id: String,
    text: String,
    family: &'static str,
}

fn inherited(time: f64, sv: f64) -> TimingSpec {
    TimingSpec { time, beat_len: -100.0 / sv, uninherited: false, kiai: false }
}

/// Slider-heavy maps with the whole documented parameter range.
fn slider_map(rng: &mut Rng) -> MapSpec {
    let mut m = MapSpec { mode: if rng.chance(1, 3) { 2 } else { 0 }, ..Default::default() };
    m.version = *rng.pick(&[14, 14, 128, 9, 8, 7, 6, 5, 3]);
    m.slider_multiplier = if rng.chance(1, 2) { *rng.pick(&[0.4, 1.0, 1.4, 1.8, 2.6, 3.6]) } else { ((0.4 + rng.unit() * 3.2) * 100.0).round() / 100.0 };
    m.slider_tick_rate = *rng.pick(&[0.5, 1.0, 1.0, 2.0, 3.0, 4.0, 8.0, 1.5, 0.75]);
    let beat = if rng.chance(1, 2) {
        *rng.pick(&[250.0, 300.0, 333.33, 400.0, 500.0, 600.0, 1000.0, 2000.0, 100.0])
    } else {
        ((100.0 + rng.unit() * 1900.0) * 1000.0).round() / 1000.0
    };
    m.timing[0].beat_len = beat;
    m.timing[0].time = if rng.chance(1, 4) { rng.range(-500, 2000) as f64 } else { 0.0 };
    let n_extra = rng.range(0, 3);
    for _ in 0..n_extra {
        let time = rng.range(0, 20_000) as f64;
        if rng.chance(2, 3) {
            let sv = if rng.chance(1, 2) { *rng.pick(&[0.1, 0.25, 0.5, 0.75, 1.0, 1.5, 2.0, 4.0, 10.0]) } else { ((0.1 + rng.unit() * 9.9) * 100.0).round() / 100.0 };
            m.timing.push(inherited(time, sv));
        } else {
            m.timing.push(TimingSpec {
                time,
                beat_len: ((100.0 + rng.unit() * 1900.0) * 100.0).round() / 100.0,
                uninherited: true,
                kiai: false,
            });
        }
    }
    let n = rng.range(1, 8) as usize;
    let mut t = rng.range(-200, 3000) as f64;
    if rng.chance(1, 5) {
        t += 0.5;
    }
    for _ in 0..n {
        let x = rng.range(0, 512) as i32;
        let y = rng.range(0, 384) as i32;
        let kind = match rng.below(10) {
            0 => ObjKind::Circle,
            1 => ObjKind::Spinner { end: t + *rng.pick(&[1.0, 100.0, 800.0]) },
            _ => {
                let mut s = random_slider(rng, x, y, 3);
                if let ObjKind::Slider { ref mut slides, ref mut length, .. } = s {
                    *slides = if rng.chance(1, 2) { 1 } else { rng.range(1, 21) as u32 };
                    *length = if rng.chance(1, 2) {
                        *rng.pick(&[10.0, 35.0, 70.0, 100.0, 140.0, 210.0, 280.0, 400.5, 1000.0, 2000.0])
                    } else {
                        ((10.0 + rng.unit() * 1990.0) * 100.0).round() / 100.0
                    };
                }
                s
            }
        };
        let dur = match &kind {
            ObjKind::Slider { slides, length, .. } => f64::from(*slides) * length / (100.0 * m.slider_multiplier) * beat,
            ObjKind::Spinner { end } | ObjKind::Hold { end } => end - t,
            ObjKind::Circle => 0.0,
        };
        m.objects.push(ObjSpec { x, y, time: t, sound: 0, kind });
        t += dur.clamp(0.0, 60_000.0).floor() + *rng.pick(&[0.0, 1.0, 75.0, 250.0, 1000.0]);
    }
    m
}

fn one_slider(version: i32, mode: u8, sm: f64, tr: f64, timing: Vec<TimingSpec>, time: f64, slides: u32, length: f64, far: i32) -> MapSpec {
    MapSpec {
        version,
        mode,
        slider_multiplier: sm,
        slider_tick_rate: tr,
        timing,
        objects: vec![
            ObjSpec { x: 0, y: 192, time, sound: 0, kind: ObjKind::Slider { curve: 'L', points: vec![(far, 192)], slides, length } },
        ],
        ..Default::default()
    }
}

/// Hand-made corner maps (rendered to text; the decoder decides what survives).
fn corner_maps() -> Vec<NestedMap> {
    let mut v = Vec::new();
    let t0 = |bl: f64| vec![TimingSpec { time: 0.0, beat_len: bl, uninherited: true, kiai: false }];
    let mut push = |name: String, spec: MapSpec| {
        for mode in [0u8, 2] {
            let mut s = spec.clone();
            s.mode = mode;
            v.push(NestedMap { id: format!("nmap-corner-{name}-{}", if mode == 0 { "osu" } else { "catch" }), text: s.render(), family: "corner" });
        }
    };
    // lengths: zero, below EPSILON, tiny, exactly / beyond MAX_LEN is unreachable (<= 131072 but the
    // path is capped by its control points: use a far end point)
    for (i, &len) in [0.0, 1e-17, 1e-9, 0.001, 1.0, 10.0, 99.999, 100.0, 140.0, 99_999.0, 100_000.0, 100_001.0, 131_072.0].iter().enumerate() {
        push(format!("len-{i}"), one_slider(14, 0, 1.4, 1.0, t0(500.0), 1000.0, 1, len, 131_000));
        push(format!("len-rep-{i}"), one_slider(14, 0, 3.6, 0.5, t0(500.0), 1000.0, 3, len, 131_000));
    }
    // beat lengths at the decoder's clamps, tick rates and multipliers at theirs
    for (i, &bl) in [6.0, 1.0, 1e-9, 60_000.0, 1e9, 100.0, 2000.0].iter().enumerate() {
        push(format!("beat-{i}"), one_slider(14, 0, 1.4, 1.0, t0(bl), 1000.0, 2, 200.0, 400));
        push(format!("beat-old-{i}"), one_slider(7, 0, 1.4, 4.0, t0(bl), 1000.0, 2, 200.0, 400));
    }
    for (i, &(sm, tr)) in [(0.4, 8.0), (3.6, 0.5), (0.01, 100.0), (100.0, 0.01), (1.4, 0.0), (0.0, 1.0)].iter().enumerate() {
        push(format!("smtr-{i}"), one_slider(14, 0, sm, tr, t0(500.0), 1000.0, 2, 300.0, 400));
        push(format!("smtr-old-{i}"), one_slider(5, 0, sm, tr, t0(500.0), 1000.0, 2, 300.0, 400));
    }
    // slider velocities incl. beyond the clamps, version below / from 8
    for (i, &sv) in [0.1, 0.01, 0.5, 1.0, 2.0, 10.0, 100.0, 1e6, 1e-6].iter().enumerate() {
        for ver in [7, 8, 14] {
            let mut timing = t0(400.0);
            timing.push(inherited(0.0, sv));
            push(format!("sv-{i}-v{ver}"), one_slider(ver, 0, 1.4, 2.0, timing, 1000.0, 2, 280.0, 400));
        }
    }
    // repeats
    for (i, &sl) in [1u32, 2, 3, 4, 21, 100, 1000, 9000].iter().enumerate() {
        push(format!("slides-{i}"), one_slider(14, 0, 1.4, 1.0, t0(500.0), 1000.0, sl, 70.0, 400));
        push(format!("slides-short-{i}"), one_slider(14, 0, 3.6, 8.0, t0(100.0), 1000.0, sl, 10.0, 400));
    }
    // 1 ms spans / buzz sliders, the 72 ms boundary of the legacy last tick
    for (i, &(len, bl)) in [(0.36, 100.0), (1.4, 100.0), (25.2, 400.0), (25.3, 400.0), (25.1, 400.0), (70.0, 250.0)].iter().enumerate() {
        push(format!("short-{i}"), one_slider(14, 0, 1.4, 1.0, t0(bl), 1000.0, 1, len, 400));
        push(format!("short-rep-{i}"), one_slider(14, 0, 1.4, 1.0, t0(bl), 1000.0, 8, len, 400));
    }
    // start times around the i32 range of the juice stream's casts, fractional times
    for (i, &st) in [-5000.0, 0.5, 2_147_483_000.0, 2_147_483_647.0, 2_147_484_000.0, -2_147_483_648.0, -2_147_483_000.0, -2_147_484_648.0, 16_777_216.0].iter().enumerate() {
        push(format!("time-{i}"), one_slider(14, 0, 1.4, 1.0, t0(500.0), st, 2, 2000.0, 2500));
        push(format!("time-slow-{i}"), one_slider(14, 0, 0.4, 1.0, t0(2000.0), st, 3, 2000.0, 2500));
    }
    // a tick landing exactly on the span end / on `len - 10 * velocity`
    for (i, &(len, tr)) in [(140.0, 1.0), (280.0, 1.0), (70.0, 2.0), (141.4, 1.0), (138.6, 1.0), (126.0, 1.0), (125.9, 1.0), (126.1, 1.0)].iter().enumerate() {
        push(format!("edge-{i}"), one_slider(14, 0, 1.4, tr, t0(500.0), 1000.0, 2, len, 400));
    }
    v
}

/// Text-level corner maps the spec renderer cannot express (non-finite numbers, odd fields).
fn text_corner_maps() -> Vec<NestedMap> {
    let mut v = Vec::new();
    let mk = |tp: &str, obj: &str, ver: i32, mode: u8| {
        format!(
            "osu file format v{ver}\n\n[General]\nMode: {mode}\n\n[Difficulty]\nHPDrainRate:5\nCircleSize:4\nOverallDifficulty:5\nApproachRate:5\nSliderMultiplier:1.4\nSliderTickRate:1\n\n[TimingPoints]\n{tp}\n\n[HitObjects]\n{obj}\n"
        )
    };
    let cases: [(&str, &str, &str); 8] = [
        ("nan-beat", "0,NaN,4,2,0,100,1,0", "0,192,1000,2,0,L|300:192,2,300"),
        ("inf-beat", "0,inf,4,2,0,100,1,0", "0,192,1000,2,0,L|300:192,2,300"),
        ("zero-beat", "0,0,4,2,0,100,1,0", "0,192,1000,2,0,L|300:192,2,300"),
        ("neg-inherited-nan", "0,500,4,2,0,100,1,0\n0,NaN,4,2,0,100,0,0", "0,192,1000,2,0,L|300:192,2,300"),
        ("inherited-zero", "0,500,4,2,0,100,1,0\n0,-0,4,2,0,100,0,0", "0,192,1000,2,0,L|300:192,2,300"),
        ("no-timing", "", "0,192,1000,2,0,L|300:192,2,300"),
        ("neg-length", "0,500,4,2,0,100,1,0", "0,192,1000,2,0,L|300:192,2,-300"),
        ("zero-path", "0,500,4,2,0,100,1,0", "0,192,1000,2,0,L|0:192,3,100"),
    ];
    for (name, tp, obj) in cases {
        for (ver, mode) in [(14, 0u8), (14, 2), (7, 0), (7, 2)] {
            v.push(NestedMap { id: format!("nmap-text-{name}-v{ver}-m{mode}"), text: mk(tp, obj, ver, mode), family: "text-corner" });
        }
    }
    v
}

fn slider_field(i: &SliderInputs) -> String {
    format!(
        "{}:{}:{}:{}:{}:{}",
        i.start_time.to_bits(),
        i.beat_len.to_bits(),
        i.slider_velocity.to_bits(),
        u8::from(i.generate_ticks),
        i.dist.to_bits(),
        i.span_count
    )
}

/// Guard-only estimate of the events of one slider (formulas of `OsuSlider::new`).
fn estimate_slider_events(map: &Beatmap, i: &SliderInputs) -> f64 {
    let sv_as_bl = -100.0 / i.slider_velocity;
    let bpm_mult = if sv_as_bl < 0.0 { f64::from(((-sv_as_bl) as f32).clamp(10.0, 10_000.0)) / 100.0 } else { 1.0 };
    let velocity = 100.0 * map.slider_multiplier / (i.beat_len * bpm_mult);
    let scoring = velocity * i.beat_len;
    let mult = if map.version < 8 { i.slider_velocity.recip() } else { 1.0 };
    let tick_dist = scoring / map.slider_tick_rate * mult;
    estimate_events(tick_dist, i.dist, i.span_count as i64)
}

fn bucket(n: usize) -> &'static str {
    match n {
        0 => "0",
        1..=3 => "1-3",
        4..=20 => "4-20",
        21..=1000 => "21-1000",
        _ => "1000+",
    }
}

fn map_lines(run: &mut Run, c: &NestedMap) {
    let map = match decode(&c.text) {
        Ok(m) => m,
        Err(e) => {
            run.count(&format!("nmap:undecodable:{}", e.split(':').next().unwrap_or("")));
            return;
        }
    };
    run.count(&format!("nmap:family:{}", c.family));
    if map.check_suspicion().is_err() {
        run.count("nmap:suspicious");
    }
    run.repro.insert(c.id.clone(), c.text.clone());
    let head = format!("{} {} {}", map.version, map.slider_multiplier.to_bits(), map.slider_tick_rate.to_bits());
    // ---- osu!: every slider through the real `OsuObject::new`
    if map.mode == GameMode::Osu {
        let inputs = slider_inputs(&map, GameMode::Osu);
        let too_big = inputs.iter().flatten().any(|i| estimate_slider_events(&map, i) > MAX_EST_EVENTS);
        if too_big {
            run.count("nmap:skipped:too-many-events");
        } else {
            match guarded(|| nested_objects(&map)) {
                Err(p) => run.fail("oracle:osu-nested-panic", "", &c.id, p, c.text.clone()),
                Ok(real) => {
                    let mut raw_objs: Vec<String> = Vec::new();
                    for (k, (inp, nest)) in inputs.iter().zip(real.iter()).enumerate() {
                        match (inp, nest) {
                            (Some(i), Some((end_time, nested))) => {
                                let mut keyed: Vec<(i64, u8, String)> = nested
                                    .iter()
                                    .map(|(kind, t)| {
                                        let b = t.to_bits() as i64;
                                        (b ^ (((b >> 63) as u64) >> 1) as i64, *kind, show_f(*t))
                                    })
                                    .collect();
                                keyed.sort();
                                let items: Vec<String> = keyed.iter().map(|(_, k, t)| format!("{k}:{t}")).collect();
                                let large = nested.iter().filter(|(k, _)| *k != 1).count();
                                let ticks = nested.iter().filter(|(k, _)| *k == 2).count();
                                run.count(&format!("osld:ticks:{}", bucket(ticks)));
                                run.count(&format!("osld:spans:{}", bucket(i.span_count)));
                                run.count(if map.version < 8 { "osld:version<8" } else { "osld:version>=8" });
                                if !i.generate_ticks {
                                    run.count("osld:generate-ticks-off");
                                }
                                // oracle (C14): nested = ticks + repeats + tail, repeats = spans - 1
                                let repeats = nested.iter().filter(|(k, _)| *k == 0).count();
                                let tails = nested.iter().filter(|(k, _)| *k == 1).count();
                                if repeats + 1 != i.span_count || tails != 1 {
                                    run.fail(
                                        "oracle:osu-nested-structure",
                                        "",
                                        &c.id,
                                        format!("object {k}: spans={} repeats={repeats} tails={tails}", i.span_count),
                                        c.text.clone(),
                                    );
                                }
                                let req = format!("OSLD {head} {}", slider_field(i));
                                run.eval((ticks > 0 || i.span_count > 1).then_some(req.as_str()));
                                run.line(
                                    &c.id,
                                    req,
                                    format!("{}|{}|{}|{}", show_f(*end_time), large, nested.len(), show_long(&items)),
                                );
                                raw_objs.push(slider_field(i));
                            }
                            (None, None) => raw_objs.push(
                                match map.hit_objects[k].kind {
                                    HitObjectKind::Circle => "c",
                                    _ => "p",
                                }
                                .into(),
                            ),
                            _ => run.fail("oracle:osu-nested-kind-mismatch", "", &c.id, format!("object {k}"), c.text.clone()),
                        }
                    }
                    oner(run, c, &map, GameMode::Osu, &head, &raw_objs);
                }
            }
        }
    }
    // ---- catch: the whole record sequence (osu! maps are converted, catch maps taken as they are)
    if map.mode == GameMode::Osu || map.mode == GameMode::Catch {
        let conv = match map.convert_ref(GameMode::Catch, &Default::default()) {
            Ok(m) => m.into_owned(),
            Err(_) => return,
        };
        let inputs = slider_inputs(&conv, GameMode::Catch);
        let est: f64 = inputs.iter().flatten().map(|i| estimate_slider_events(&conv, i)).sum();
        // tiny droplets: at most one per 50 ms of slider
        let est_tiny: f64 = inputs
            .iter()
            .flatten()
            .map(|i| {
                let sv_as_bl = -100.0 / i.slider_velocity;
                let bpm_mult = if sv_as_bl < 0.0 { f64::from(((-sv_as_bl) as f32).clamp(10.0, 10_000.0)) / 100.0 } else { 1.0 };
                let velocity = 100.0 * conv.slider_multiplier / (i.beat_len * bpm_mult);
                let d = (i.span_count as f64 * i.dist / velocity).abs();
                if d.is_finite() { d.min(4.3e9 * i.span_count as f64) / 50.0 } else { 4.3e7 * i.span_count as f64 }
            })
            .sum();
        if est > MAX_EST_EVENTS || est_tiny > 3.0e6 {
            run.count("nmap:catch-skipped:too-many-events");
            return;
        }
        let d = Difficulty::new();
        match guarded(|| rosu_pp::catch::verif::record_sequence(&d, &conv)) {
            Err(p) => run.fail("oracle:catch-records-panic", "", &c.id, p, c.text.clone()),
            Ok(recs) => {
                let raw_objs: Vec<String> = inputs
                    .iter()
                    .enumerate()
                    .map(|(k, inp)| match inp {
                        Some(i) => slider_field(i),
                        None => match conv.hit_objects[k].kind {
                            HitObjectKind::Circle => "c".into(),
                            _ => "p".into(),
                        },
                    })
                    .collect();
                let items: Vec<String> = recs.iter().map(|(f, t)| format!("{}:{}", u8::from(*f), t)).collect();
                let tiny: u64 = recs.iter().map(|(_, t)| u64::from(*t)).sum();
                run.count(&format!("juice:tiny:{}", bucket(tiny as usize)));
                run.count(&format!("juice:records:{}", bucket(recs.len())));
                // oracle (C14): fruits of the map = circles + sum of span_count + 1 over the sliders
                let fruits = recs.iter().filter(|(f, _)| *f).count();
                let expect: usize = inputs
                    .iter()
                    .enumerate()
                    .map(|(k, inp)| match inp {
                        Some(i) => i.span_count + 1,
                        None => usize::from(matches!(conv.hit_objects[k].kind, HitObjectKind::Circle)),
                    })
                    .sum();
                if fruits != expect {
                    run.fail("oracle:catch-fruits", "", &c.id, format!("fruits={fruits} expected={expect}"), c.text.clone());
                }
                let objs = if raw_objs.is_empty() { "-".to_owned() } else { raw_objs.join(";") };
                let req = format!("JUICE {} {} {} {objs}", conv.version, conv.slider_multiplier.to_bits(), conv.slider_tick_rate.to_bits());
                run.eval((tiny > 0 || recs.len() > 2).then_some(req.as_str()));
                run.line(&c.id, req, show_long(&items));
                let head = format!("{} {} {}", conv.version, conv.slider_multiplier.to_bits(), conv.slider_tick_rate.to_bits());
                oner(run, c, &conv, GameMode::Catch, &head, &raw_objs);
            }
        }
    }
}

/// `ONER`: the integer attributes for `passed_objects(n)` predicted from the raw slider inputs.
fn oner(run: &mut Run, c: &NestedMap, map: &Beatmap, mode: GameMode, head: &str, raw_objs: &[String]) {
    let objs = if raw_objs.is_empty() { "-".to_owned() } else { raw_objs.join(";") };
    let mode_s = if mode == GameMode::Osu { "osu" } else { "catch" };
    let n = map.hit_objects.len() as u32;
    let mut takes = vec![0, 1, n.saturating_sub(1), n, n + 1, u32::MAX];
    if mode == GameMode::Catch {
        // catch counts palpable objects: go through a few inner positions too
        takes.extend([2, 3, 5, 8, 13, 40]);
    }
    takes.sort_unstable();
    takes.dedup();
    for take in takes {
        let d = Difficulty::new().passed_objects(take);
        match one_shot(&d, map, mode) {
            Ok(a) => run.line(&c.id, format!("ONER {mode_s} {head} {objs} {take}"), ints(&a)),
            Err(e) => run.fail("oracle:one-shot", "", &c.id, e, c.text.clone()),
        }
    }
}

pub fn run(run: &mut Run, tier: &str, seed: u64, only: Option<&str>) {
    let thorough = tier == "thorough";
    let mut rng = Rng::new(seed ^ 0x0b1e_c7ed);
    // ---- SLEV: raw tuples
    let (n_real, n_mix) = if thorough { (60_000, 20_000) } else { (5_000, 1_500) };
    let mut tuples: Vec<(String, Tuple, &'static str)> = Vec::new();
    for (id, t) in corner_tuples(&mut rng, n_mix) {
        let fam = if id.starts_with("mix") { "mixed-special" } else { "corner" };
        tuples.push((format!("slev-{id}"), t, fam));
    }
    for i in 0..n_real {
        tuples.push((format!("slev-real-{i}"), realistic_tuple(&mut rng), "realistic"));
    }
    for (id, t, fam) in tuples {
        if only.is_some_and(|o| o != id) {
            continue;
        }
        slev(run, &id, t, fam);
    }
    // ---- maps
    let mut maps = corner_maps();
    maps.extend(text_corner_maps());
    let n_maps = if thorough { 12_000 } else { 1_200 };
    for i in 0..n_maps {
        let spec = slider_map(&mut rng);
        maps.push(NestedMap { id: format!("nmap-rnd-{i}"), text: spec.render(), family: "random-sliders" });
    }
    for (mode, text) in resource_maps() {
        if mode == 0 || mode == 2 {
            let ks: &[usize] = if thorough { &[usize::MAX] } else { &[150] };
            for &k in ks {
                maps.push(NestedMap {
                    id: format!("nmap-res-{mode}-{}", if k == usize::MAX { "full".to_owned() } else { k.to_string() }),
                    text: if k == usize::MAX { text.clone() } else { truncate_objects(&text, k) },
                    family: "resource",
                });
            }
        }
    }
    for c in &maps {
        if only.is_some_and(|o| o != c.id) {
            continue;
        }
        map_lines(run, c);
    }
}
