//! C04 / C03 — performance END TO END (`PIPEP` lines): the real `<Mode>Performance::new(&map)` with
//! settings and builder inputs `.calculate()` on the MAP path, and the real `<Mode>GradualPerformance::nth(state, k)`
//! at a few indices, against `lean/RosuModel/Model/PipelinePerf.lean` (difficulty pipeline ∘ generate_state ∘
//! pp formulas, nothing abstract).  pp fields as bits; `compare: numeric` allows rel 1e-12 downstream of libm,
//! counts and the embedded difficulty attributes are exact.
//!
//! mania and taiko: from FILE BYTES (generated files of harness/src/pipe.rs incl. malformed ones, resource maps).
use rosu_pp::{
    any::HitResultPriority,
    mania::{ManiaGradualPerformance, ManiaPerformance, ManiaScoreState},
    taiko::{Taiko, TaikoGradualPerformance, TaikoPerformance, TaikoScoreState},
    osu::{verif as ov, Osu, OsuGradualPerformance, OsuPerformance, OsuScoreState},
    catch::{verif as cv, Catch, CatchGradualPerformance, CatchPerformance, CatchScoreState},
    model::{hit_object::HitObjectKind, mode::GameMode},
    Beatmap, Difficulty,
};

use crate::{
    common::{decode, guarded, hash64, random_settings, resource_maps, truncate_objects, ModsSpec, Run, Settings},
    mapgen::{random_map, GenCfg},
    rng::Rng,
    svops::hex,
};

fn showf(v: f64) -> String {
    if v.is_nan() {
        "nan".into()
    } else {
        format!("b:{:016x}", v.to_bits())
    }
}

fn opt(o: Option<u32>) -> String {
    o.map_or_else(|| "-".to_owned(), |v| v.to_string())
}

fn stored_acc(a: f64) -> f64 {
    a.clamp(0.0, 100.0) / 100.0
}

pub struct ManiaInputs {
    pub mods: u32,
    pub rate: Option<f64>,
    pub take: Option<u32>,
    pub lazer: bool,
    pub worst: bool,
    pub acc: Option<f64>,
    pub fields: [Option<u32>; 6],
    pub gstate: [u32; 6],
}

fn mania_difficulty(i: &ManiaInputs, with_take: bool) -> Difficulty {
    let mut d = Difficulty::new().mods(i.mods).lazer(i.lazer);
    if let Some(r) = i.rate {
        d = d.clock_rate(r);
    }
    if with_take {
        if let Some(t) = i.take {
            d = d.passed_objects(t);
        }
    }
    d
}

fn mania_show(pre: &str, p: &rosu_pp::mania::ManiaPerformanceAttributes) -> String {
    format!(
        "{pre}pp={} {pre}diff={} {pre}st={} {pre}mc={} {pre}no={} {pre}nh={}",
        showf(p.pp), showf(p.pp_difficulty), showf(p.difficulty.stars), p.difficulty.max_combo, p.difficulty.n_objects, p.difficulty.n_hold_notes
    )
}

pub fn mania_case(run: &mut Run, id: &str, bytes: &[u8], i: &ManiaInputs, rng: &mut Rng) {
    let hexb: String = if bytes.is_empty() { "-".to_owned() } else { bytes.iter().map(|b| format!("{b:02x}")).collect() };
    let repro = format!(
        "mods={} rate={:?} take={:?} lazer={} worst={} acc={:?} fields={:?} gstate={:?} bytes=<<{}>>",
        i.mods, i.rate, i.take, i.lazer, i.worst, i.acc, i.fields, i.gstate, String::from_utf8_lossy(bytes)
    );
    run.repro.insert(id.to_owned(), repro.clone());
    let map = guarded(|| Beatmap::from_bytes(bytes));
    let (resp, gidx): (String, Vec<usize>) = match map {
        Ok(Err(_)) => ("IOERR".to_owned(), vec![]),
        Err(e) => {
            run.fail("oracle:pipep-decode-panic", "", id, e, repro);
            return;
        }
        Ok(Ok(map)) => {
            if map.mode != GameMode::Mania {
                (format!("NOTMANIA {}", map.mode as u8), vec![])
            } else if map.hit_objects.iter().any(|h| matches!(h.kind, HitObjectKind::Slider(_))) {
                ("UNSUPPORTED".to_owned(), vec![])
            } else {
                let n = map.hit_objects.len();
                let build = |map: &Beatmap| {
                    let mut p = ManiaPerformance::from(map.clone())
                        .difficulty(mania_difficulty(i, true))
                        .hitresult_priority(if i.worst { HitResultPriority::WorstCase } else { HitResultPriority::BestCase });
                    if let Some(a) = i.acc {
                        p = p.accuracy(a);
                    }
                    let f = i.fields;
                    if let Some(v) = f[0] { p = p.n320(v); }
                    if let Some(v) = f[1] { p = p.n300(v); }
                    if let Some(v) = f[2] { p = p.n200(v); }
                    if let Some(v) = f[3] { p = p.n100(v); }
                    if let Some(v) = f[4] { p = p.n50(v); }
                    if let Some(v) = f[5] { p = p.misses(v); }
                    p
                };
                let one = match guarded(|| build(&map).calculate()) {
                    Ok(Ok(p)) => mania_show("", &p),
                    Ok(Err(_)) => "CONVERTERR".to_owned(),
                    Err(_) => "GSPANIC".to_owned(),
                };
                // the same from attributes (C04's statement, checked directly as well)
                if let Ok(Ok(a)) = guarded(|| mania_difficulty(i, true).calculate_for_mode::<rosu_pp::mania::Mania>(&map)) {
                    let via = guarded(|| {
                        let mut p = ManiaPerformance::from(a)
                            .difficulty(mania_difficulty(i, true))
                            .hitresult_priority(if i.worst { HitResultPriority::WorstCase } else { HitResultPriority::BestCase });
                        if let Some(acc) = i.acc {
                            p = p.accuracy(acc);
                        }
                        let f = i.fields;
                        if let Some(v) = f[0] { p = p.n320(v); }
                        if let Some(v) = f[1] { p = p.n300(v); }
                        if let Some(v) = f[2] { p = p.n200(v); }
                        if let Some(v) = f[3] { p = p.n100(v); }
                        if let Some(v) = f[4] { p = p.n50(v); }
                        if let Some(v) = f[5] { p = p.misses(v); }
                        p.calculate()
                    });
                    let via_s = match via {
                        Ok(Ok(p)) => mania_show("", &p),
                        Ok(Err(_)) => "CONVERTERR".to_owned(),
                        Err(_) => "GSPANIC".to_owned(),
                    };
                    if via_s != one {
                        run.fail("oracle:pipep-map-path-ne-attrs-path", "", id, format!("map path {one} attrs path {via_s}"), repro.clone());
                    }
                }
                let mut gidx: Vec<usize> = Vec::new();
                let mut g = String::new();
                if i.take.is_none() && n > 0 {
                    gidx = vec![1, n, 1 + rng.below(n as u64) as usize];
                    gidx.sort_unstable();
                    gidx.dedup();
                    let s = i.gstate;
                    let state = ManiaScoreState { n320: s[0], n300: s[1], n200: s[2], n100: s[3], n50: s[4], misses: s[5] };
                    for k in &gidx {
                        let (m2, st, k2) = (map.clone(), state.clone(), *k);
                        let d = mania_difficulty(i, false);
                        let v = guarded(move || ManiaGradualPerformance::new(d, &m2).ok().and_then(|mut gp| gp.nth(st, k2 - 1)));
                        match v {
                            Ok(Some(p)) => g.push_str(&format!(" {}", mania_show(&format!("g{k}."), &p))),
                            Ok(None) => g.push_str(&format!(" g{k}=none")),
                            Err(_) => g.push_str(&format!(" g{k}.GSPANIC")),
                        }
                    }
                }
                run.count(&format!("PIPEP-mania:objects:{}", match n { 0 => "0", 1..=10 => "1-10", _ => ">10" }));
                run.count(&format!("PIPEP-mania:outcome:{}", one.split('=').next().unwrap_or("")));
                (format!("{one}{g}"), gidx)
            }
        }
    };
    run.count("lines:PIPEP-mania");
    let f: Vec<String> = i.fields.iter().map(|x| opt(*x)).collect();
    let gs: Vec<String> = i.gstate.iter().map(u32::to_string).collect();
    run.line(
        id,
        format!(
            "PIPEP mania {hexb} {} {} {} {} {} {} {} {} {}",
            i.mods,
            i.rate.map_or("-".to_owned(), |r| hex(r.to_bits())),
            opt(i.take),
            u8::from(i.lazer),
            if i.worst { "W" } else { "B" },
            i.acc.map_or("-".to_owned(), |a| format!("{:016x}", stored_acc(a).to_bits())),
            f.join(" "),
            if gidx.is_empty() { "-".to_owned() } else { gidx.iter().map(|k| k.to_string()).collect::<Vec<_>>().join(",") },
            gs.join(",")
        ),
        resp,
    );
    run.eval(Some(id));
}

pub struct TaikoInputs {
    pub mods: u32,
    pub rate: Option<f64>,
    pub take: Option<u32>,
    pub worst: bool,
    pub acc: Option<f64>,
    pub fields: [Option<u32>; 4],
    pub gstate: [u32; 4],
}

fn taiko_difficulty(i: &TaikoInputs, with_take: bool) -> Difficulty {
    let mut d = Difficulty::new().mods(i.mods);
    if let Some(r) = i.rate {
        d = d.clock_rate(r);
    }
    if with_take {
        if let Some(t) = i.take {
            d = d.passed_objects(t);
        }
    }
    d
}

fn taiko_show(pre: &str, p: &rosu_pp::taiko::TaikoPerformanceAttributes) -> String {
    format!(
        "{pre}pp={} {pre}acc={} {pre}diff={} {pre}emc={} {pre}eur={} {pre}st={} {pre}msf={} {pre}mc={}",
        showf(p.pp), showf(p.pp_acc), showf(p.pp_difficulty), showf(p.effective_miss_count),
        p.estimated_unstable_rate.map_or_else(|| "none".to_owned(), showf),
        showf(p.difficulty.stars), showf(p.difficulty.mono_stamina_factor), p.difficulty.max_combo
    )
}

pub fn taiko_case(run: &mut Run, id: &str, bytes: &[u8], i: &TaikoInputs, rng: &mut Rng) {
    let hexb: String = if bytes.is_empty() { "-".to_owned() } else { bytes.iter().map(|b| format!("{b:02x}")).collect() };
    let repro = format!(
        "mods={} rate={:?} take={:?} worst={} acc={:?} fields={:?} gstate={:?} bytes=<<{}>>",
        i.mods, i.rate, i.take, i.worst, i.acc, i.fields, i.gstate, String::from_utf8_lossy(bytes)
    );
    run.repro.insert(id.to_owned(), repro.clone());
    let mut hw = 0.0f64;
    let (resp, gidx): (String, Vec<usize>) = match guarded(|| Beatmap::from_bytes(bytes)) {
        Ok(Err(_)) => ("IOERR".to_owned(), vec![]),
        Err(e) => {
            run.fail("oracle:pipep-decode-panic", "", id, e, repro);
            return;
        }
        Ok(Ok(map)) => {
            if map.mode != GameMode::Taiko {
                (format!("NOTTAIKO {}", map.mode as u8), vec![])
            } else {
                let Ok(Ok(da)) = guarded(|| taiko_difficulty(i, true).calculate_for_mode::<Taiko>(&map)) else {
                    run.count("PIPEP-taiko: difficulty failed (not compared)");
                    return;
                };
                hw = da.great_hit_window;
                let prio = if i.worst { HitResultPriority::WorstCase } else { HitResultPriority::BestCase };
                let build = |map: &Beatmap| {
                    let mut p = TaikoPerformance::from(map.clone()).difficulty(taiko_difficulty(i, true)).hitresult_priority(prio);
                    if let Some(a) = i.acc {
                        p = p.accuracy(a);
                    }
                    let f = i.fields;
                    if let Some(v) = f[0] { p = p.combo(v); }
                    if let Some(v) = f[1] { p = p.n300(v); }
                    if let Some(v) = f[2] { p = p.n100(v); }
                    if let Some(v) = f[3] { p = p.misses(v); }
                    p
                };
                let one = match guarded(|| build(&map).calculate()) {
                    Ok(Ok(p)) => taiko_show("", &p),
                    Ok(Err(_)) => "CONVERTERR".to_owned(),
                    Err(_) => "GSPANIC".to_owned(),
                };
                let n_hits = da.max_combo as usize;
                let mut gidx: Vec<usize> = Vec::new();
                let mut g = String::new();
                if i.take.is_none() && n_hits > 0 {
                    gidx = vec![1, n_hits, 1 + rng.below(n_hits as u64) as usize];
                    gidx.sort_unstable();
                    gidx.dedup();
                    let s = i.gstate;
                    let state = TaikoScoreState { max_combo: s[0], n300: s[1], n100: s[2], misses: s[3] };
                    for k in &gidx {
                        let (m2, st, k2) = (map.clone(), state.clone(), *k);
                        let d = taiko_difficulty(i, false);
                        let v = guarded(move || TaikoGradualPerformance::new(d, &m2).ok().and_then(|mut gp| gp.nth(st, k2 - 1)));
                        match v {
                            Ok(Some(p)) => g.push_str(&format!(" {}", taiko_show(&format!("g{k}."), &p))),
                            Ok(None) => g.push_str(&format!(" g{k}=none")),
                            Err(_) => g.push_str(&format!(" g{k}.GSPANIC")),
                        }
                    }
                }
                run.count(&format!("PIPEP-taiko:hits:{}", match n_hits { 0 => "0", 1..=10 => "1-10", _ => ">10" }));
                run.count(&format!("PIPEP-taiko:outcome:{}", one.split('=').next().unwrap_or("")));
                (format!("{one}{g}"), gidx)
            }
        }
    };
    run.count("lines:PIPEP-taiko");
    let f: Vec<String> = i.fields.iter().map(|x| opt(*x)).collect();
    let gs: Vec<String> = i.gstate.iter().map(u32::to_string).collect();
    run.line(
        id,
        format!(
            "PIPEP taiko {hexb} {} {} {} {} {} {} {} {} {}",
            i.mods,
            i.rate.map_or("-".to_owned(), |r| hex(r.to_bits())),
            opt(i.take),
            hex(hw.to_bits()),
            if i.worst { "W" } else { "B" },
            i.acc.map_or("-".to_owned(), |a| format!("{:016x}", stored_acc(a).to_bits())),
            f.join(" "),
            if gidx.is_empty() { "-".to_owned() } else { gidx.iter().map(|k| k.to_string()).collect::<Vec<_>>().join(",") },
            gs.join(",")
        ),
        resp,
    );
    run.eval(Some(id));
}

fn h32(x: f32) -> String {
    format!("{:x}", x.to_bits())
}

fn h64(x: f64) -> String {
    format!("{:x}", x.to_bits())
}

pub struct OsuInputs {
    pub worst: bool,
    pub acc: Option<f64>,
    pub fields: [Option<u32>; 8],
    pub gstate: [u32; 8],
}

fn osu_show(pre: &str, p: &rosu_pp::osu::OsuPerformanceAttributes) -> String {
    format!(
        "{pre}pp={} {pre}acc={} {pre}aim={} {pre}fl={} {pre}speed={} {pre}emc={} {pre}sd={} {pre}st={} {pre}mc={} {pre}ns={}",
        showf(p.pp), showf(p.pp_acc), showf(p.pp_aim), showf(p.pp_flashlight), showf(p.pp_speed), showf(p.effective_miss_count),
        p.speed_deviation.map_or_else(|| "none".to_owned(), showf), showf(p.difficulty.stars), p.difficulty.max_combo, p.difficulty.n_sliders
    )
}

pub fn osu_case(run: &mut Run, id: &str, map: &Beatmap, settings: &Settings, passed: Option<u32>, i: &OsuInputs, rng: &mut Rng, repro: &str) {
    if map.mode != GameMode::Osu {
        return;
    }
    let base = settings.build(0);
    let d = match passed {
        Some(k) => base.clone().passed_objects(k),
        None => base.clone(),
    };
    let (m2, d2) = (map.clone(), d.clone());
    let Ok(probe) = guarded(move || ov::conv_probe(&d2, &m2)) else { return };
    let m2 = map.clone();
    let Ok(sliders) = guarded(move || ov::slider_inputs(&m2, GameMode::Osu)) else { return };
    let (m3, d3) = (map.clone(), d.clone());
    let Ok(Ok(attrs)) = guarded(move || d3.calculate_for_mode::<Osu>(&m3)) else { return };
    let n = probe.raw.len();
    if n != sliders.len() {
        return;
    }
    let mut objs: Vec<String> = Vec::with_capacity(n);
    for (o, sl) in probe.raw.iter().zip(sliders.iter()) {
        match (o.kind, sl) {
            (0, _) => objs.push(format!("c:{}:{}:{}", h32(o.pos.x), h32(o.pos.y), h64(o.start_time))),
            (2, _) => objs.push(format!("p:{}:{}:{}:{}", h32(o.pos.x), h32(o.pos.y), h64(o.start_time), h64(o.duration))),
            (1, Some(si)) => {
                let ns = if o.nested.is_empty() {
                    "-".to_owned()
                } else {
                    o.nested.iter().map(|q| format!("{},{}", h32(q.pos.x), h32(q.pos.y))).collect::<Vec<_>>().join("/")
                };
                objs.push(format!(
                    "s:{}:{}:{}:{}:{}:{}:{}:{}:{}:{}:{}",
                    h32(o.pos.x), h32(o.pos.y), si.start_time.to_bits(), si.beat_len.to_bits(), si.slider_velocity.to_bits(),
                    u8::from(si.generate_ticks), si.dist.to_bits(), si.span_count, h32(o.lazy_end_pos.x), h32(o.lazy_end_pos.y), ns
                ));
            }
            _ => return,
        }
    }
    let snap = rosu_pp::verif::mods_snapshot(&settings.mods.build(0));
    let lazer = rosu_pp::verif::difficulty_getters(&d).lazer;
    let nsha = if lazer { snap.no_slider_head_acc_lazer } else { snap.no_slider_head_acc_stable };
    let bit = |b: bool| if b { '1' } else { '0' };
    // td rx ap fl hd
    let flags: String = [snap.flags[2], snap.flags[5], snap.flags[8], snap.flags[6], snap.flags[3]].iter().map(|b| bit(*b)).collect();
    // nf so bl tc lazer nsha
    let extra: String = [snap.flags[0], snap.flags[7], snap.flags[9], snap.flags[13], lazer, nsha].iter().map(|b| bit(*b)).collect();
    let prio = if i.worst { HitResultPriority::WorstCase } else { HitResultPriority::BestCase };
    let build = |map: &Beatmap| {
        let mut p = OsuPerformance::from(map.clone()).difficulty(d.clone()).hitresult_priority(prio);
        if let Some(a) = i.acc {
            p = p.accuracy(a);
        }
        let f = i.fields;
        if let Some(v) = f[0] { p = p.combo(v); }
        if let Some(v) = f[1] { p = p.large_tick_hits(v); }
        if let Some(v) = f[2] { p = p.small_tick_hits(v); }
        if let Some(v) = f[3] { p = p.slider_end_hits(v); }
        if let Some(v) = f[4] { p = p.n300(v); }
        if let Some(v) = f[5] { p = p.n100(v); }
        if let Some(v) = f[6] { p = p.n50(v); }
        if let Some(v) = f[7] { p = p.misses(v); }
        p
    };
    let one = match guarded(|| build(map).calculate()) {
        Ok(Ok(p)) => {
            // `attrs.max_combo - n_slider_ends_dropped` underflow for inconsistent provided slider ends cannot
            // happen here (generate_state clamps), so every line is compared
            osu_show("", &p)
        }
        Ok(Err(_)) => return,
        Err(_) => "GSPANIC".to_owned(),
    };
    let mut gidx: Vec<usize> = Vec::new();
    let mut g = String::new();
    if passed.is_none() && n > 0 {
        gidx = vec![1, n, 1 + rng.below(n as u64) as usize];
        gidx.sort_unstable();
        gidx.dedup();
        let s = i.gstate;
        let state = OsuScoreState {
            max_combo: s[0], large_tick_hits: s[1], small_tick_hits: s[2], slider_end_hits: s[3], n300: s[4], n100: s[5], n50: s[6], misses: s[7],
        };
        for k in &gidx {
            let (m2, st, k2, d2) = (map.clone(), state.clone(), *k, base.clone());
            let v = guarded(move || OsuGradualPerformance::new(d2, &m2).ok().and_then(|mut gp| gp.nth(st, k2 - 1)));
            match v {
                Ok(Some(p)) => g.push_str(&format!(" {}", osu_show(&format!("g{k}."), &p))),
                Ok(None) => g.push_str(&format!(" g{k}=none")),
                Err(_) => g.push_str(&format!(" g{k}.GSPANIC")),
            }
        }
    }
    let take = probe.take;
    run.count("lines:PIPEP-osu");
    run.count(&format!("PIPEP-osu:lazer={} nsha={}", u8::from(lazer), u8::from(nsha)));
    run.count(&format!("PIPEP-osu:objects:{}", match n { 0 => "0", 1..=10 => "1-10", _ => ">10" }));
    run.repro.insert(id.to_owned(), repro.to_owned());
    let f: Vec<String> = i.fields.iter().map(|x| opt(*x)).collect();
    let gs: Vec<String> = i.gstate.iter().map(u32::to_string).collect();
    run.line(
        id,
        format!(
            "PIPEP osu {extra} {} {} {} {} {} {} {} {} {} {} {} {} {} {} {} {} {} {} {} {} {}",
            if i.worst { "W" } else { "B" },
            i.acc.map_or("-".to_owned(), |a| format!("{:016x}", stored_acc(a).to_bits())),
            f.join(" "),
            gs.join(","),
            map.version,
            map.slider_multiplier.to_bits(),
            map.slider_tick_rate.to_bits(),
            probe.reflection,
            h64(probe.cs),
            h64(probe.ar_window),
            h64(attrs.ar),
            h64(attrs.hp),
            h64(attrs.great_hit_window),
            h64(attrs.ok_hit_window),
            h64(attrs.meh_hit_window),
            h64(probe.clock_rate),
            h64(f64::from(map.stack_leniency)),
            flags,
            if take == usize::MAX { "-".to_owned() } else { take.to_string() },
            if gidx.is_empty() { "-".to_owned() } else { gidx.iter().map(|k| k.to_string()).collect::<Vec<_>>().join(",") },
            if objs.is_empty() { "-".to_owned() } else { objs.join(";") }
        ),
        format!("{one}{g}"),
    );
    run.eval(Some(id));
}

pub struct CatchInputs {
    pub acc: Option<f64>,
    pub fields: [Option<u32>; 6],
    pub gstate: [u32; 6],
}

fn catch_show(pre: &str, p: &rosu_pp::catch::CatchPerformanceAttributes) -> String {
    format!(
        "{pre}pp={} {pre}st={} {pre}nf={} {pre}nd={} {pre}nt={}",
        showf(p.pp), showf(p.difficulty.stars), p.difficulty.n_fruits, p.difficulty.n_droplets, p.difficulty.n_tiny_droplets
    )
}

/// native catch maps and osu! -> catch converts; legacy mod bits only (NF / HD / FL reach the pp formula)
pub fn catch_case(run: &mut Run, id: &str, map: &Beatmap, bits: u32, rate: Option<f64>, passed: Option<u32>, i: &CatchInputs, rng: &mut Rng, repro: &str) {
    let mk = |with_take: bool| {
        let mut d = Difficulty::new().mods(bits);
        if let Some(r) = rate {
            d = d.clock_rate(r);
        }
        if with_take {
            if let Some(k) = passed {
                d = d.passed_objects(k);
            }
        }
        d
    };
    let d = mk(true);
    let (m2, d2) = (map.clone(), d.clone());
    let Ok(Ok(inputs)) = guarded(move || cv::pipeline_inputs(&d2, &m2)) else { return };
    let n_palp: usize = inputs.steps.iter().map(|s| s.palpables.len()).sum();
    let mut objs: Vec<String> = Vec::with_capacity(inputs.steps.len());
    for (s, sl) in inputs.steps.iter().zip(inputs.sliders.iter()) {
        match (s.kind, sl) {
            (0, _) => objs.push(format!("f:{}:{}", h32(s.x), h64(s.start_time))),
            (2, _) => objs.push(format!("b:{}", s.n_bananas)),
            (1, Some(si)) => {
                let xs: Vec<String> = s.nested.iter().filter(|q| q.0 != 2).map(|q| h32(q.1)).collect();
                objs.push(format!(
                    "s:{}:{}:{}:{}:{}:{}:{}:{}:{}",
                    h32(s.x), h32(s.last_control_x), si.start_time.to_bits(), si.beat_len.to_bits(), si.slider_velocity.to_bits(),
                    u8::from(si.generate_ticks), si.dist.to_bits(), si.span_count, if xs.is_empty() { "-".to_owned() } else { xs.join(",") }
                ));
            }
            _ => return,
        }
    }
    let build = |map: &Beatmap| {
        let Ok(mut p) = CatchPerformance::try_new(map.clone()).ok_or(()) else { return None };
        p = p.difficulty(d.clone());
        if let Some(a) = i.acc {
            p = p.accuracy(a);
        }
        let f = i.fields;
        if let Some(v) = f[0] { p = p.combo(v); }
        if let Some(v) = f[1] { p = p.fruits(v); }
        if let Some(v) = f[2] { p = p.droplets(v); }
        if let Some(v) = f[3] { p = p.tiny_droplets(v); }
        if let Some(v) = f[4] { p = p.tiny_droplet_misses(v); }
        if let Some(v) = f[5] { p = p.misses(v); }
        Some(p)
    };
    let one = match guarded(|| build(map).map(|p| p.calculate())) {
        Ok(Some(Ok(p))) => catch_show("", &p),
        Ok(_) => return,
        Err(_) => "GSPANIC".to_owned(),
    };
    // the catch score state's `total_hits()` is a plain u32 sum (round-4 observation): not compared when it wraps
    let tot: u64 = i.fields.iter().skip(1).map(|f| u64::from(f.unwrap_or(0))).sum();
    if tot > u64::from(u32::MAX) / 2 {
        run.count("PIPEP-catch: skipped, provided results near u32::MAX (total_hits() may wrap)");
        return;
    }
    let mut gidx: Vec<usize> = Vec::new();
    let mut g = String::new();
    if passed.is_none() && n_palp > 0 {
        gidx = vec![1, n_palp, 1 + rng.below(n_palp as u64) as usize];
        gidx.sort_unstable();
        gidx.dedup();
        let s = i.gstate;
        let state = CatchScoreState { max_combo: s[0], fruits: s[1], droplets: s[2], tiny_droplets: s[3], tiny_droplet_misses: s[4], misses: s[5] };
        for k in &gidx {
            let (m2, st, k2, d2) = (map.clone(), state.clone(), *k, mk(false));
            let v = guarded(move || CatchGradualPerformance::new(d2, &m2).ok().and_then(|mut gp| gp.nth(st, k2 - 1)));
            match v {
                Ok(Some(p)) => g.push_str(&format!(" {}", catch_show(&format!("g{k}."), &p))),
                Ok(None) => g.push_str(&format!(" g{k}=none")),
                Err(_) => g.push_str(&format!(" g{k}.GSPANIC")),
            }
        }
    }
    let _ = Catch;
    run.count("lines:PIPEP-catch");
    run.count(&format!("PIPEP-catch:convert={}", inputs.is_convert));
    run.repro.insert(id.to_owned(), repro.to_owned());
    let f: Vec<String> = i.fields.iter().map(|x| opt(*x)).collect();
    let gs: Vec<String> = i.gstate.iter().map(u32::to_string).collect();
    run.line(
        id,
        format!(
            "PIPEP catch {bits} {} {} {} {} {} {} {} {} {} {} {} {} {} {} {}",
            i.acc.map_or("-".to_owned(), |a| format!("{:016x}", stored_acc(a).to_bits())),
            f.join(" "),
            gs.join(","),
            inputs.version,
            inputs.slider_multiplier.to_bits(),
            inputs.slider_tick_rate.to_bits(),
            u8::from(inputs.hr_offsets),
            u8::from(inputs.reflect_horizontally),
            h32(inputs.cs),
            h64(inputs.ar),
            h64(inputs.clock_rate),
            u8::from(inputs.is_convert),
            if inputs.take == usize::MAX { "-".to_owned() } else { inputs.take.to_string() },
            if gidx.is_empty() { "-".to_owned() } else { gidx.iter().map(|k| k.to_string()).collect::<Vec<_>>().join(",") },
            if objs.is_empty() { "-".to_owned() } else { objs.join(";") }
        ),
        format!("{one}{g}"),
    );
    run.eval(Some(id));
}

fn pick_count(rng: &mut Rng, n: u32) -> u32 {
    match rng.below(8) {
        0 => 0,
        1 => n,
        2 => n + 1 + rng.below(3) as u32,
        3 => u32::MAX,
        _ => rng.below(u64::from(n) + 1) as u32,
    }
}

pub fn run(run: &mut Run, tier: &str, seed: u64, only: Option<&str>) {
    let thorough = tier == "thorough";
    let mut rng = Rng::new(seed ^ 0x91BE);
    let mut cases: Vec<(String, Vec<u8>)> = Vec::new();
    for (i, b) in [&b""[..], b"ab", b"[General]\nMode:3\n[HitObjects]\n256,192,0,1,0\n", b"[General]\nMode: 2\n[HitObjects]\n256,192,0,1,0\n"].iter().enumerate() {
        cases.push((format!("pipep-mania-tiny-{i}"), b.to_vec()));
    }
    let n_gen = if thorough { 2500 } else { 300 };
    for i in 0..n_gen {
        let n = *rng.pick(&[0usize, 1, 2, 3, 5, 9, 20, 45]);
        cases.push((format!("pipep-mania-gen-{i}"), crate::pipe::mania_file(&mut rng, n)));
    }
    for (mode, text) in resource_maps() {
        if mode == 3 {
            for k in if thorough { vec![10usize, 80, 400] } else { vec![30usize, 120] } {
                cases.push((format!("pipep-mania-res-first{k}"), crate::common::truncate_objects(&text, k).into_bytes()));
            }
        }
    }
    for (id, bytes) in cases {
        if only.is_some_and(|o| o != id && !o.starts_with(&format!("{id}#"))) {
            continue;
        }
        let n_lines = bytes.iter().filter(|b| **b == b'\n').count() as u32;
        for v in 0..(if thorough { 4 } else { 3 }) {
            let mut fields = [None; 6];
            for f in fields.iter_mut() {
                if rng.chance(1, 3) {
                    *f = Some(pick_count(&mut rng, n_lines));
                }
            }
            let inp = ManiaInputs {
                mods: *rng.pick(&[0u32, 1, 2, 3, 64, 256, 64 + 1, 2 + 256, 16, 1 << 30]),
                rate: if rng.chance(1, 4) { Some(*rng.pick(&[0.5, 0.75, 1.25, 1.5, 2.0])) } else { None },
                take: match rng.below(4) {
                    0 | 1 => None,
                    2 => Some(rng.below(u64::from(n_lines) + 3) as u32),
                    _ => Some(rng.below(4) as u32),
                },
                lazer: rng.chance(1, 2),
                worst: rng.chance(1, 2),
                acc: match if n_lines > 60 { 0 } else { rng.below(4) } {
                    0 => None,
                    1 => Some(*rng.pick(&[0.0, 100.0, 50.0, 99.99, 250.0, -1.0])),
                    _ => Some((rng.unit() * 10000.0).round() / 100.0),
                },
                fields,
                gstate: [0; 6].map(|_| pick_count(&mut rng, n_lines / 3 + 1)),
            };
            mania_case(run, &format!("{id}#{v}"), &bytes, &inp, &mut rng);
        }
    }
    // --- native taiko from file bytes
    let mut tcases: Vec<(String, Vec<u8>)> = Vec::new();
    for (i, b) in [&b""[..], b"[General]\nMode: 1\n", b"[General]\nMode:1\n[HitObjects]\n256,192,0,1,0\n256,192,200,1,8\n256,192,400,1,0\n256,192,600,1,2\n"].iter().enumerate() {
        tcases.push((format!("pipep-taiko-tiny-{i}"), b.to_vec()));
    }
    let n_tgen = if thorough { 2000 } else { 260 };
    for i in 0..n_tgen {
        let n = *rng.pick(&[0usize, 1, 2, 3, 4, 6, 12, 30, 70]);
        tcases.push((format!("pipep-taiko-gen-{i}"), crate::pipe::taiko_file(&mut rng, n)));
    }
    for (mode, text) in resource_maps() {
        if mode == 1 {
            for k in if thorough { vec![10usize, 80, 400] } else { vec![40usize, 150] } {
                tcases.push((format!("pipep-taiko-res-first{k}"), crate::common::truncate_objects(&text, k).into_bytes()));
            }
        }
    }
    for (id, bytes) in tcases {
        if only.is_some_and(|o| o != id && !o.starts_with(&format!("{id}#"))) {
            continue;
        }
        let n_lines = bytes.iter().filter(|b| **b == b'\n').count() as u32;
        for v in 0..(if thorough { 4 } else { 3 }) {
            let mut fields = [None; 4];
            for f in fields.iter_mut() {
                if rng.chance(1, 3) {
                    *f = Some(pick_count(&mut rng, n_lines));
                }
            }
            let inp = TaikoInputs {
                mods: *rng.pick(&[0u32, 2, 8, 1024, 8 + 1024, 64, 256, 64 + 2, 16, 128, 128 + 8]),
                rate: if rng.chance(1, 4) { Some(*rng.pick(&[0.5, 0.75, 1.25, 1.5, 2.0])) } else { None },
                take: match rng.below(4) {
                    0 | 1 => None,
                    2 => Some(rng.below(u64::from(n_lines) + 3) as u32),
                    _ => Some(rng.below(4) as u32),
                },
                worst: rng.chance(1, 2),
                acc: match rng.below(4) {
                    0 => None,
                    1 => Some(*rng.pick(&[0.0, 100.0, 50.0, 99.99, 250.0, -1.0])),
                    _ => Some((rng.unit() * 10000.0).round() / 100.0),
                },
                fields,
                gstate: [0; 4].map(|_| pick_count(&mut rng, n_lines / 2 + 1)),
            };
            taiko_case(run, &format!("{id}#{v}"), &bytes, &inp, &mut rng);
        }
    }
    // --- osu!standard from decoded objects
    let n_osu = if thorough { 4000 } else { 450 };
    for ci in 0..n_osu {
        let id = format!("pipep-osu-{ci}");
        if only.is_some_and(|o| o != id) {
            continue;
        }
        let mut rng = Rng::new(seed ^ hash64(&id));
        let mut cfg = GenCfg::small(0);
        cfg.max_objects = *rng.pick(&[0, 1, 2, 3, 6, 12, 24, 50]);
        cfg.weights = *rng.pick(&[[10, 0, 0, 0], [10, 6, 2, 1], [3, 10, 1, 0], [6, 6, 6, 0]]);
        cfg.max_slides = *rng.pick(&[1, 2, 5]);
        cfg.dense = rng.chance(1, 3);
        let mut spec = random_map(&mut rng, &cfg);
        spec.version = *rng.pick(&[14, 14, 128, 9, 7, 5]);
        let text = spec.render();
        let Ok(map) = decode(&text) else { continue };
        let settings = if rng.chance(1, 4) { Settings::default() } else { random_settings(&mut rng, 0) };
        let len = map.hit_objects.len() as u32;
        let passed = match rng.below(3) {
            0 | 1 => None,
            _ => Some(rng.below(u64::from(len) + 3) as u32),
        };
        let mut fields = [None; 8];
        for f in fields.iter_mut() {
            if rng.chance(1, 3) {
                *f = Some(pick_count(&mut rng, len * 2));
            }
        }
        let inp = OsuInputs {
            worst: rng.chance(1, 2),
            acc: match rng.below(4) {
                0 => None,
                1 => Some(*rng.pick(&[0.0, 100.0, 50.0, 99.99, 250.0, -1.0])),
                _ => Some((rng.unit() * 10000.0).round() / 100.0),
            },
            fields,
            gstate: [0; 8].map(|_| pick_count(&mut rng, len + 1)),
        };
        let repro = format!("{text}\n# settings: {} passed_objects: {passed:?} acc {:?} fields {:?} gstate {:?}", settings.describe(), inp.acc, inp.fields, inp.gstate);
        osu_case(run, &id, &map, &settings, passed, &inp, &mut rng, &repro);
    }
    for (ri, (mode, text)) in resource_maps().into_iter().enumerate() {
        if mode != 0 {
            continue;
        }
        let Ok(map) = decode(&truncate_objects(&text, 120)) else { continue };
        for (j, bits) in [0u32, 16 + 8, 64, 2 + 256, 1024 + 1, 4096, 128].into_iter().enumerate() {
            let id = format!("pipep-osu-res-{ri}-{j}");
            if only.is_some_and(|o| o != id) {
                continue;
            }
            let mut rng = Rng::new(seed ^ hash64(&id));
            let settings = Settings { mods: ModsSpec::Bits(bits), lazer: Some(j % 2 == 0), ..Settings::default() };
            let inp = OsuInputs {
                worst: j % 2 == 1,
                acc: Some(*rng.pick(&[97.5, 99.0, 88.8])),
                fields: [None, None, None, None, None, None, None, Some(j as u32)],
                gstate: [100, 5, 0, 20, 90, 8, 1, 2],
            };
            osu_case(run, &id, &map, &settings, if j == 3 { Some(60) } else { None }, &inp, &mut rng, &format!("resource map {ri} first 120 objects mods {bits}"));
        }
    }
    // --- osu!catch (native and osu! converts) from decoded objects
    let n_catch = if thorough { 3000 } else { 400 };
    for ci in 0..n_catch {
        let id = format!("pipep-catch-{ci}");
        if only.is_some_and(|o| o != id) {
            continue;
        }
        let mut rng = Rng::new(seed ^ hash64(&id));
        let mut cfg = GenCfg::small(if rng.chance(1, 2) { 2 } else { 0 });
        cfg.max_objects = *rng.pick(&[0, 1, 3, 6, 12, 24]);
        cfg.weights = *rng.pick(&[[10, 0, 0, 0], [10, 4, 2, 1], [4, 10, 2, 0]]);
        cfg.max_slides = *rng.pick(&[1, 2, 5]);
        let mut spec = random_map(&mut rng, &cfg);
        spec.version = *rng.pick(&[14, 14, 128, 9, 7]);
        let text = spec.render();
        let Ok(map) = decode(&text) else { continue };
        let bits = *rng.pick(&[0u32, 1, 8, 1024, 8 + 1024 + 1, 16, 64, 256, 2, 16 + 8]);
        let rate = if rng.chance(1, 5) { Some(*rng.pick(&[0.75, 1.25, 1.5])) } else { None };
        let len = map.hit_objects.len() as u32;
        let passed = match rng.below(3) {
            0 | 1 => None,
            _ => Some(rng.below(u64::from(len) * 3 + 3) as u32),
        };
        let mut fields = [None; 6];
        for f in fields.iter_mut() {
            if rng.chance(1, 3) {
                *f = Some(pick_count(&mut rng, len * 3));
            }
        }
        let inp = CatchInputs {
            acc: match rng.below(4) {
                0 => None,
                1 => Some(*rng.pick(&[0.0, 100.0, 50.0, 99.99])),
                _ => Some((rng.unit() * 10000.0).round() / 100.0),
            },
            fields,
            gstate: [0; 6].map(|_| rng.below(u64::from(len) * 2 + 2) as u32),
        };
        let repro = format!("{text}\n# mods {bits} rate {rate:?} passed_objects: {passed:?} acc {:?} fields {:?} gstate {:?}", inp.acc, inp.fields, inp.gstate);
        catch_case(run, &id, &map, bits, rate, passed, &inp, &mut rng, &repro);
    }
}
