//! Gradual difficulty vs. one-shot difficulty: shared by C02 (values), C14 (counts) and C15
//! (iterator protocol).

use rosu_pp::{
    any::DifficultyAttributes,
    catch::Catch,
    mania::Mania,
    model::mode::GameMode,
    osu::Osu,
    taiko::Taiko,
    Beatmap, Difficulty, GradualDifficulty,
};

use crate::{
    common::{
        decode, guarded, mode_idx, mode_name, mode_of, random_settings, resource_maps,
        truncate_objects, Run, Settings,
    },
    mapgen::{random_map, GenCfg, MapSpec, ObjKind, ObjSpec},
    rng::Rng,
};

/// Integer fields in the order the Lean model prints them.
pub fn ints(a: &DifficultyAttributes) -> String {
    match a {
        DifficultyAttributes::Osu(a) => format!(
            "{}:{}:{}:{}:{}",
            a.max_combo, a.n_circles, a.n_sliders, a.n_large_ticks, a.n_spinners
        ),
        DifficultyAttributes::Taiko(a) => format!("{}", a.max_combo),
        DifficultyAttributes::Catch(a) => {
            format!("{}:{}:{}", a.n_fruits, a.n_droplets, a.n_tiny_droplets)
        }
        DifficultyAttributes::Mania(a) => {
            format!("{}:{}:{}", a.max_combo, a.n_objects, a.n_hold_notes)
        }
    }
}

/// Bit patterns of every field that depends on which difficulty objects were processed.
pub fn skill_sig(a: &DifficultyAttributes) -> String {
    let v: Vec<f64> = match a {
        DifficultyAttributes::Osu(a) => vec![
            a.stars,
            a.aim,
            a.speed,
            a.flashlight,
            a.slider_factor,
            a.speed_note_count,
            a.aim_difficult_strain_count,
            a.speed_difficult_strain_count,
            a.aim_difficult_slider_count,
        ],
        DifficultyAttributes::Taiko(a) => vec![
            a.stars,
            a.stamina,
            a.rhythm,
            a.color,
            a.reading,
            a.mono_stamina_factor,
        ],
        DifficultyAttributes::Catch(a) => vec![a.stars],
        DifficultyAttributes::Mania(a) => vec![a.stars],
    };
    v.iter().map(|x| format!("{:x}", x.to_bits())).collect::<Vec<_>>().join(",")
}

pub fn dbg(a: &DifficultyAttributes) -> String {
    format!("{a:?}")
}

pub fn one_shot(d: &Difficulty, map: &Beatmap, mode: GameMode) -> Result<DifficultyAttributes, String> {
    let r = guarded(|| match mode {
        GameMode::Osu => d.calculate_for_mode::<Osu>(map).map(DifficultyAttributes::Osu),
        GameMode::Taiko => d.calculate_for_mode::<Taiko>(map).map(DifficultyAttributes::Taiko),
        GameMode::Catch => d.calculate_for_mode::<Catch>(map).map(DifficultyAttributes::Catch),
        GameMode::Mania => d.calculate_for_mode::<Mania>(map).map(DifficultyAttributes::Mania),
    });
    match r {
        Ok(Ok(a)) => Ok(a),
        Ok(Err(e)) => Err(format!("convert:{e:?}")),
        Err(p) => Err(format!("panic:{p}")),
    }
}

/// Everything the model needs to know about one (map, settings, target mode).
pub struct Prepared {
    pub mode: u8,
    pub map: Beatmap,
    pub settings: Settings,
    pub difficulty: Difficulty,
    /// descriptor string for the Lean driver
    pub objs: String,
    /// number of values a gradual calculator is expected to yield
    pub units: usize,
    /// one-shot results for `passed_objects(j)`, `j = 0..=units+1`
    pub table: Vec<DifficultyAttributes>,
    pub full: DifficultyAttributes,
    pub sig_ids: Vec<usize>,
    /// taiko: first two objects are both hits and there are at least three objects
    pub taiko_regular_start: bool,
    /// taiko: the last object is a hit
    pub taiko_trailing_hit: bool,
    /// mania: some object's gradual combo increment differs from the one-shot increment
    pub mania_inc_mismatch: bool,
    pub text: String,
}

impl Prepared {
    pub fn repro(&self) -> String {
        format!(
            "mode={} settings={} map=<<\n{}>>",
            mode_name(self.mode),
            self.settings.describe(),
            self.text
        )
    }

    pub fn sig_str(&self) -> String {
        if self.sig_ids.is_empty() {
            "-".into()
        } else {
            self.sig_ids.iter().map(|x| x.to_string()).collect::<Vec<_>>().join(",")
        }
    }

    pub fn sig_id_of(&self, a: &DifficultyAttributes) -> String {
        let s = skill_sig(a);
        for (j, t) in self.table.iter().enumerate() {
            if skill_sig(t) == s {
                return self.sig_ids[j].to_string();
            }
        }
        "X".into()
    }

    pub fn show_val(&self, a: &DifficultyAttributes) -> String {
        format!("S:{}:{}", ints(a), self.sig_id_of(a))
    }
}

fn dash(s: String) -> String {
    if s.is_empty() {
        "-".into()
    } else {
        s
    }
}

pub fn prepare(text: &str, mode: u8, settings: &Settings) -> Result<Prepared, String> {
    let map = decode(text)?;
    let gm = mode_of(mode);
    let difficulty = settings.build(mode);
    let mods = settings.mods.build(mode);
    let converted = match guarded(|| map.convert_ref(gm, &mods).map(|c| c.into_owned())) {
        Ok(Ok(m)) => m,
        Ok(Err(e)) => return Err(format!("convert:{e:?}")),
        Err(p) => return Err(format!("panic:{p}")),
    };
    let mut taiko_regular_start = true;
    let mut taiko_trailing_hit = true;
    let mut mania_inc_mismatch = false;
    let (objs, units) = match gm {
        GameMode::Osu => {
            let s = guarded(|| rosu_pp::osu::verif::object_summaries(&difficulty, &converted))
                .map_err(|p| format!("panic:{p}"))?;
            let n = s.len();
            (
                s.iter()
                    .map(|o| format!("{}:{}:{}", o.kind, o.large_ticks, o.nested))
                    .collect::<Vec<_>>()
                    .join(";"),
                n,
            )
        }
        GameMode::Taiko => {
            let hits: Vec<bool> = converted.hit_objects.iter().map(|h| h.is_circle()).collect();
            taiko_regular_start = hits.len() >= 3 && hits[0] && hits[1];
            taiko_trailing_hit = hits.last().copied().unwrap_or(true);
            let n = hits.iter().filter(|h| **h).count();
            (hits.iter().map(|h| if *h { '1' } else { '0' }).collect::<String>(), n)
        }
        GameMode::Catch => {
            let recs = guarded(|| rosu_pp::catch::verif::record_sequence(&difficulty, &converted))
                .map_err(|p| format!("panic:{p}"))?;
            let n = recs.len();
            (
                recs.iter()
                    .map(|(f, t)| format!("{}:{}", u8::from(*f), t))
                    .collect::<Vec<_>>()
                    .join(";"),
                n,
            )
        }
        GameMode::Mania => {
            let prepared = match guarded(|| rosu_pp::mania::verif::prepared_map(&difficulty, &map)) {
                Ok(Ok(m)) => m,
                Ok(Err(e)) => return Err(format!("convert:{e:?}")),
                Err(p) => return Err(format!("panic:{p}")),
            };
            let s = rosu_pp::mania::verif::object_summaries(&prepared);
            let cr = rosu_pp::verif::difficulty_clock_rate(&difficulty);
            let n = s.len();
            let mut parts = Vec::new();
            for (i, o) in s.iter().enumerate() {
                // before /repo 1b784a7 the gradual calculator recomputed the combo from times
                // (unscaled for the first object, `(t / clock_rate) * clock_rate` for later ones);
                // `mania_inc_mismatch` marks the inputs on which that differed (regression inputs,
                // counted in the evidence as `mania:inc-mismatch`)
                let (st, et) = if i == 0 {
                    (o.start_time, o.end_time)
                } else {
                    ((o.start_time / cr) * cr, (o.end_time / cr) * cr)
                };
                let inc_grad = if o.is_circle { 1 } else { 1 + ((et - st) / 100.0) as u32 };
                if inc_grad != o.combo {
                    mania_inc_mismatch = true;
                }
                parts.push(format!("{}:{}", u8::from(o.is_circle), o.combo));
            }
            (parts.join(";"), n)
        }
    };
    let mut table = Vec::new();
    for j in 0..=units + 1 {
        table.push(one_shot(&difficulty.clone().passed_objects(j as u32), &map, gm)?);
    }
    let full = one_shot(&difficulty, &map, gm)?;
    let sigs: Vec<String> = table.iter().map(skill_sig).collect();
    let sig_ids: Vec<usize> = sigs
        .iter()
        .map(|s| sigs.iter().position(|t| t == s).unwrap())
        .collect();
    Ok(Prepared {
        mode,
        map,
        settings: settings.clone(),
        difficulty,
        objs: dash(objs),
        units,
        table,
        full,
        sig_ids,
        taiko_regular_start,
        taiko_trailing_hit,
        mania_inc_mismatch,
        text: text.to_owned(),
    })
}

pub fn new_gradual(p: &Prepared) -> Result<GradualDifficulty, String> {
    match guarded(|| GradualDifficulty::new_with_mode(p.difficulty.clone(), &p.map, mode_of(p.mode))) {
        Ok(Ok(g)) => Ok(g),
        Ok(Err(e)) => Err(format!("convert:{e:?}")),
        Err(e) => Err(format!("panic:{e}")),
    }
}

#[derive(Clone, Copy, Debug, PartialEq)]
pub enum Op {
    Next,
    Nth(usize),
    Len,
}

pub fn ops_str(ops: &[Op]) -> String {
    dash(
        ops.iter()
            .map(|o| match o {
                Op::Next => "N".to_string(),
                Op::Nth(k) => format!("T{k}"),
                Op::Len => "L".to_string(),
            })
            .collect::<Vec<_>>()
            .join(","),
    )
}

/// Applies `ops` to a fresh gradual calculator; returns the per-op observation tokens (cut after
/// the first panic) and the values.
pub fn run_ops(p: &Prepared, ops: &[Op]) -> Result<(Vec<String>, usize), String> {
    let mut g = new_gradual(p)?;
    let mut toks = Vec::new();
    let mut done = 0;
    for op in ops {
        done += 1;
        match op {
            Op::Len => match guarded(|| g.len()) {
                Ok(l) if l > (1usize << 60) => toks.push("LU".into()),
                Ok(l) => toks.push(format!("L{l}")),
                Err(_) => toks.push("LU".into()),
            },
            Op::Next | Op::Nth(_) => {
                let r = guarded(|| match op {
                    Op::Next => g.next(),
                    Op::Nth(k) => g.nth(*k),
                    Op::Len => unreachable!(),
                });
                match r {
                    Ok(Some(a)) => toks.push(p.show_val(&a)),
                    Ok(None) => toks.push("N".into()),
                    Err(_) => {
                        toks.push("P".into());
                        break;
                    }
                }
            }
        }
    }
    Ok((toks, done))
}

/// C02: full `next` walk against the one-shot table, plus the model correspondence line.
pub fn check_walk(run: &mut Run, case_id: &str, p: &Prepared) {
    let mut g = match new_gradual(p) {
        Ok(g) => g,
        Err(e) => {
            run.fail("oracle:gradual-new", "", case_id, e, p.repro());
            return;
        }
    };
    let announced = guarded(|| g.len()).unwrap_or(usize::MAX);
    let mut values = Vec::new();
    let mut panicked = false;
    for _ in 0..p.units + 4 {
        match guarded(|| g.next()) {
            Ok(Some(a)) => values.push(a),
            Ok(None) => break,
            Err(e) => {
                run.fail("oracle:gradual-next-panic", "", case_id, e, p.repro());
                panicked = true;
                break;
            }
        }
    }
    if panicked {
        return;
    }
    // (the former class taiko-gradual-first-two-objects is fixed in /repo: a taiko gradual misbehaviour
    // on a map with an irregular start is an ordinary, unlisted failure again)
    let class = "";
    if announced != values.len() {
        run.fail(
            "oracle:announced-len",
            class,
            case_id,
            format!("len()={} but {} values", announced, values.len()),
            p.repro(),
        );
    }
    for (i, v) in values.iter().enumerate() {
        let j = i + 1;
        if j >= p.table.len() {
            run.fail(
                "oracle:too-many-values",
                class,
                case_id,
                format!("value {j} of {} units", p.units),
                p.repro(),
            );
            break;
        }
        let exp = &p.table[j];
        if dbg(v) != dbg(exp) {
            // (the former class mania-gradual-combo-roundtrip is fixed in /repo 1b784a7: a combo
            // difference on such inputs is an ordinary, unlisted failure again)
            let cls = class;
            run.fail(
                "oracle:value-ne-oneshot",
                cls,
                case_id,
                format!("i={j} gradual={} oneshot={}", dbg(v), dbg(exp)),
                p.repro(),
            );
            break;
        }
    }
    if let Some(last) = values.last() {
        if dbg(last) != dbg(&p.full) {
            // (the former class taiko-gradual-trailing-nonhit is fixed in /repo: a last value that differs
            // from the full calculation is an ordinary, unlisted failure again)
            run.fail(
                "oracle:last-ne-full",
                class,
                case_id,
                format!("last={} full={}", dbg(last), dbg(&p.full)),
                p.repro(),
            );
        }
    } else if p.units > 0 {
        run.fail(
            "oracle:no-values",
            class,
            case_id,
            format!("{} units but no value", p.units),
            p.repro(),
        );
    }
    // correspondence line: L, then (N, L) until two Nones
    let mut ops = vec![Op::Len];
    for _ in 0..p.units + 2 {
        ops.push(Op::Next);
        ops.push(Op::Len);
    }
    corr_line(run, case_id, p, &ops);
}

pub fn corr_line(run: &mut Run, case_id: &str, p: &Prepared, ops: &[Op]) {
    match run_ops(p, ops) {
        Ok((toks, done)) => {
            let line = format!(
                "GRAD {} {} {} {}",
                mode_name(p.mode),
                p.objs,
                p.sig_str(),
                ops_str(&ops[..done])
            );
            // the model stops printing after a panic as well: compare the common prefix
            run.line(case_id, line, toks.join(" "));
        }
        Err(e) => run.fail("oracle:gradual-new", "", case_id, e, p.repro()),
    }
}

/// C14: one-shot counts for every `n`, against the model and against direct map facts.
pub fn check_counts(run: &mut Run, case_id: &str, p: &Prepared) {
    let gm = mode_of(p.mode);
    for (j, a) in p.table.iter().enumerate() {
        run.line(
            case_id,
            format!("ONE {} {} {}", mode_name(p.mode), p.objs, j),
            ints(a),
        );
    }
    run.line(
        case_id,
        format!("ONE {} {} {}", mode_name(p.mode), p.objs, u32::MAX),
        ints(&p.full),
    );
    // n above the total gives the same attributes as not limiting at all
    for j in [p.units, p.units + 1] {
        // (taiko counts hits; since the fix of the trailing drum rolls / swells passed_objects(total hits)
        // is the full calculation too)
        if dbg(&p.table[j]) != dbg(&p.full) {
            if j == p.units && p.units == 0 {
                continue;
            }
            run.fail(
                "oracle:n-above-total",
                "",
                case_id,
                format!("n={j} {} vs full {}", dbg(&p.table[j]), dbg(&p.full)),
                p.repro(),
            );
        }
    }
    let big = one_shot(&p.difficulty.clone().passed_objects(u32::MAX), &p.map, gm);
    match big {
        Ok(b) if dbg(&b) == dbg(&p.full) => {}
        Ok(b) => run.fail(
            "oracle:n-above-total",
            "",
            case_id,
            format!("n=u32::MAX {} vs full {}", dbg(&b), dbg(&p.full)),
            p.repro(),
        ),
        Err(e) => run.fail("oracle:oneshot-error", "", case_id, e, p.repro()),
    }
    // direct facts
    let mods = p.settings.mods.build(p.mode);
    let conv = p.map.convert_ref(gm, &mods).map(|c| c.into_owned());
    let Ok(conv) = conv else { return };
    let is_conv_expected = p.map.mode != gm;
    let mut prev: Option<Vec<u32>> = None;
    for (j, a) in p.table.iter().enumerate() {
        let (fields, is_convert): (Vec<u32>, bool) = match a {
            DifficultyAttributes::Osu(a) => {
                let tot = conv.hit_objects.len();
                if (a.n_circles + a.n_sliders + a.n_spinners) as usize != j.min(tot) {
                    run.fail(
                        "oracle:osu-kinds-partition",
                        "",
                        case_id,
                        format!("n={j} total={tot} attrs={a:?}"),
                        p.repro(),
                    );
                }
                let k = j.min(tot);
                let c = conv.hit_objects[..k].iter().filter(|h| h.is_circle()).count() as u32;
                let s = conv.hit_objects[..k].iter().filter(|h| h.is_slider()).count() as u32;
                if a.n_circles != c || a.n_sliders != s {
                    run.fail(
                        "oracle:osu-kind-counts",
                        "",
                        case_id,
                        format!("n={j} circles {} vs {c}, sliders {} vs {s}", a.n_circles, a.n_sliders),
                        p.repro(),
                    );
                }
                (
                    vec![a.max_combo, a.n_circles, a.n_sliders, a.n_large_ticks, a.n_spinners],
                    is_conv_expected,
                )
            }
            DifficultyAttributes::Taiko(a) => {
                let hits = conv.hit_objects.iter().filter(|h| h.is_circle()).count();
                if a.max_combo as usize != j.min(hits) {
                    run.fail(
                        "oracle:taiko-combo-hits",
                        "",
                        case_id,
                        format!("n={j} hits={hits} max_combo={}", a.max_combo),
                        p.repro(),
                    );
                }
                (vec![a.max_combo], a.is_convert)
            }
            DifficultyAttributes::Catch(a) => {
                if j > p.units {
                    // fruits = circles + per slider (spans + 1)
                    let mut fruits = 0u32;
                    for h in &conv.hit_objects {
                        match &h.kind {
                            rosu_pp::model::hit_object::HitObjectKind::Circle => fruits += 1,
                            rosu_pp::model::hit_object::HitObjectKind::Slider(s) => {
                                fruits += s.span_count() as u32 + 1
                            }
                            _ => {}
                        }
                    }
                    if a.n_fruits != fruits {
                        run.fail(
                            "oracle:catch-fruits",
                            "",
                            case_id,
                            format!("fruits {} vs circles+heads+repeats+tails {fruits}", a.n_fruits),
                            p.repro(),
                        );
                    }
                }
                if (a.n_fruits + a.n_droplets) as usize != j.min(p.units) {
                    run.fail(
                        "oracle:catch-palpable-count",
                        "",
                        case_id,
                        format!("n={j} units={} attrs={a:?}", p.units),
                        p.repro(),
                    );
                }
                (vec![a.n_fruits, a.n_droplets, a.n_tiny_droplets], a.is_convert)
            }
            DifficultyAttributes::Mania(a) => {
                let Ok(prep) = rosu_pp::mania::verif::prepared_map(&p.difficulty, &p.map) else { return };
                let tot = prep.hit_objects.len();
                let k = j.min(tot);
                let holds = prep.hit_objects[..k].iter().filter(|h| !h.is_circle()).count() as u32;
                if a.n_objects as usize != k || a.n_hold_notes != holds {
                    run.fail(
                        "oracle:mania-objects-holds",
                        "",
                        case_id,
                        format!("n={j} total={tot} holds={holds} attrs={a:?}"),
                        p.repro(),
                    );
                }
                (vec![a.max_combo, a.n_objects, a.n_hold_notes], a.is_convert)
            }
        };
        if !matches!(a, DifficultyAttributes::Osu(_)) && is_convert != is_conv_expected {
            run.fail(
                "oracle:is-convert",
                "",
                case_id,
                format!("is_convert={is_convert} expected {is_conv_expected}"),
                p.repro(),
            );
        }
        if let Some(pv) = &prev {
            if fields.iter().zip(pv.iter()).any(|(a, b)| a < b) {
                run.fail(
                    "oracle:counts-not-monotone",
                    "",
                    case_id,
                    format!("n={j} {fields:?} after {pv:?}"),
                    p.repro(),
                );
            }
        }
        prev = Some(fields);
    }
}

fn remaining_values(p: &Prepared, prefix: &[Op]) -> Result<Vec<DifficultyAttributes>, String> {
    let mut g = new_gradual(p)?;
    apply_prefix(&mut g, prefix)?;
    let mut v = Vec::new();
    for _ in 0..p.units + 4 {
        match guarded(|| g.next()) {
            Ok(Some(a)) => v.push(a),
            Ok(None) => break,
            Err(e) => return Err(format!("panic:{e}")),
        }
    }
    Ok(v)
}

fn apply_prefix(g: &mut GradualDifficulty, prefix: &[Op]) -> Result<(), String> {
    for op in prefix {
        let r = guarded(|| match op {
            Op::Next => {
                g.next();
            }
            Op::Nth(k) => {
                g.nth(*k);
            }
            Op::Len => {
                let _ = g.len();
            }
        });
        r.map_err(|e| format!("panic:{e}"))?;
    }
    Ok(())
}

/// C15 oracle for one op sequence: after every prefix, `len()` equals the number of values
/// still to come; `nth(k)` equals the last of `k+1` `next` calls; exhausted stays `None`.
pub fn check_protocol(run: &mut Run, case_id: &str, p: &Prepared, ops: &[Op]) {
    for cut in 0..=ops.len() {
        let prefix = &ops[..cut];
        let rest = match remaining_values(p, prefix) {
            Ok(v) => v,
            Err(e) => {
                run.fail("oracle:protocol-panic", "", case_id, format!("{e} after {}", ops_str(prefix)), p.repro());
                return;
            }
        };
        // len == remaining
        let mut g = match new_gradual(p) {
            Ok(g) => g,
            Err(_) => return,
        };
        if apply_prefix(&mut g, prefix).is_err() {
            return;
        }
        let len = guarded(|| g.len());
        let hint = guarded(|| g.size_hint());
        let len_ok = matches!(len, Ok(l) if l == rest.len());
        let hint_ok = matches!(hint, Ok((lo, Some(hi))) if lo == rest.len() && hi == rest.len());
        if !len_ok || !hint_ok {
            run.fail(
                "oracle:len-ne-remaining",
                "",
                case_id,
                format!("after {}: len={:?} size_hint={:?} remaining={}", ops_str(prefix), len, hint, rest.len()),
                p.repro(),
            );
        }
        if cut == ops.len() {
            break;
        }
        if let Op::Nth(k) = ops[cut] {
            let got = guarded(|| g.nth(k));
            let expected = if k < rest.len() { Some(&rest[k]) } else { None };
            match got {
                Err(e) => run.fail(
                    "oracle:nth-panic",
                    "",
                    case_id,
                    format!("{e} at nth({k}) after {}", ops_str(prefix)),
                    p.repro(),
                ),
                Ok(got) => {
                    let same = match (&got, expected) {
                        (Some(a), Some(b)) => dbg(a) == dbg(b),
                        (None, None) => true,
                        _ => false,
                    };
                    if !same {
                        // (the former class gradual-nth-clamps-to-last is fixed in /repo: a clamping `nth`
                        // is an ordinary, unlisted failure again)
                        let cls = "";
                        run.fail(
                            "oracle:nth-ne-iterated-next",
                            cls,
                            case_id,
                            format!(
                                "nth({k}) after {} with {} remaining: got {:?}",
                                ops_str(prefix),
                                rest.len(),
                                got.as_ref().map(dbg)
                            ),
                            p.repro(),
                        );
                    }
                }
            }
        }
    }
    // exhausted stays None, without panicking
    if let Ok(mut g) = new_gradual(p) {
        let _ = guarded(|| g.nth(usize::MAX));
        for k in [0usize, 1, 7, usize::MAX] {
            let r1 = guarded(|| g.next());
            let r2 = guarded(|| g.nth(k));
            if !matches!(r1, Ok(None)) || !matches!(r2, Ok(None)) {
                run.fail(
                    "oracle:exhausted-not-none",
                    "",
                    case_id,
                    format!("after nth(MAX): next={:?} nth({k})={:?}", r1.as_ref().map(|o| o.is_some()), r2.as_ref().map(|o| o.is_some())),
                    p.repro(),
                );
                break;
            }
        }
    }
}

/// Standard adaptors must see the same sequence as plain iteration.
pub fn check_adaptors(run: &mut Run, case_id: &str, p: &Prepared) {
    let Ok(plain) = remaining_values(p, &[]) else { return };
    let plain: Vec<String> = plain.iter().map(dbg).collect();
    for k in 1..=4usize {
        // step_by
        if let Ok(g) = new_gradual(p) {
            let got = guarded(|| g.step_by(k).map(|a| dbg(&a)).collect::<Vec<_>>());
            let exp: Vec<String> = plain.iter().step_by(k).cloned().collect();
            match got {
                Ok(got) if got == exp => {}
                Ok(got) => {
                    let cls = "";
                    run.fail(
                        "oracle:step-by",
                        cls,
                        case_id,
                        format!("step_by({k}) yields {} items, plain iteration {}", got.len(), exp.len()),
                        p.repro(),
                    );
                }
                Err(e) => run.fail("oracle:adaptor-panic", "", case_id, e, p.repro()),
            }
        }
        // skip
        if let Ok(g) = new_gradual(p) {
            let got = guarded(|| g.skip(k).map(|a| dbg(&a)).collect::<Vec<_>>());
            let exp: Vec<String> = plain.iter().skip(k).cloned().collect();
            match got {
                Ok(got) if got == exp => {}
                Ok(got) => {
                    let cls = "";
                    run.fail(
                        "oracle:skip",
                        cls,
                        case_id,
                        format!("skip({k}) yields {} items, expected {}", got.len(), exp.len()),
                        p.repro(),
                    );
                }
                Err(e) => run.fail("oracle:adaptor-panic", "", case_id, e, p.repro()),
            }
        }
    }
    // collect / zip
    if let (Ok(a), Ok(b)) = (new_gradual(p), new_gradual(p)) {
        let got = guarded(|| a.zip(b).map(|(x, y)| (dbg(&x), dbg(&y))).collect::<Vec<_>>());
        match got {
            Ok(v) => {
                if v.len() != plain.len() || v.iter().zip(plain.iter()).any(|((x, y), z)| x != z || y != z) {
                    run.fail("oracle:zip", "", case_id, format!("zip yields {} of {}", v.len(), plain.len()), p.repro());
                }
            }
            Err(e) => run.fail("oracle:adaptor-panic", "", case_id, e, p.repro()),
        }
    }
}

/// Hand-made corner maps that always run first.
pub fn corner_specs(mode: u8) -> Vec<MapSpec> {
    let circle = |t: f64| ObjSpec { x: 100, y: 100, time: t, sound: 0, kind: ObjKind::Circle };
    let slider = |t: f64| ObjSpec {
        x: 100,
        y: 100,
        time: t,
        sound: 2,
        kind: ObjKind::Slider { curve: 'L', points: vec![(300, 100)], slides: 2, length: 200.0 },
    };
    let spinner = |t: f64| ObjSpec { x: 256, y: 192, time: t, sound: 0, kind: ObjKind::Spinner { end: t + 500.0 } };
    let hold = |t: f64, d: f64| ObjSpec { x: 64, y: 192, time: t, sound: 0, kind: ObjKind::Hold { end: t + d } };
    let mk = |objs: Vec<ObjSpec>| MapSpec { mode, cs: 4.0, objects: objs, ..Default::default() };
    let mut v = vec![mk(vec![]), mk(vec![circle(0.0)]), mk(vec![circle(0.0), circle(400.0)])];
    if mode == 3 {
        v.push(mk(vec![hold(0.0, 300.0)]));
        v.push(mk(vec![hold(0.0, 300.0), circle(100.0), hold(500.0, 100.0)]));
        v.push(mk(vec![circle(0.0), hold(200.0, 700.0), hold(300.0, 200.0), circle(1500.0)]));
    } else {
        v.push(mk(vec![spinner(0.0)]));
        v.push(mk(vec![slider(0.0)]));
        v.push(mk(vec![spinner(0.0), circle(800.0)]));
        v.push(mk(vec![circle(0.0), spinner(300.0), circle(1000.0), circle(1300.0)]));
        v.push(mk(vec![slider(0.0), slider(1500.0), circle(3000.0)]));
        v.push(mk(vec![circle(0.0), circle(300.0), circle(600.0), spinner(900.0)]));
        v.push(mk(vec![circle(0.0), circle(300.0), slider(600.0), circle(2000.0), circle(2300.0)]));
        v.push(mk(vec![spinner(0.0), spinner(700.0), spinner(1400.0)]));
    }
    v
}

pub struct CaseSource {
    pub id: String,
    pub text: String,
    pub mode: u8,
    pub settings: Settings,
}

/// Deterministic case list: corner maps (all modes, default and a few settings), random small
/// maps (native and converted), truncated resource maps.
pub fn cases(seed: u64, n_random: usize, resource_prefixes: &[usize]) -> Vec<CaseSource> {
    let mut rng = Rng::new(seed);
    let mut v = Vec::new();
    for mode in 0..4u8 {
        for (i, spec) in corner_specs(mode).into_iter().enumerate() {
            v.push(CaseSource {
                id: format!("corner-{}-{i}", mode_name(mode)),
                text: spec.render(),
                mode,
                settings: Settings::default(),
            });
            if i % 2 == 0 {
                let settings = random_settings(&mut rng, mode);
                v.push(CaseSource { id: format!("corner-{}-{i}-s", mode_name(mode)), text: spec.render(), mode, settings });
            }
        }
        // converts of the osu corner maps
        if mode != 0 {
            for (i, spec) in corner_specs(0).into_iter().enumerate() {
                v.push(CaseSource {
                    id: format!("corner-conv-{}-{i}", mode_name(mode)),
                    text: spec.render(),
                    mode,
                    settings: Settings::default(),
                });
            }
        }
    }
    for i in 0..n_random {
        let target = (rng.below(4)) as u8;
        let native = target == 0 || rng.chance(1, 2);
        let src_mode = if native { target } else { 0 };
        let mut cfg = GenCfg::small(src_mode);
        cfg.max_objects = *rng.pick(&[3, 5, 8, 12]);
        // a stream of medium-sized maps (the bookkeeping at sizes 0–12 is covered exhaustively by
        // the small stream; this one is for effects that need many objects / long histories)
        // (prepare() is quadratic in the map size: keep the stream thin)
        if i % 40 == 39 {
            cfg.max_objects = if n_random > 10_000 { *rng.pick(&[40, 120, 300]) } else { *rng.pick(&[40, 120]) };
            cfg.min_objects = cfg.max_objects / 2;
        }
        cfg.allow_negative_start = rng.chance(1, 5);
        cfg.long_gaps = rng.chance(1, 6);
        cfg.dense = rng.chance(1, 6);
        let spec = random_map(&mut rng, &cfg);
        let settings = if rng.chance(1, 3) { Settings::default() } else { random_settings(&mut rng, target) };
        v.push(CaseSource {
            id: format!("rnd-{i}-{}{}-{}", mode_name(target), if native { "" } else { "-conv" }, spec.kinds()),
            text: spec.render(),
            mode: target,
            settings,
        });
    }
    for (mode, text) in resource_maps() {
        for &k in resource_prefixes {
            for target in 0..4u8 {
                if target != mode && mode != 0 {
                    continue;
                }
                let settings = if rng.chance(1, 2) { Settings::default() } else { random_settings(&mut rng, target) };
                v.push(CaseSource {
                    id: format!("res-{}-to-{}-first{k}", mode_name(mode), mode_name(target)),
                    text: truncate_objects(&text, k),
                    mode: target,
                    settings,
                });
            }
        }
    }
    v
}

pub fn note_prepared(run: &mut Run, p: &Prepared) {
    run.count(&format!("mode:{}", mode_name(p.mode)));
    run.count(&format!("units:{}", match p.units { 0 => "0", 1 => "1", 2 => "2", 3..=5 => "3-5", 6..=12 => "6-12", _ => "13+" }));
    if mode_idx(p.map.mode) != p.mode {
        run.count("converted");
    }
    if p.mode == 1 && !p.taiko_regular_start {
        run.count("taiko:irregular-start");
    }
    if p.mode == 1 && !p.taiko_trailing_hit {
        run.count("taiko:trailing-nonhit");
    }
    if p.mode == 3 && p.mania_inc_mismatch {
        run.count("mania:inc-mismatch");
    }
    if p.settings != Settings::default() {
        run.count("non-default-settings");
    }
}

pub fn random_ops(rng: &mut Rng, len: usize) -> Vec<Op> {
    (0..len)
        .map(|_| match rng.below(10) {
            0..=3 => Op::Next,
            4 => Op::Len,
            5 => Op::Nth(0),
            6 => Op::Nth(rng.below(4) as usize),
            7 => Op::Nth(rng.below(12) as usize),
            8 => Op::Nth(*rng.pick(&[100usize, 1000, usize::MAX, usize::MAX - 1])),
            _ => Op::Nth(1),
        })
        .collect()
}

/// All op sequences of length `len` over a small alphabet.
pub fn exhaustive_ops(len: usize) -> Vec<Vec<Op>> {
    let alphabet = [Op::Next, Op::Nth(0), Op::Nth(1), Op::Nth(2), Op::Nth(3), Op::Nth(100), Op::Nth(usize::MAX), Op::Len];
    let mut out: Vec<Vec<Op>> = vec![vec![]];
    for _ in 0..len {
        let mut next = Vec::new();
        for s in &out {
            for a in alphabet {
                let mut t = s.clone();
                t.push(a);
                next.push(t);
            }
        }
        out = next;
    }
    out
}

// ---------------------------------------------------------------------------------------------
// View level (C02b): which difficulty-object list did each path build?
// ---------------------------------------------------------------------------------------------

fn view_bits(mode: u8, r: &crate::viewsink::ViewRecord) -> String {
    if mode == 1 || r.next0.is_empty() {
        format!("{}:-", r.list_len)
    } else {
        format!(
            "{}:{}",
            r.list_len,
            r.next0.iter().map(|b| if *b { '1' } else { '0' }).collect::<String>()
        )
    }
}

/// Number of objects the difficulty-object constructor iterates over (descriptor `n` of `GRADV`).
pub fn ctor_input_len(p: &Prepared) -> usize {
    match p.mode {
        1 => {
            if p.objs == "-" {
                0
            } else {
                p.objs.len()
            }
        }
        _ => p.units,
    }
}

/// C02 view level.  For a set of prefixes `take` the real one-shot calculation and the real gradual
/// constructor report — through the crate's view probe — the list of difficulty objects they built
/// (length; per object whether `next(0)` is `Some`).  (1) `GRADV` correspondence lines: the model
/// (`Model/GradualView.lean`) predicts both from `(mode, n, take)`.  (2) Direct oracle, independent
/// of the model: on the positions the one-shot calculation processes, everything an evaluator of
/// the mode may look at must be the same on both paths — osu!: `next(0)` availability; all modes:
/// the processed position exists in both lists.
pub fn check_views(run: &mut Run, case_id: &str, p: &Prepared) {
    let gm = mode_of(p.mode);
    let n = ctor_input_len(p);
    let (g, grecs) = crate::viewsink::observe(|| new_gradual(p));
    if g.is_err() {
        return; // reported by check_walk
    }
    let grecs: Vec<_> = grecs.into_iter().filter(|r| r.path == 1).collect();
    if grecs.len() != 1 || grecs[0].mode != p.mode {
        run.fail(
            "oracle:view-probe",
            "",
            case_id,
            format!("gradual constructor reported {} lists: {:?}", grecs.len(), grecs),
            p.repro(),
        );
        return;
    }
    let grad = &grecs[0];
    let mut takes: Vec<u64> = if p.units <= 12 {
        (0..=p.units as u64 + 1).collect()
    } else {
        let u = p.units as u64;
        vec![0, 1, 2, 3, u / 2, u - 1, u, u + 1]
    };
    takes.push(u64::from(u32::MAX));
    for take in takes {
        let d = p.difficulty.clone().passed_objects(take as u32);
        let (res, recs) = crate::viewsink::observe(|| one_shot(&d, &p.map, gm));
        if res.is_err() {
            continue; // reported elsewhere
        }
        let recs: Vec<_> = recs.into_iter().filter(|r| r.path == 0).collect();
        if recs.len() != 1 || recs[0].mode != p.mode {
            run.fail(
                "oracle:view-probe",
                "",
                case_id,
                format!("one-shot take={take} reported {} lists: {:?}", recs.len(), recs),
                p.repro(),
            );
            continue;
        }
        let one = &recs[0];
        run.line(
            case_id,
            format!("GRADV {} {} {}", mode_name(p.mode), n, take),
            format!("one={} grad={}", view_bits(p.mode, one), view_bits(p.mode, grad)),
        );
        run.count("gradv:lines");
        if one.list_len < grad.list_len {
            run.count("gradv:one-shot-list-shorter");
        }
        // positions the one-shot calculation processes (taiko: at most the list; the exact count
        // is tied by the GRAD / ONE lines)
        let processed = match p.mode {
            1 => 0,
            _ => (take as usize).min(n).saturating_sub(1),
        };
        if p.mode != 1 && processed > one.list_len.min(grad.list_len) {
            run.fail(
                "oracle:view-list-too-short",
                "",
                case_id,
                format!("take={take}: {processed} objects to process, lists {} / {}", one.list_len, grad.list_len),
                p.repro(),
            );
        }
        if p.mode == 0 && processed > 0 {
            // Speed reads `curr.next(0, ..)`
            let differs = (0..processed.min(one.next0.len()).min(grad.next0.len()))
                .find(|&i| one.next0[i] != grad.next0[i]);
            if grad.next0.get(processed - 1).copied().unwrap_or(false) {
                run.count("gradv:boundary-has-next");
            }
            if let Some(i) = differs {
                run.fail(
                    "oracle:view-lookahead-differs",
                    "",
                    case_id,
                    format!(
                        "passed_objects({take}): difficulty object {i} has next(0)={} on the one-shot path (list of {}) but {} on the gradual path (list of {})",
                        one.next0[i], one.list_len, grad.next0[i], grad.list_len
                    ),
                    p.repro(),
                );
            }
        }
    }
}

/// Maps built so that what lies just AFTER a prefix boundary matters to an evaluator that looks
/// ahead (and would matter to the others if they did): every prefix is compared by `check_walk`.
pub fn lookahead_cases(seed: u64, n_random: usize) -> Vec<CaseSource> {
    let mut rng = Rng::new(seed ^ 0x6c6f_6f6b_6168_6561);
    let mut v = Vec::new();
    let circle = |x: i32, y: i32, t: f64, sound: u8| ObjSpec { x, y, time: t, sound, kind: ObjKind::Circle };
    for i in 0..n_random {
        let mode = (i % 4) as u8;
        let n = 4 + rng.below(9) as usize;
        let mut objects = Vec::new();
        let mut t = 0.0f64;
        let mut spec = MapSpec { mode, ..Default::default() };
        match mode {
            0 => {
                // doubletappable pairs (delta below the great window) followed by a very different
                // delta: `Speed`'s doubletapness of the note at the boundary depends on the NEXT delta
                spec.od = *rng.pick(&[3.0f32, 4.0, 5.0]);
                spec.ar = 9.0;
                let short = *rng.pick(&[40.0f64, 50.0, 60.0, 70.0]);
                let long = *rng.pick(&[300.0f64, 440.0, 600.0]);
                let mut x = 100;
                for k in 0..n {
                    objects.push(circle(x, 150 + (k as i32 % 3) * 20, t, 0));
                    let pattern = rng.below(4);
                    t += if (k + pattern as usize) % 2 == 0 { short } else { long };
                    if rng.chance(1, 5) {
                        t += short;
                    }
                    x = 60 + rng.below(400) as i32;
                }
            }
            1 => {
                // colour and rhythm changes straddling every boundary: runs of dons / kats of
                // random lengths, interval changes in the middle of a run, a drum roll now and then
                let mut kat = false;
                let mut gap = *rng.pick(&[100.0f64, 125.0, 150.0, 250.0]);
                let mut k = 0;
                while k < n {
                    let run_len = 1 + rng.below(4) as usize;
                    for _ in 0..run_len {
                        if rng.chance(1, 9) {
                            objects.push(ObjSpec {
                                x: 100,
                                y: 100,
                                time: t,
                                sound: 0,
                                kind: ObjKind::Slider { curve: 'L', points: vec![(250, 100)], slides: 1, length: 150.0 },
                            });
                            t += 600.0;
                        } else {
                            objects.push(circle(256, 192, t, if kat { 8 } else { 0 }));
                            t += gap;
                        }
                        k += 1;
                        if rng.chance(1, 4) {
                            gap = *rng.pick(&[75.0f64, 100.0, 125.0, 150.0, 200.0, 250.0, 400.0]);
                        }
                    }
                    kat = !kat;
                }
            }
            2 => {
                // hyperdash pairs: far apart in x, close in time, alternating with walkable ones
                spec.cs = *rng.pick(&[3.0f32, 4.0, 5.0]);
                let mut left = true;
                for _ in 0..n {
                    let far = rng.chance(1, 2);
                    let x = if far {
                        if left { 30 } else { 480 }
                    } else {
                        200 + rng.below(100) as i32
                    };
                    left = !left;
                    if rng.chance(1, 6) {
                        objects.push(ObjSpec {
                            x,
                            y: 100,
                            time: t,
                            sound: 0,
                            kind: ObjKind::Slider { curve: 'L', points: vec![(x + 150, 100)], slides: 1, length: 140.0 },
                        });
                        t += 500.0;
                    } else {
                        objects.push(circle(x, 100, t, 0));
                        t += *rng.pick(&[90.0f64, 120.0, 180.0, 400.0]);
                    }
                }
            }
            _ => {
                // chords and overlapping holds straddling every boundary (4K)
                spec.cs = 4.0;
                let cols = [64, 192, 320, 448];
                for _ in 0..n {
                    let x = *rng.pick(&cols);
                    if rng.chance(1, 2) {
                        let dur = *rng.pick(&[100.0f64, 150.0, 300.0, 700.0]);
                        objects.push(ObjSpec { x, y: 192, time: t, sound: 0, kind: ObjKind::Hold { end: t + dur } });
                    } else {
                        objects.push(circle(x, 192, t, 0));
                    }
                    // same time (chord) one time in three
                    if !rng.chance(1, 3) {
                        t += *rng.pick(&[50.0f64, 100.0, 125.0, 250.0]);
                    }
                }
            }
        }
        spec.objects = objects;
        let settings = if rng.chance(1, 2) { Settings::default() } else { random_settings(&mut rng, mode) };
        v.push(CaseSource {
            id: format!("look-{i}-{}-{}", mode_name(mode), spec.kinds()),
            text: spec.render(),
            mode,
            settings,
        });
    }
    v
}
