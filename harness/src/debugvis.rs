//! Generic visitor over `Debug` output (shared by C09 and C06): every float / integer leaf of a
//! nested struct rendering with its field path, so that a newly added field is covered automatically.

#[derive(Clone, Debug, PartialEq)]
pub enum Leaf {
    Float(f64),
    Int(i128),
    Other(String),
}

/// Parses the `{:?}` rendering of a (nested) struct into `(path, leaf)` pairs.  Understands
/// `Name { a: v, .. }`, `Name(v, ..)`, `Some(v)`, `None`, `[v, ..]`, numbers, identifiers, strings.
pub fn debug_leaves(s: &str) -> Result<Vec<(String, Leaf)>, String> {
    struct P<'a> {
        b: &'a [u8],
        i: usize,
        out: Vec<(String, Leaf)>,
    }
    impl P<'_> {
        fn ws(&mut self) {
            while self.i < self.b.len() && (self.b[self.i] as char).is_whitespace() {
                self.i += 1;
            }
        }
        fn peek(&mut self) -> Option<u8> {
            self.ws();
            self.b.get(self.i).copied()
        }
        fn ident(&mut self) -> String {
            self.ws();
            let st = self.i;
            while self.i < self.b.len() {
                let c = self.b[self.i] as char;
                if c.is_alphanumeric() || c == '_' || c == '.' || c == '-' || c == '+' || c == ':' && self.b.get(self.i + 1) == Some(&b':') {
                    self.i += if c == ':' { 2 } else { 1 };
                } else {
                    break;
                }
            }
            String::from_utf8_lossy(&self.b[st..self.i]).into_owned()
        }
        fn value(&mut self, path: &str) -> Result<(), String> {
            match self.peek() {
                None => Err("unexpected end".into()),
                Some(b'[') => {
                    self.i += 1;
                    let mut k = 0;
                    loop {
                        if self.peek() == Some(b']') {
                            self.i += 1;
                            break;
                        }
                        self.value(&format!("{path}[{k}]"))?;
                        k += 1;
                        if self.peek() == Some(b',') {
                            self.i += 1;
                        }
                    }
                    Ok(())
                }
                Some(b'"') => {
                    self.i += 1;
                    let st = self.i;
                    while self.i < self.b.len() && self.b[self.i] != b'"' {
                        if self.b[self.i] == b'\\' {
                            self.i += 1;
                        }
                        self.i += 1;
                    }
                    let t = String::from_utf8_lossy(&self.b[st..self.i.min(self.b.len())]).into_owned();
                    self.i += 1;
                    self.out.push((path.to_owned(), Leaf::Other(t)));
                    Ok(())
                }
                Some(_) => {
                    let id = self.ident();
                    if id.is_empty() {
                        return Err(format!("unexpected byte at {}", self.i));
                    }
                    match self.peek() {
                        Some(b'{') => {
                            self.i += 1;
                            loop {
                                if self.peek() == Some(b'}') {
                                    self.i += 1;
                                    break;
                                }
                                let name = self.ident();
                                if name == ".." {
                                    continue;
                                }
                                if self.peek() != Some(b':') {
                                    return Err(format!("expected ':' after field {name}"));
                                }
                                self.i += 1;
                                let p = if path.is_empty() { name } else { format!("{path}.{name}") };
                                self.value(&p)?;
                                if self.peek() == Some(b',') {
                                    self.i += 1;
                                }
                            }
                            Ok(())
                        }
                        Some(b'(') => {
                            self.i += 1;
                            let mut k = 0;
                            loop {
                                if self.peek() == Some(b')') {
                                    self.i += 1;
                                    break;
                                }
                                let p = if id == "Some" { path.to_owned() } else { format!("{path}.{k}") };
                                self.value(&p)?;
                                k += 1;
                                if self.peek() == Some(b',') {
                                    self.i += 1;
                                }
                            }
                            Ok(())
                        }
                        _ => {
                            self.out.push((path.to_owned(), classify(&id)));
                            Ok(())
                        }
                    }
                }
            }
        }
    }
    fn classify(t: &str) -> Leaf {
        let floaty = t == "NaN" || t == "inf" || t == "-inf" || t.contains('.') || ((t.contains('e') || t.contains('E')) && t.chars().next().is_some_and(|c| c.is_ascii_digit() || c == '-'));
        if floaty {
            if let Ok(v) = t.parse::<f64>() {
                return Leaf::Float(v);
            }
        }
        if let Ok(v) = t.parse::<i128>() {
            return Leaf::Int(v);
        }
        Leaf::Other(t.to_owned())
    }
    let mut p = P { b: s.as_bytes(), i: 0, out: Vec::new() };
    p.value("")?;
    p.ws();
    if p.i != p.b.len() {
        return Err(format!("trailing input at {}", p.i));
    }
    Ok(p.out)
}

