//! C09 — `PP` correspondence lines: the four performance calculators' formulas
//! (`lean/RosuModel/Model/PerfCalc.lean`, evaluated by the driver with IEEE doubles) against the real
//! `OsuPerformance / TaikoPerformance / CatchPerformance / ManiaPerformance::calculate`.
//!
//! A request carries everything the formulas read: the attribute fields (f64 as bit patterns), the
//! score state *after* `generate_state()`, the mod accessors the calculator calls (as answered by the
//! real `GameMods`), `lazer` and `using_classic_slider_acc`.  The response is every f64 output field as
//! a bit pattern.  Two sources of requests:
//!   * real attributes: every (map, mode, settings, prefix, state) the C09 search evaluates
//!     (`c09.rs` calls `real_*`), i.e. the degenerate map families, random maps and /repo/resources;
//!   * synthetic attributes (`synthetic`): realistic ranges and degenerate corners (0 stars, 0 objects,
//!     huge / tiny / negative / NaN / infinite values, zero hit windows, n_sliders = 0,
//!     speed_note_count = 0, OD < 0, max_combo = 0, inconsistent counts) x states (SS, all misses,
//!     zero hits, one kind only, random) x mod flags x lazer/classic.
//! Also `PP erf` / `PP erfinv` (special functions through the verif_special hook) and `PP lit`
//! (decimal literal -> f64 as Rust's parser rounds it, against the driver's exact rounding).

use std::collections::BTreeMap;

use rosu_pp::{
    catch::{CatchDifficultyAttributes, CatchPerformance, CatchPerformanceAttributes, CatchScoreState},
    mania::{ManiaDifficultyAttributes, ManiaPerformance, ManiaPerformanceAttributes, ManiaScoreState},
    osu::{OsuDifficultyAttributes, OsuPerformance, OsuPerformanceAttributes, OsuScoreState},
    taiko::{TaikoDifficultyAttributes, TaikoPerformance, TaikoPerformanceAttributes, TaikoScoreState},
};

use crate::{
    common::{guarded, hash64, LazerTag, ModsSpec, Run, Settings},
    rng::Rng,
};

pub fn hexf(v: f64) -> String {
    format!("{:016x}", v.to_bits())
}

pub fn showf(v: f64) -> String {
    if v.is_nan() {
        "nan".into()
    } else {
        format!("b:{:016x}", v.to_bits())
    }
}

pub fn showopt(v: Option<f64>) -> String {
    v.map_or_else(|| "none".into(), showf)
}

fn b(x: bool) -> char {
    if x {
        '1'
    } else {
        '0'
    }
}

fn fin_opt(v: Option<f64>) -> bool {
    v.is_none_or(f64::is_finite)
}

/// flags = nf ez td hd hr rx fl so ap bl cl invert ho tc (verif::mods_snapshot)
pub fn osu_req(a: &OsuDifficultyAttributes, flags: &[bool; 14], lazer: bool, classic: bool, s: &OsuScoreState) -> String {
    let fs = [
        a.aim, a.aim_difficult_slider_count, a.speed, a.flashlight, a.slider_factor, a.speed_note_count,
        a.aim_difficult_strain_count, a.speed_difficult_strain_count, a.ar, a.great_hit_window, a.ok_hit_window,
        a.meh_hit_window, a.hp,
    ];
    let fs: Vec<String> = fs.iter().map(|v| hexf(*v)).collect();
    // nf so rx ap bl hd tc fl
    let ms: String = [flags[0], flags[7], flags[5], flags[8], flags[9], flags[3], flags[13], flags[6]].iter().map(|x| b(*x)).collect();
    format!(
        "PP osu {} {},{},{},{},{} {},{},{},{},{},{},{},{} {} {}{}",
        fs.join(","),
        a.n_circles, a.n_sliders, a.n_large_ticks, a.n_spinners, a.max_combo,
        s.max_combo, s.large_tick_hits, s.small_tick_hits, s.slider_end_hits, s.n300, s.n100, s.n50, s.misses,
        ms, b(lazer), b(classic)
    )
}

pub fn osu_obs(p: &OsuPerformanceAttributes) -> String {
    let fin = [p.pp, p.pp_acc, p.pp_aim, p.pp_flashlight, p.pp_speed, p.effective_miss_count].iter().all(|v| v.is_finite()) && fin_opt(p.speed_deviation);
    format!(
        "pp={} acc={} aim={} fl={} speed={} emc={} sd={} fin={}",
        showf(p.pp), showf(p.pp_acc), showf(p.pp_aim), showf(p.pp_flashlight), showf(p.pp_speed), showf(p.effective_miss_count),
        showopt(p.speed_deviation), b(fin)
    )
}

pub fn taiko_req(a: &TaikoDifficultyAttributes, flags: &[bool; 14], s: &TaikoScoreState) -> String {
    // hd ez fl
    let ms: String = [flags[3], flags[1], flags[6]].iter().map(|x| b(*x)).collect();
    format!(
        "PP taiko {},{},{} {},{} {},{},{},{} {}",
        hexf(a.great_hit_window), hexf(a.mono_stamina_factor), hexf(a.stars),
        a.max_combo, u8::from(a.is_convert),
        s.max_combo, s.n300, s.n100, s.misses, ms
    )
}

pub fn taiko_obs(p: &TaikoPerformanceAttributes) -> String {
    let fin = [p.pp, p.pp_acc, p.pp_difficulty, p.effective_miss_count].iter().all(|v| v.is_finite()) && fin_opt(p.estimated_unstable_rate);
    format!(
        "pp={} acc={} diff={} emc={} eur={} fin={}",
        showf(p.pp), showf(p.pp_acc), showf(p.pp_difficulty), showf(p.effective_miss_count), showopt(p.estimated_unstable_rate), b(fin)
    )
}

pub fn catch_req(a: &CatchDifficultyAttributes, flags: &[bool; 14], s: &CatchScoreState) -> String {
    // hd fl nf
    let ms: String = [flags[3], flags[6], flags[0]].iter().map(|x| b(*x)).collect();
    format!(
        "PP catch {},{} {},{} {},{},{},{},{},{} {}",
        hexf(a.stars), hexf(a.ar), a.n_fruits, a.n_droplets,
        s.max_combo, s.fruits, s.droplets, s.tiny_droplets, s.tiny_droplet_misses, s.misses, ms
    )
}

pub fn catch_obs(p: &CatchPerformanceAttributes) -> String {
    format!("pp={} fin={}", showf(p.pp), b(p.pp.is_finite()))
}

pub fn mania_req(a: &ManiaDifficultyAttributes, flags: &[bool; 14], s: &ManiaScoreState) -> String {
    // nf ez
    let ms: String = [flags[0], flags[1]].iter().map(|x| b(*x)).collect();
    format!("PP mania {} {},{},{},{},{},{} {}", hexf(a.stars), s.n320, s.n300, s.n200, s.n100, s.n50, s.misses, ms)
}

pub fn mania_obs(p: &ManiaPerformanceAttributes) -> String {
    format!("pp={} diff={} fin={}", showf(p.pp), showf(p.pp_difficulty), b(p.pp.is_finite() && p.pp_difficulty.is_finite()))
}

/// per-kind budget + de-duplication of `PP` lines
pub struct PpLines {
    seen: std::collections::BTreeSet<u64>,
    budget: BTreeMap<String, usize>,
}

impl PpLines {
    pub fn new(thorough: bool, real: bool, shards: usize) -> Self {
        let k = if thorough { 5 } else { 1 };
        let mut budget = BTreeMap::new();
        let table: &[(&str, usize)] = if real {
            &[("osu", 9000), ("taiko", 5000), ("catch", 4000), ("mania", 3000)]
        } else {
            &[("osu", 14_000), ("taiko", 8000), ("catch", 5000), ("mania", 3000), ("erf", 3000), ("erfinv", 3000), ("lit", 3000)]
        };
        for (kind, n) in table {
            budget.insert((*kind).to_owned(), n * k / shards.max(1));
        }
        PpLines { seen: std::collections::BTreeSet::new(), budget }
    }

    pub fn has_budget(&self, kind: &str) -> bool {
        self.budget.get(kind).copied().unwrap_or(0) > 0
    }

    pub fn push(&mut self, run: &mut Run, id: &str, tag: &str, req: String, obs: String) {
        let kind = req.split(' ').nth(1).unwrap_or("").to_owned();
        let Some(left) = self.budget.get_mut(&kind) else { return };
        if *left == 0 {
            return;
        }
        if self.seen.insert(hash64(&req)) {
            *left -= 1;
            run.count(&format!("lines:PP-{kind}({tag})"));
            if obs.ends_with("fin=0") {
                run.count(&format!("PP-{kind}({tag}): some output not finite"));
            }
            run.line(id, req, obs);
        }
    }
}

// ---------------------------------------------------------------------------------------------
// synthetic attributes
// ---------------------------------------------------------------------------------------------

const CORNERS: &[f64] = &[0.0, -0.0, 5e-324, 1e-300, 1e-9, 0.5, 1.0, 1.0000001, 3.0, 1e3, 1e6, 1e15, 1e100, 1e300, -1e-9, -1.0, -1e6, f64::NAN, f64::INFINITY, f64::NEG_INFINITY];

fn corner(rng: &mut Rng) -> f64 {
    *rng.pick(CORNERS)
}

fn uni(rng: &mut Rng, lo: f64, hi: f64) -> f64 {
    lo + (hi - lo) * rng.unit()
}

fn count(rng: &mut Rng, max: u32) -> u32 {
    match rng.below(8) {
        0 => 0,
        1 => 1,
        2 => rng.below(8) as u32,
        3 => max,
        _ => rng.below(u64::from(max) + 1) as u32,
    }
}

fn mods_pool(mode: u8, rng: &mut Rng) -> Settings {
    let lazer = rng.chance(1, 2);
    // legacy bits: NF 1, EZ 2, TD 4, HD 8, HR 16, DT 64, RX 128, HT 256, FL 1024, SO 4096, AP 8192
    let mods = if rng.chance(2, 3) {
        let mut bits = 0u32;
        for (bit, num, den) in [(1u32, 1u64, 5u64), (2, 1, 6), (4, 1, 12), (8, 1, 3), (16, 1, 6), (64, 1, 6), (128, 1, 8), (256, 1, 12), (1024, 1, 3), (4096, 1, 5), (8192, 1, 10)] {
            if rng.chance(num, den) {
                bits |= bit;
            }
        }
        ModsSpec::Bits(bits)
    } else {
        let mut tags = Vec::new();
        for (acr, num, den) in [("BL", 1u64, 3u64), ("TC", 1, 3), ("HD", 1, 3), ("FL", 1, 3), ("NF", 1, 5), ("SO", 1, 5), ("EZ", 1, 6), ("RX", 1, 8), ("AP", 1, 10)] {
            if rng.chance(num, den) && !(mode != 0 && matches!(acr, "BL" | "TC" | "SO" | "AP")) {
                tags.push(LazerTag::Acronym(acr));
            }
        }
        if rng.chance(1, 4) {
            tags.push(LazerTag::Classic);
        }
        ModsSpec::Lazer(tags)
    };
    Settings { mods, lazer: Some(lazer), ..Default::default() }
}

fn snapshot(settings: &Settings, mode: u8) -> ([bool; 14], bool) {
    let snap = rosu_pp::verif::mods_snapshot(&settings.mods.build(mode));
    let lazer = settings.lazer.unwrap_or(true);
    (snap.flags, if lazer { snap.no_slider_head_acc_lazer } else { snap.no_slider_head_acc_stable })
}

/// hit results adding up to (at most) `n`: SS, all of one kind, all misses, zero, single, random
fn split(rng: &mut Rng, n: u32, k: usize) -> Vec<u32> {
    let mut v = vec![0u32; k];
    match rng.below(10) {
        0 => v[0] = n,
        1 => v[k - 1] = n,
        2 => {}
        3 => v[rng.below(k as u64) as usize] = n,
        4 => {
            v[0] = n.saturating_sub(1);
            v[k - 1] = n.min(1);
        }
        5 => v[rng.below(k as u64) as usize] = n.min(1),
        _ => {
            // mostly-great distribution with a few of everything else
            let mut left = n;
            for slot in v.iter_mut().skip(1) {
                let m = if rng.chance(1, 3) { left } else { left / 20 + 1 };
                let x = rng.below(u64::from(m.min(left)) + 1) as u32;
                *slot = x;
                left -= x;
            }
            v[0] = left;
        }
    }
    v
}

fn synth_osu(run: &mut Run, lines: &mut PpLines, rng: &mut Rng, i: usize) {
    let settings = mods_pool(0, rng);
    let (flags, classic) = snapshot(&settings, 0);
    let lazer = settings.lazer.unwrap_or(true);
    let realistic = rng.chance(1, 2);
    let mut a = OsuDifficultyAttributes::default();
    a.n_circles = count(rng, 3000);
    a.n_sliders = count(rng, 1500);
    a.n_spinners = count(rng, 5);
    a.n_large_ticks = count(rng, 2 * a.n_sliders + 3);
    a.max_combo = a.n_circles + 2 * a.n_sliders + a.n_large_ticks + a.n_spinners;
    let n = a.n_circles + a.n_sliders + a.n_spinners;
    a.aim = uni(rng, 0.0, 8.0);
    a.speed = uni(rng, 0.0, 6.0);
    a.flashlight = uni(rng, 0.0, 6.0);
    a.slider_factor = uni(rng, 0.4, 1.0);
    a.aim_difficult_slider_count = uni(rng, 0.0, f64::from(a.n_sliders));
    a.speed_note_count = uni(rng, 0.0, f64::from(n));
    a.aim_difficult_strain_count = uni(rng, 1.1, 400.0);
    a.speed_difficult_strain_count = uni(rng, 1.1, 400.0);
    a.ar = uni(rng, 0.0, 11.0);
    let od = uni(rng, 0.0, 11.0);
    let rate = *rng.pick(&[0.5, 0.75, 1.0, 1.0, 1.5, 2.0]);
    a.great_hit_window = (80.0 - 6.0 * od) / rate;
    a.ok_hit_window = (140.0 - 8.0 * od) / rate;
    a.meh_hit_window = (200.0 - 10.0 * od) / rate;
    a.hp = uni(rng, 0.0, 10.0);
    a.stars = uni(rng, 0.0, 10.0);
    let mut tag = "realistic";
    if !realistic {
        tag = "corner";
        // 1-3 float fields replaced by corner values, sometimes inconsistent counts
        for _ in 0..=rng.below(3) {
            let v = corner(rng);
            match rng.below(13) {
                0 => a.aim = v,
                1 => a.aim_difficult_slider_count = v,
                2 => a.speed = v,
                3 => a.flashlight = v,
                4 => a.slider_factor = v,
                5 => a.speed_note_count = v,
                6 => a.aim_difficult_strain_count = v,
                7 => a.speed_difficult_strain_count = v,
                8 => a.ar = v,
                9 => a.great_hit_window = v,
                10 => a.ok_hit_window = v,
                11 => a.meh_hit_window = v,
                _ => a.hp = v,
            }
        }
        match rng.below(8) {
            0 => a.max_combo = 0,
            1 => a.max_combo = n / 2,
            2 => {
                // OD above 13.33 / below 0: negative and very large windows
                let od = *rng.pick(&[-5.0, -0.5, 13.0, 13.33, 13.4, 14.5, 20.0]);
                a.great_hit_window = 80.0 - 6.0 * od;
                a.ok_hit_window = 140.0 - 8.0 * od;
                a.meh_hit_window = 200.0 - 10.0 * od;
            }
            3 => {
                a.great_hit_window = 0.0;
                a.ok_hit_window = if rng.chance(1, 2) { 0.0 } else { a.ok_hit_window };
                a.meh_hit_window = if rng.chance(1, 2) { 0.0 } else { a.meh_hit_window };
            }
            4 => a.speed_note_count = 0.0,
            5 => a.speed_note_count = f64::from(n) * 3.0,
            6 => a.aim_difficult_strain_count = *rng.pick(&[0.0, 0.3, 0.999, 1.0, 1.0000001]),
            _ => {}
        }
    }
    // the state a caller provides; `generate_state` makes it consistent with the attributes
    let hs = split(rng, n, 4);
    let given = OsuScoreState {
        max_combo: count(rng, a.max_combo),
        large_tick_hits: count(rng, a.n_large_ticks + a.n_sliders),
        small_tick_hits: count(rng, a.n_sliders),
        slider_end_hits: count(rng, a.n_sliders),
        n300: hs[0],
        n100: hs[1],
        n50: hs[2],
        misses: hs[3],
    };
    let mut d = settings.build(0);
    if rng.chance(1, 12) {
        d = d.passed_objects(*rng.pick(&[0u32, 1, 2]));
    }
    let mut perf = OsuPerformance::new(a.clone()).difficulty(d).state(given);
    let res = guarded(|| {
        let st = perf.generate_state();
        (st, perf.calculate())
    });
    let id = format!("pp-osu-{tag}-{i}");
    match res {
        Ok((Ok(state), Ok(pa))) => {
            run.eval(Some(&id));
            if state.n300 + state.n100 + state.n50 + state.misses == 0 {
                run.count("PP-osu(synthetic): zero-hit states");
            }
            // `attrs.max_combo - n_slider_ends_dropped` (u32) underflows when the attribute counts are
            // inconsistent (max_combo < dropped slider ends): a debug build panics, a release build wraps.
            // Not compared (the model's `…Dom` flags it); counted.
            if a.n_sliders > 0 && !classic && a.n_sliders - state.slider_end_hits.min(a.n_sliders) > a.max_combo {
                run.count("PP-osu(synthetic): skipped, inconsistent attributes (max_combo < dropped slider ends: u32 underflow)");
                return;
            }
            lines.push(run, &id, tag, osu_req(&a, &flags, lazer, classic, &state), osu_obs(&pa));
        }
        Ok(_) => run.count("PP-osu: convert error"),
        Err(_) => run.count("PP-osu(synthetic): panic (not compared; C05)"),
    }
}

fn synth_taiko(run: &mut Run, lines: &mut PpLines, rng: &mut Rng, i: usize) {
    let settings = mods_pool(1, rng);
    let (flags, _) = snapshot(&settings, 1);
    let mut a = TaikoDifficultyAttributes::default();
    a.max_combo = count(rng, 4000);
    a.is_convert = rng.chance(1, 3);
    a.stars = uni(rng, 0.0, 11.0);
    a.mono_stamina_factor = if rng.chance(1, 2) { rng.unit().powi(5) } else { uni(rng, 0.0, 1.0) };
    let od = uni(rng, 0.0, 11.0);
    a.great_hit_window = (50.0 - 3.0 * od) / *rng.pick(&[0.5, 0.75, 1.0, 1.0, 1.5, 2.0]);
    let mut tag = "realistic";
    if rng.chance(1, 2) {
        tag = "corner";
        for _ in 0..=rng.below(2) {
            let v = corner(rng);
            match rng.below(3) {
                0 => a.great_hit_window = v,
                1 => a.mono_stamina_factor = v,
                _ => a.stars = v,
            }
        }
        if rng.chance(1, 4) {
            a.mono_stamina_factor = *rng.pick(&[1.0, 1.5, 1.6666, 1.6667, 2.0, 50.0, 166.7]);
        }
    }
    let n = a.max_combo;
    let hs = split(rng, n, 3);
    let given = TaikoScoreState { max_combo: count(rng, n), n300: hs[0], n100: hs[1], misses: hs[2] };
    let mut d = settings.build(1);
    if rng.chance(1, 12) {
        d = d.passed_objects(*rng.pick(&[0u32, 1, 2]));
    }
    let mut perf = TaikoPerformance::new(a.clone()).difficulty(d).state(given);
    let id = format!("pp-taiko-{tag}-{i}");
    match guarded(|| (perf.generate_state(), perf.calculate())) {
        Ok((Ok(state), Ok(pa))) => {
            run.eval(Some(&id));
            if state.n300 + state.n100 + state.misses == 0 {
                run.count("PP-taiko(synthetic): zero-hit states");
            }
            lines.push(run, &id, tag, taiko_req(&a, &flags, &state), taiko_obs(&pa));
        }
        Ok(_) => run.count("PP-taiko: convert error"),
        Err(_) => run.count("PP-taiko(synthetic): panic (not compared; C05)"),
    }
}

fn synth_catch(run: &mut Run, lines: &mut PpLines, rng: &mut Rng, i: usize) {
    let settings = mods_pool(2, rng);
    let (flags, _) = snapshot(&settings, 2);
    let mut a = CatchDifficultyAttributes::default();
    a.n_fruits = count(rng, 4000);
    a.n_droplets = count(rng, 1500);
    a.n_tiny_droplets = count(rng, 3000);
    a.stars = uni(rng, 0.0, 11.0);
    a.ar = uni(rng, 0.0, 11.0);
    let mut tag = "realistic";
    if rng.chance(1, 2) {
        tag = "corner";
        if rng.chance(1, 2) {
            a.stars = corner(rng);
        }
        if rng.chance(1, 2) {
            a.ar = *rng.pick(&[-10.0, -1.0, 0.0, 7.999, 8.0, 9.0, 9.0001, 10.0, 10.0001, 11.0, 11.5, 13.0, 1e6, f64::NAN, f64::INFINITY, f64::NEG_INFINITY]);
        }
    }
    let n = a.n_fruits + a.n_droplets;
    let hs = split(rng, n, 3);
    let ts = split(rng, a.n_tiny_droplets, 2);
    let given = CatchScoreState { max_combo: count(rng, n), fruits: hs[0], droplets: hs[1], tiny_droplets: ts[0], tiny_droplet_misses: ts[1], misses: hs[2] };
    let mut d = settings.build(2);
    if rng.chance(1, 12) {
        d = d.passed_objects(*rng.pick(&[0u32, 1, 2]));
    }
    let mut perf = CatchPerformance::new(a.clone()).difficulty(d).state(given);
    let id = format!("pp-catch-{tag}-{i}");
    match guarded(|| (perf.generate_state(), perf.calculate())) {
        Ok((Ok(state), Ok(pa))) => {
            run.eval(Some(&id));
            if state.fruits + state.droplets + state.tiny_droplets + state.tiny_droplet_misses + state.misses == 0 {
                run.count("PP-catch(synthetic): zero-hit states");
            }
            lines.push(run, &id, tag, catch_req(&a, &flags, &state), catch_obs(&pa));
        }
        Ok(_) => run.count("PP-catch: convert error"),
        Err(_) => run.count("PP-catch(synthetic): panic (not compared; C05)"),
    }
}

fn synth_mania(run: &mut Run, lines: &mut PpLines, rng: &mut Rng, i: usize) {
    let settings = mods_pool(3, rng);
    let (flags, _) = snapshot(&settings, 3);
    let mut a = ManiaDifficultyAttributes::default();
    a.n_objects = count(rng, 5000);
    a.n_hold_notes = count(rng, a.n_objects);
    a.max_combo = a.n_objects + a.n_hold_notes;
    a.stars = uni(rng, 0.0, 12.0);
    let mut tag = "realistic";
    if rng.chance(1, 2) {
        tag = "corner";
        a.stars = if rng.chance(1, 2) { corner(rng) } else { *rng.pick(&[0.05, 0.15, 0.2, 0.1999999]) };
    }
    let lazer = settings.lazer.unwrap_or(true);
    let n = if lazer && !flags[10] { a.n_objects + a.n_hold_notes } else { a.n_objects };
    let hs = split(rng, n, 6);
    let given = ManiaScoreState { n320: hs[0], n300: hs[1], n200: hs[2], n100: hs[3], n50: hs[4], misses: hs[5] };
    let mut d = settings.build(3);
    if rng.chance(1, 12) {
        d = d.passed_objects(*rng.pick(&[0u32, 1, 2]));
    }
    let mut perf = ManiaPerformance::new(a.clone()).difficulty(d).state(given);
    let id = format!("pp-mania-{tag}-{i}");
    match guarded(|| (perf.generate_state(), perf.calculate())) {
        Ok((Ok(state), Ok(pa))) => {
            run.eval(Some(&id));
            if state.n320 + state.n300 + state.n200 + state.n100 + state.n50 + state.misses == 0 {
                run.count("PP-mania(synthetic): zero-hit states");
            }
            lines.push(run, &id, tag, mania_req(&a, &flags, &state), mania_obs(&pa));
        }
        Ok(_) => run.count("PP-mania: convert error"),
        Err(_) => run.count("PP-mania(synthetic): panic (not compared; C05)"),
    }
}

fn special_lines(run: &mut Run, lines: &mut PpLines, rng: &mut Rng) {
    use rosu_pp::verif_special as sp;
    let mut xs: Vec<f64> = vec![0.0, -0.0, 1e-11, 1e-10, 0.499999, 0.5, 0.75, 1.25, 2.25, 3.5, 5.25, 8.0, 11.5, 17.0, 24.0, 38.0, 60.0, 85.0, 109.99, 110.0, 1e300, f64::INFINITY, f64::NEG_INFINITY, f64::NAN, 5e-324];
    for x in xs.clone() {
        xs.push(-x);
    }
    while lines.has_budget("erf") && xs.len() < 100_000 {
        let mag = match rng.below(4) {
            0 => uni(rng, 0.0, 1.0),
            1 => uni(rng, 0.0, 6.0),
            2 => uni(rng, 0.0, 120.0),
            _ => 10f64.powf(uni(rng, -12.0, 2.2)),
        };
        let x = if rng.chance(1, 3) { -mag } else { mag };
        lines.push(run, "pp-erf", "grid", format!("PP erf {}", hexf(x)), format!("erf={}", showf(sp::erf(x))));
        // `ErfFacts` (hypothesis of the taiko/osu! theorems), sampled: erf > 0 on (0, inf)
        if x > 0.0 && !(sp::erf(x) > 0.0) {
            run.fail("oracle:erf-sign", "", "pp-erf", format!("erf({x:?}) = {:?} is not positive", sp::erf(x)), format!("verif_special::erf({x:?})"));
        }
        if let Some(x) = xs.pop() {
            lines.push(run, "pp-erf", "grid", format!("PP erf {}", hexf(x)), format!("erf={}", showf(sp::erf(x))));
        }
    }
    let mut zs: Vec<f64> = vec![0.0, -0.0, 0.5, 0.5000001, 0.75, 0.7500001, 1.0, -1.0, 1.5, -1.5, 1.0 - 1e-16, 1.0 - 1e-9, 1e-300, 5e-324, f64::NAN, f64::INFINITY, f64::NEG_INFINITY];
    // q = 1 - z at the branch points of erf_inv_impl: x = sqrt(-ln q) in {3, 6, 18, 44}
    for x in [3.0f64, 6.0, 18.0] {
        let q = (-(x * x)).exp();
        zs.push(1.0 - q);
        zs.push(1.0 - q * 1.0001);
        zs.push(1.0 - q * 0.9999);
    }
    while lines.has_budget("erfinv") && zs.len() < 100_000 {
        let z = match rng.below(4) {
            0 => uni(rng, 0.0, 1.0),
            1 => 1.0 - 10f64.powf(uni(rng, -16.0, 0.0)),
            2 => 10f64.powf(uni(rng, -20.0, 0.0)),
            _ => uni(rng, -1.0, 1.0),
        };
        lines.push(run, "pp-erfinv", "grid", format!("PP erfinv {}", hexf(z)), format!("erfinv={}", showf(sp::erf_inv(z))));
        // `ErfFacts`, sampled: erf_inv > 0 (and finite) on (0, 1)
        if z > 0.0 && z < 1.0 && !(sp::erf_inv(z) > 0.0 && sp::erf_inv(z).is_finite()) {
            run.fail("oracle:erf-inv-sign", "", "pp-erfinv", format!("erf_inv({z:?}) = {:?} is not positive and finite", sp::erf_inv(z)), format!("verif_special::erf_inv({z:?})"));
        }
        if let Some(z) = zs.pop() {
            lines.push(run, "pp-erfinv", "grid", format!("PP erfinv {}", hexf(z)), format!("erfinv={}", showf(sp::erf_inv(z))));
        }
    }
    // decimal literals: Rust's parser (correctly rounded, like rustc's literal conversion) vs the driver
    let mut guard = 0;
    while lines.has_budget("lit") && guard < 100_000 {
        guard += 1;
        let digits = 1 + rng.below(40) as usize;
        let mut m = String::new();
        for k in 0..digits {
            let dch = if k == 0 { 1 + rng.below(9) } else { rng.below(10) };
            m.push(char::from(b'0' + dch as u8));
        }
        let e = rng.below(46);
        let Ok(v) = format!("{m}e-{e}").parse::<f64>() else { continue };
        lines.push(run, "pp-lit", "random", format!("PP lit {m} {e}"), format!("lit={}", showf(v)));
    }
}

/// the synthetic-attribute stream and the special-function / literal lines
pub fn synthetic(run: &mut Run, rng: &mut Rng, thorough: bool) {
    let mut lines = PpLines::new(thorough, false, 1);
    special_lines(run, &mut lines, rng);
    let mut i = 0usize;
    while (lines.has_budget("osu") || lines.has_budget("taiko") || lines.has_budget("catch") || lines.has_budget("mania")) && i < 400_000 {
        if lines.has_budget("osu") {
            synth_osu(run, &mut lines, rng, i);
        }
        if lines.has_budget("taiko") {
            synth_taiko(run, &mut lines, rng, i);
        }
        if lines.has_budget("catch") && i % 2 == 0 {
            synth_catch(run, &mut lines, rng, i);
        }
        if lines.has_budget("mania") && i % 3 == 0 {
            synth_mania(run, &mut lines, rng, i);
        }
        i += 1;
    }
}
