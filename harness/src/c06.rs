//! C06 — decoding is total and always yields a well-formed beatmap.
//!
//! Correspondence lines (model in `lean/RosuModel/Model/{Sort,Decode}.lean`):
//!   TANDEM / LEGACY / LEGACYFB  the sorting utilities on random key lists with many ties
//!   DECODE                      order of tagged objects and sounds after `From<BeatmapState>`
//!   CLAMP                       the difficulty clamps
//!   CPTS                        pending/flush/insert-or-replace of control points
//! Direct oracle: well-formedness of every decoded map (generated, mutated, noise) and equality of
//! bytes / str / path decoding.

use std::{cmp::Ordering, fmt::Display, fs, str::FromStr};

use rosu_pp::{
    model::{
        control_point::{DifficultyPoint, EffectPoint, TimingPoint},
        hit_object::{HitObject, HitObjectKind, Pos},
        mode::GameMode,
    },
    verif::{legacy_sort_hit_objects, TandemSorter},
    Beatmap,
};

use crate::{
    common::{guarded, hash64, resource_maps, Run},
    mapgen::{random_map, GenCfg},
    rng::Rng,
};

pub fn csv<T: Display>(it: impl IntoIterator<Item = T>) -> String {
    let v: Vec<String> = it.into_iter().map(|x| x.to_string()).collect();
    if v.is_empty() {
        "-".to_owned()
    } else {
        v.join(",")
    }
}

fn case_rng(seed: u64, id: &str) -> Rng {
    Rng::new(seed ^ hash64(id))
}

fn wanted(only: Option<&str>, id: &str) -> bool {
    only.is_none_or(|o| o == id)
}

pub fn run(tier: &str, seed: u64, only: Option<&str>) -> Run {
    let mut run = Run::default();
    let thorough = tier == "thorough";
    sort_cases(&mut run, seed, thorough, only);
    decode_model_cases(&mut run, seed, thorough, only);
    control_point_cases(&mut run, seed, thorough, only);
    wellformed_cases(&mut run, seed, thorough, only);
    #[cfg(feature = "p06")]
    crate::c06b::cases(&mut run, seed, thorough, only);
    run
}

// ---------------------------------------------------------------------------------------------
// A. sorting utilities
// ---------------------------------------------------------------------------------------------

/// An input that drives `osu_legacy::sort` into its heap-sort fallback (depth limit 32); found
/// with McIlroy's quicksort adversary against a port of the routine.  Any strictly monotone
/// re-labelling of the keys keeps every comparison and therefore the whole execution.
pub const KILLER: [i64; 100] = [
    0, 2, 3, 5, 72, 6, 8, 51, 9, 11, 84, 12, 14, 54, 15, 17, 75, 18, 20, 57, 21, 23, 90, 24, 26, 60, 27, 29, 78, 30,
    32, 63, 33, 35, 87, 36, 38, 66, 39, 41, 81, 42, 44, 69, 45, 47, 110, 48, 50, 4, 7, 53, 10, 13, 56, 16, 19, 59, 22,
    25, 62, 28, 31, 65, 34, 37, 68, 40, 43, 71, 46, 49, 74, 52, 55, 77, 58, 61, 80, 64, 67, 83, 70, 73, 86, 76, 79, 89,
    82, 85, 92, 88, 91, 95, 94, 93, 110, 110, 110, 1,
];

pub fn gen_keys(rng: &mut Rng, ci: usize, thorough: bool) -> (Vec<f64>, &'static str) {
    let n = if ci < 40 {
        ci % 5
    } else if thorough && ci % 7 == 0 {
        rng.range(40, 300) as usize
    } else {
        rng.range(0, 40) as usize
    };
    let distinct = rng.range(1, 7);
    let grid = |v: i64| v as f64 * *[1.0, 0.5, 125.0].get((ci / 8) % 3).unwrap();
    let mut random_ties: Vec<f64> = (0..n).map(|_| grid(rng.range(0, distinct))).collect();
    match ci % 8 {
        0 => (random_ties, "random-ties"),
        1 => {
            random_ties.sort_by(f64::total_cmp);
            (random_ties, "sorted-ties")
        }
        2 => {
            random_ties.sort_by(|a, b| b.total_cmp(a));
            (random_ties, "reversed-ties")
        }
        3 => (vec![grid(distinct); n], "all-equal"),
        4 => {
            // signed zeros and negatives: total_cmp and `<` disagree on -0.0 / +0.0
            let pool = [-0.0, 0.0, -0.0, 0.0, -1.5, 1.0, -300.0];
            ((0..n).map(|_| *rng.pick(&pool)).collect(), "signed-zero")
        }
        5 => {
            let mut v: Vec<f64> = (0..n).map(|i| i as f64).collect();
            for i in (1..n).rev() {
                let j = rng.below(i as u64 + 1) as usize;
                v.swap(i, j);
            }
            (v, "permutation")
        }
        6 => ((0..n).map(|i| (i / 3) as f64).collect(), "sorted-runs"),
        _ => ((0..n).map(|i| i.min(n - 1 - i) as f64).collect(), "organ-pipe"),
    }
}

fn mk_objects(keys: &[f64]) -> Vec<HitObject> {
    keys.iter()
        .enumerate()
        .map(|(i, &k)| HitObject {
            pos: Pos::new(i as f32, 0.0),
            start_time: k,
            kind: HitObjectKind::Circle,
        })
        .collect()
}

fn is_sorted_total(keys: &[f64]) -> bool {
    keys.windows(2).all(|w| w[0].total_cmp(&w[1]) != Ordering::Greater)
}

fn tandem_case(run: &mut Run, id: &str, keys: &[f64], payload: &[u64]) {
    let n = keys.len();
    let bits: Vec<u64> = keys.iter().map(|k| k.to_bits()).collect();
    let res = guarded(|| {
        let mut times = keys.to_vec();
        let mut pay = payload.to_vec();
        let mut ids: Vec<usize> = (0..n).collect();
        let mut sorter = TandemSorter::new_stable(keys, f64::total_cmp);
        sorter.sort(&mut times);
        sorter.sort(&mut pay);
        sorter.sort(&mut ids);
        (times, pay, ids)
    });
    let repro = format!("TandemSorter keys={keys:?} payload={payload:?}");
    let observed = match &res {
        Err(_) => "P".to_owned(),
        Ok((t, p, i)) => format!("{}|{}|{}", csv(t.iter().map(|x| x.to_bits())), csv(p), csv(i)),
    };
    run.repro.insert(id.to_owned(), repro.clone());
    run.line(id, format!("TANDEM {} {}", csv(&bits), csv(payload)), observed);
    // direct oracle: the three slices received the stable sorting permutation
    match res {
        Err(p) => run.fail("oracle:tandem-panic", "", id, p, repro),
        Ok((t, p, ids)) => {
            let mut exp: Vec<usize> = (0..n).collect();
            exp.sort_by(|&a, &b| keys[a].total_cmp(&keys[b]));
            let ok = ids == exp
                && (0..n).all(|i| t[i].to_bits() == keys[exp[i]].to_bits() && p[i] == payload[exp[i]]);
            if !ok {
                run.fail("oracle:tandem", "", id, format!("got times={t:?} payload={p:?} ids={ids:?}, stable order {exp:?}"), repro);
            }
        }
    }
}

fn legacy_case(run: &mut Run, id: &str, keys: &[f64], expect_fallback: bool) {
    let n = keys.len();
    let bits: Vec<u64> = keys.iter().map(|k| k.to_bits()).collect();
    let mut objs = mk_objects(keys);
    let res = guarded(|| {
        legacy_sort_hit_objects(&mut objs);
        objs
    });
    let repro = format!("osu_legacy::sort start_times={keys:?}");
    run.repro.insert(id.to_owned(), repro.clone());
    let observed = match &res {
        Err(_) => "P".to_owned(),
        Ok(o) => csv(o.iter().map(|h| h.pos.x as usize)),
    };
    run.line(id, format!("LEGACY 32 {}", csv(&bits)), observed);
    if expect_fallback {
        run.line(id, format!("LEGACYFB {}", csv(&bits)), "1".to_owned());
        run.count("legacy:heap-sort-fallback-reached");
    }
    match res {
        Err(p) => run.fail("oracle:legacy-sort-panic", "", id, p, repro),
        Ok(o) => {
            let mut seen = vec![false; n];
            let mut perm = o.len() == n;
            for h in &o {
                let t = h.pos.x as usize;
                if t >= n || seen[t] || h.start_time.to_bits() != keys[t].to_bits() {
                    perm = false;
                    break;
                }
                seen[t] = true;
            }
            if !perm {
                run.fail("oracle:legacy-sort-perm", "", id, "result is not a permutation of the input".into(), repro.clone());
            }
            let out_sorted = o.windows(2).all(|w| w[0].start_time <= w[1].start_time);
            if is_sorted_total(keys) {
                // what decoding and conversion rely on: a sorted input keeps its key sequence
                let same = o.iter().zip(keys).all(|(h, k)| h.start_time == *k);
                if !same || !out_sorted {
                    run.fail("oracle:legacy-sort-sorted-input", "", id, format!("sorted input, output times {:?}", o.iter().map(|h| h.start_time).collect::<Vec<_>>()), repro);
                }
                run.count("legacy:sorted-input");
            } else if !out_sorted {
                // not a caller situation: every call site sorts first (see DELIVERY.md)
                run.count("legacy:unsorted-input-left-unsorted(no call site does this)");
            } else {
                run.count("legacy:unsorted-input-sorted");
            }
        }
    }
}

fn sort_cases(run: &mut Run, seed: u64, thorough: bool, only: Option<&str>) {
    let n_cases = if thorough { 40000 } else { 3000 };
    for ci in 0..n_cases {
        let id = format!("sort-{ci}");
        if !wanted(only, &id) {
            continue;
        }
        let mut rng = case_rng(seed, &id);
        let (keys, pattern) = gen_keys(&mut rng, ci, thorough);
        let n = keys.len();
        run.count(&format!("sort:pattern:{pattern}"));
        run.count(&format!(
            "sort:size:{}",
            match n {
                0 => "0",
                1..=3 => "1-3",
                4..=15 => "4-15",
                16..=40 => "16-40",
                _ => ">40",
            }
        ));
        let payload: Vec<u64> = (0..n).map(|_| rng.range(0, 99) as u64).collect();
        let key = format!("{keys:?}");
        run.eval((n >= 2).then_some(key.as_str()));
        tandem_case(run, &id, &keys, &payload);
        legacy_case(run, &id, &keys, false);
        if ci == 104 || ci == 200 {
            run.sample(format!("{id}: {pattern} keys={keys:?}"));
        }
    }
    // heap-sort fallback of the legacy sort
    let n_killer = if thorough { 100 } else { 12 };
    for ci in 0..n_killer {
        let id = format!("sort-killer-{ci}");
        if !wanted(only, &id) {
            continue;
        }
        let mut rng = case_rng(seed, &id);
        let a = rng.range(1, 9) as f64 * 0.5;
        let b = rng.range(-500, 500) as f64;
        let keys: Vec<f64> = KILLER.iter().map(|&k| a * k as f64 + b).collect();
        run.eval(Some(&format!("killer {a} {b}")));
        run.count("sort:pattern:quicksort-killer");
        legacy_case(run, &id, &keys, true);
        let payload: Vec<u64> = (0..keys.len() as u64).collect();
        tandem_case(run, &id, &keys, &payload);
        // perturbed variants: the model decides whether the fallback is still reached
        let mut v = keys.clone();
        for _ in 0..rng.range(1, 4) {
            let i = rng.below(v.len() as u64) as usize;
            let j = rng.below(v.len() as u64) as usize;
            v.swap(i, j);
        }
        run.count("sort:pattern:quicksort-killer-perturbed");
        legacy_case(run, &format!("{id}-p"), &v, false);
    }
}

// ---------------------------------------------------------------------------------------------
// B. decode post-processing: model vs implementation
// ---------------------------------------------------------------------------------------------

const VERSIONS: [i32; 10] = [3, 4, 5, 7, 8, 9, 10, 12, 14, 128];

fn header(version: i32, mode: u8, difficulty: &str) -> String {
    format!("osu file format v{version}\n\n[General]\nMode: {mode}\n\n[Difficulty]\n{difficulty}\n")
}

fn decode_bytes(bytes: &[u8]) -> Result<Result<Beatmap, std::io::Error>, String> {
    guarded(|| Beatmap::from_bytes(bytes))
}

/// Decodes one candidate hit object line alone: `Some((time, x, sound))` iff the real parser
/// accepts it.
fn decode_single(version: i32, mode: u8, line: &str) -> Option<(f64, f32, u8)> {
    let text = format!("{}[HitObjects]\n{line}\n", header(version, mode, ""));
    match decode_bytes(text.as_bytes()) {
        Ok(Ok(map)) if map.hit_objects.len() == 1 && map.hit_sounds.len() == 1 => {
            Some((map.hit_objects[0].start_time, map.hit_objects[0].pos.x, u8::from(map.hit_sounds[0])))
        }
        _ => None,
    }
}

const TIME_TOKENS: [&str; 14] = [
    "0", "-0", "100", "100", "250", "250.5", "1000", "1000", "-500", "1e3", "2147483647", "-2147483647", "99.99999", "0.000001",
];

const DIFF_TOKENS_F32: [&str; 22] = [
    "0", "-0", "-5", "0.0001", "5", "9.99", "10", "10.0001", "11", "17.9", "18", "18.5", "1e9", "-1e9", "1", "0.99", "0.5",
    "3.5", "7", "2.5", "6.5", "2147483520",
];
const DIFF_TOKENS_F64: [&str; 16] = [
    "0.4", "0.39", "0.4000001", "3.6", "3.61", "0.5", "0.49", "8", "8.01", "1", "1.4", "2", "0", "-3", "1e9", "-0",
];

fn gen_object_line(rng: &mut Rng, tag: usize, time: &str, sound: u8) -> String {
    let y = rng.range(0, 384);
    match rng.below(10) {
        0..=4 => format!("{tag},{y},{time},{},{sound}", *rng.pick(&[1, 5, 1])),
        5..=6 => {
            let curve = *rng.pick(&["L", "B", "P", "C"]);
            let pts = match curve {
                "P" => format!("{}:{}|{}:{}", tag + 40, y, tag + 80, (y + 60) % 384),
                _ => format!("{}:{}", tag + 60, y),
            };
            let extra = if rng.chance(1, 3) { ",2|0|8,0:0|0:0|0:0,0:0:0:0:" } else { "" };
            format!("{tag},{y},{time},2,{sound},{curve}|{pts},{},{}{extra}", rng.range(1, 3), *rng.pick(&[35, 70, 140, 280]))
        }
        7 => {
            let end = *rng.pick(&["300", "1200", "0", "-100", "1e6"]);
            format!("{tag},{y},{time},12,{sound},{end}")
        }
        8 => {
            let end = *rng.pick(&["400", "1500", "0", "100"]);
            format!("{tag},{y},{time},128,{sound},{end}:0:0:0:0:")
        }
        _ => format!("{tag},{y},{time},1,{sound},0:0:0:0:{}", *rng.pick(&["", "hit.wav"])),
    }
}

fn corrupt_line(rng: &mut Rng, line: &str) -> String {
    let mut fields: Vec<String> = line.split(',').map(str::to_owned).collect();
    match rng.below(9) {
        0 => {
            let keep = rng.range(0, fields.len() as i64 - 1) as usize;
            fields.truncate(keep);
        }
        1 => fields[2] = (*rng.pick(&["NaN", "1e300", "abc", "", "inf", "2147483648", "-2147483649"])).to_owned(),
        2 => fields[3] = (*rng.pick(&["0", "abc", "64", "", "256", "-1"])).to_owned(),
        3 => fields[4] = (*rng.pick(&["x", "", "2.5", "99999999999"])).to_owned(),
        4 => fields[1] = (*rng.pick(&["131073", "-131073", "1e9", "NaN", "y"])).to_owned(),
        5 => {
            if fields.len() > 6 {
                fields[6] = (*rng.pick(&["9001", "99999", "abc", "-5", "0"])).to_owned();
            } else if fields.len() > 5 {
                fields[5] = (*rng.pick(&["abc", "NaN", "", "1e300"])).to_owned();
            }
        }
        6 => {
            if fields.len() > 5 {
                fields[5] = (*rng.pick(&["B", "|", "B|", "L|1", "P|1:2|x:y", "L|NaN:3", "", "L|1:1|200000:5"])).to_owned();
            }
        }
        7 => return format!("{line} // trailing comment"),
        _ => return format!("  {line}  "),
    }
    fields.join(",")
}

fn decode_model_cases(run: &mut Run, seed: u64, thorough: bool, only: Option<&str>) {
    let n_cases = if thorough { 30000 } else { 2500 };
    for ci in 0..n_cases {
        let id = format!("dec-{ci}");
        if !wanted(only, &id) {
            continue;
        }
        let mut rng = case_rng(seed, &id);
        let mode = (ci % 4) as u8;
        let version = *rng.pick(&VERSIONS);
        let n = if ci < 40 { ci % 5 } else { rng.range(0, if thorough { 60 } else { 30 }) as usize };
        let n_times = rng.range(1, 6) as usize;
        let times: Vec<&str> = (0..n_times).map(|_| *rng.pick(&TIME_TOKENS)).collect();
        let sorted_input = rng.chance(1, 6);
        let mut lines = Vec::with_capacity(n);
        let mut time_idx: Vec<usize> = (0..n).map(|_| rng.below(n_times as u64) as usize).collect();
        if sorted_input {
            time_idx.sort_unstable();
        }
        let mut n_corrupt = 0;
        for (tag, ti) in time_idx.iter().enumerate() {
            let sound = ((tag * 7 + 3) % 16) as u8;
            let mut line = gen_object_line(&mut rng, tag, times[*ti], sound);
            if rng.chance(1, 7) {
                line = corrupt_line(&mut rng, &line);
                n_corrupt += 1;
            }
            lines.push(line);
        }
        // difficulty section
        let f32_tok: Vec<&str> = (0..4).map(|_| *rng.pick(&DIFF_TOKENS_F32)).collect();
        let f64_tok: Vec<&str> = (0..2).map(|_| *rng.pick(&DIFF_TOKENS_F64)).collect();
        let difficulty = format!(
            "HPDrainRate:{}\nCircleSize:{}\nOverallDifficulty:{}\nApproachRate:{}\nSliderMultiplier:{}\nSliderTickRate:{}\n",
            f32_tok[0], f32_tok[1], f32_tok[2], f32_tok[3], f64_tok[0], f64_tok[1]
        );
        let text = format!("{}[HitObjects]\n{}\n", header(version, mode, &difficulty), lines.join("\n"));
        run.repro.insert(id.clone(), text.clone());
        run.count(&format!("dec:mode:{mode}"));
        run.count(&format!("dec:version:{}", if version < 8 { "<8" } else { ">=8" }));
        run.count(if sorted_input { "dec:order:sorted" } else { "dec:order:shuffled" });
        run.count_n("dec:lines", n as u64);
        run.count_n("dec:lines-corrupted", n_corrupt);

        // which lines does the real parser accept, and with which time / tag / sound?
        let mut accepted: Vec<(f64, i64, u8)> = Vec::new();
        for l in &lines {
            if let Some((t, x, s)) = decode_single(version, mode, l) {
                accepted.push((t, x as i64, s));
            }
        }
        run.count_n("dec:lines-accepted", accepted.len() as u64);
        let mut tags: Vec<i64> = accepted.iter().map(|a| a.1).collect();
        tags.sort_unstable();
        tags.dedup();
        if tags.len() != accepted.len() {
            run.count("dec:skipped-duplicate-tags");
            continue;
        }
        let key = format!("{mode}|{:?}", accepted);
        run.eval((accepted.len() >= 2).then_some(key.as_str()));
        let map = match decode_bytes(text.as_bytes()) {
            Ok(Ok(m)) => m,
            Ok(Err(e)) => {
                run.fail("oracle:decode-error", "", &id, format!("valid text rejected: {e}"), text);
                continue;
            }
            Err(p) => {
                run.fail("oracle:decode-panic", "", &id, p, text);
                continue;
            }
        };
        let obs_tags: Vec<i64> = map.hit_objects.iter().map(|h| h.pos.x as i64).collect();
        let obs_sounds: Vec<u8> = map.hit_sounds.iter().map(|s| u8::from(*s)).collect();
        run.line(
            &id,
            format!(
                "DECODE {} {} {} {}",
                u8::from(mode == 3),
                csv(accepted.iter().map(|a| a.0.to_bits())),
                csv(accepted.iter().map(|a| a.1)),
                csv(accepted.iter().map(|a| a.2))
            ),
            format!("{}|{}", csv(&obs_tags), csv(&obs_sounds)),
        );
        // direct oracle: every accepted line is present exactly once; non-mania: sound stays with its object
        let mut sorted_obs = obs_tags.clone();
        sorted_obs.sort_unstable();
        if sorted_obs != tags {
            run.fail("oracle:objects-lost", "", &id, format!("accepted tags {tags:?}, decoded {obs_tags:?}"), text.clone());
        } else if mode != 3 && obs_sounds.len() == obs_tags.len() {
            for (t, s) in obs_tags.iter().zip(&obs_sounds) {
                let exp = accepted.iter().find(|a| a.1 == *t).map(|a| a.2);
                if exp != Some(*s) {
                    run.fail("oracle:sound-pairing", "", &id, format!("object tag {t} carries sound {s}, its line had {exp:?}"), text.clone());
                    break;
                }
            }
        }
        if !sorted_input && accepted.windows(2).any(|w| w[0].0 > w[1].0) {
            run.count("dec:sort-really-permutes");
        }
        // clamps
        let pre32: Vec<u32> = f32_tok.iter().map(|t| t.parse::<f32>().unwrap().to_bits()).collect();
        let pre64: Vec<u64> = f64_tok.iter().map(|t| t.parse::<f64>().unwrap().to_bits()).collect();
        run.line(
            &id,
            format!("CLAMP {} {} {}", u8::from(mode == 3), csv(&pre32), csv(&pre64)),
            format!(
                "{} {}",
                csv([map.hp.to_bits(), map.cs.to_bits(), map.od.to_bits(), map.ar.to_bits()]),
                csv([map.slider_multiplier.to_bits(), map.slider_tick_rate.to_bits()])
            ),
        );
        if let Err(v) = wellformed(&map) {
            run.fail("oracle:wellformed", "", &id, v, text.clone());
        }
        if ci == 101 || ci == 191 {
            run.sample(format!("{id}: mode={mode} v{version} lines={lines:?}"));
        }
    }
}

// ---------------------------------------------------------------------------------------------
// control points
// ---------------------------------------------------------------------------------------------

const CP_TIMES: [f64; 12] = [0.0, -0.0, 100.0, 100.0, 250.5, 1000.0, -500.0, 1e-17, 100.00000000000001, 2147483647.0, 5000.0, 100.0];
const CP_BEATS: [f64; 16] = [
    500.0, 300.0, 333.33, 5.0, 70000.0, -100.0, -50.0, -200.0, -1000.0, -5.0, -20000.0, f64::NAN, 0.0, -100.00000000000001, -100.0, 500.0,
];

fn control_point_cases(run: &mut Run, seed: u64, thorough: bool, only: Option<&str>) {
    let n_cases = if thorough { 40000 } else { 4000 };
    for ci in 0..n_cases {
        let id = format!("cp-{ci}");
        if !wanted(only, &id) {
            continue;
        }
        let mut rng = case_rng(seed, &id);
        let mode = (ci % 4) as u8;
        let version = *rng.pick(&VERSIONS);
        let n = if ci < 40 { ci % 5 } else { rng.range(0, if thorough { 25 } else { 12 }) as usize };
        let n_times = rng.range(1, 5) as usize;
        let times: Vec<f64> = (0..n_times).map(|_| *rng.pick(&CP_TIMES)).collect();
        let mut text = header(version, mode, "");
        text.push_str("[TimingPoints]\n");
        let mut req = Vec::new();
        let mut shape = String::new();
        for _ in 0..n {
            let time = *rng.pick(&times);
            let beat = *rng.pick(&CP_BEATS);
            let style = rng.below(10);
            let (tc, kiai, line, accepted) = match style {
                // two fields only: timing change, no kiai
                0 => (true, false, format!("{time},{beat}"), !beat.is_nan()),
                // invalid time signature: rejected
                1 => (true, false, format!("{time},{beat},0,2,0,100,1,0"), false),
                // NaN time: rejected
                2 => (false, false, format!("NaN,{beat},4,2,0,100,0,0"), false),
                _ => {
                    let tc = rng.chance(1, 2);
                    let kiai = rng.chance(1, 3);
                    let flags = if kiai { *rng.pick(&["1", "9", "5"]) } else { *rng.pick(&["0", "8"]) };
                    (tc, kiai, format!("{time},{beat},4,2,0,100,{},{flags}", u8::from(tc)), !(tc && beat.is_nan()))
                }
            };
            text.push_str(&line);
            text.push('\n');
            shape.push(if !accepted { 'x' } else if tc { 'T' } else { 'i' });
            if !accepted {
                continue;
            }
            // the values the parser hands to the pending-point logic (public constructors)
            let speed = if beat < 0.0 { 100.0 / -beat } else { 1.0 };
            let tp = TimingPoint::new(time, beat);
            let dp = DifficultyPoint::new(time, beat, speed);
            let mut ep = EffectPoint::new(time, kiai);
            if mode == 1 || mode == 3 {
                ep.scroll_speed = speed.clamp(0.01, 10.0);
            }
            req.push(format!(
                "{}:{}:{}:{}:{}:{}:{}:{}",
                time.to_bits(),
                u8::from(tc),
                tp.beat_len.to_bits(),
                dp.slider_velocity.to_bits(),
                dp.bpm_multiplier.to_bits(),
                u8::from(dp.generate_ticks),
                u8::from(ep.kiai),
                ep.scroll_speed.to_bits()
            ));
        }
        run.repro.insert(id.clone(), text.clone());
        run.count(&format!("cp:mode:{mode}"));
        run.count_n("cp:lines", n as u64);
        run.count_n("cp:lines-accepted", req.len() as u64);
        run.eval((req.len() >= 2).then_some(&format!("{mode}|{}", req.join(";"))));
        let map = match decode_bytes(text.as_bytes()) {
            Ok(Ok(m)) => m,
            Ok(Err(e)) => {
                run.fail("oracle:decode-error", "", &id, format!("{e}"), text);
                continue;
            }
            Err(p) => {
                run.fail("oracle:decode-panic", "", &id, p, text);
                continue;
            }
        };
        let join = |v: Vec<String>| if v.is_empty() { "-".to_owned() } else { v.join(";") };
        let obs = format!(
            "{}|{}|{}",
            join(map.timing_points.iter().map(|p| format!("{}:{}", p.time.to_bits(), p.beat_len.to_bits())).collect()),
            join(
                map.difficulty_points
                    .iter()
                    .map(|p| format!(
                        "{}:{}:{}:{}",
                        p.time.to_bits(),
                        p.slider_velocity.to_bits(),
                        p.bpm_multiplier.to_bits(),
                        u8::from(p.generate_ticks)
                    ))
                    .collect()
            ),
            join(
                map.effect_points
                    .iter()
                    .map(|p| format!("{}:{}:{}", p.time.to_bits(), u8::from(p.kiai), p.scroll_speed.to_bits()))
                    .collect()
            ),
        );
        run.line(&id, format!("CPTS {}", if req.is_empty() { "-".to_owned() } else { req.join(";") }), obs);
        run.count_n("cp:timing-points-out", map.timing_points.len() as u64);
        run.count_n("cp:difficulty-points-out", map.difficulty_points.len() as u64);
        run.count_n("cp:effect-points-out", map.effect_points.len() as u64);
        if let Err(v) = wellformed(&map) {
            run.fail("oracle:wellformed", "", &id, v, text.clone());
        }
        if neg_zero_duplicate(&map) {
            run.fail(
                "oracle:control-points-equal-times",
                "control-points-signed-zero",
                &id,
                "control points at -0.0 and +0.0 coexist (strict only in total_cmp order)".into(),
                text.clone(),
            );
        }
        if ci == 133 {
            run.sample(format!("{id}: mode={mode} shape={shape} text-tail={:?}", text.lines().skip(6).collect::<Vec<_>>()));
        }
    }
}

// ---------------------------------------------------------------------------------------------
// C. well-formedness oracle
// ---------------------------------------------------------------------------------------------

fn strictly_increasing_total(times: impl Iterator<Item = f64>) -> bool {
    let v: Vec<f64> = times.collect();
    v.windows(2).all(|w| w[0].total_cmp(&w[1]) == Ordering::Less)
}

/// Control points that are strictly ordered for `total_cmp` (the order every lookup uses) but hold
/// both `-0.0` and `+0.0`.
fn neg_zero_duplicate(map: &Beatmap) -> bool {
    let dup = |v: Vec<f64>| v.windows(2).any(|w| w[0] == w[1]);
    dup(map.timing_points.iter().map(|p| p.time).collect())
        || dup(map.difficulty_points.iter().map(|p| p.time).collect())
        || dup(map.effect_points.iter().map(|p| p.time).collect())
}

const MAX_PARSE: f64 = 2_147_483_647.0;
const MAX_COORD: f32 = 131_072.0;

/// The well-formedness predicate of C06 on a decoded map.
pub fn wellformed(map: &Beatmap) -> Result<(), String> {
    let fin32 = |name: &str, v: f32, lo: f32, hi: f32| {
        if v.is_finite() && v >= lo && v <= hi {
            Ok(())
        } else {
            Err(format!("{name} = {v} outside [{lo}, {hi}]"))
        }
    };
    let fin64 = |name: &str, v: f64, lo: f64, hi: f64| {
        if v.is_finite() && v >= lo && v <= hi {
            Ok(())
        } else {
            Err(format!("{name} = {v} outside [{lo}, {hi}]"))
        }
    };
    if map.hit_sounds.len() != map.hit_objects.len() {
        return Err(format!("{} hit sounds for {} hit objects", map.hit_sounds.len(), map.hit_objects.len()));
    }
    if let Some(w) = map.hit_objects.windows(2).find(|w| !(w[0].start_time <= w[1].start_time)) {
        return Err(format!("hit objects out of order: {} before {}", w[0].start_time, w[1].start_time));
    }
    if map.is_convert {
        return Err("decoded map is flagged as convert".into());
    }
    fin32("hp", map.hp, 0.0, 10.0)?;
    fin32("od", map.od, 0.0, 10.0)?;
    fin32("ar", map.ar, 0.0, 10.0)?;
    if map.mode == GameMode::Mania {
        fin32("cs", map.cs, 1.0, 18.0)?;
    } else {
        fin32("cs", map.cs, 0.0, 10.0)?;
    }
    fin64("slider_multiplier", map.slider_multiplier, 0.4, 3.6)?;
    fin64("slider_tick_rate", map.slider_tick_rate, 0.5, 8.0)?;
    fin32("stack_leniency", map.stack_leniency, -(MAX_PARSE as f32), MAX_PARSE as f32)?;
    for h in &map.hit_objects {
        fin64("start_time", h.start_time, -MAX_PARSE, MAX_PARSE)?;
        fin32("pos.x", h.pos.x, -MAX_COORD, MAX_COORD)?;
        fin32("pos.y", h.pos.y, -MAX_COORD, MAX_COORD)?;
        if h.pos.x.fract() != 0.0 || h.pos.y.fract() != 0.0 {
            return Err(format!("non-integral position {:?}", h.pos));
        }
        match &h.kind {
            HitObjectKind::Circle => {}
            HitObjectKind::Slider(s) => {
                if let Some(d) = s.expected_dist {
                    if !(d.is_finite() && d > 0.0 && d <= f64::from(MAX_COORD)) {
                        return Err(format!("slider expected_dist {d}"));
                    }
                }
                if s.repeats > 8999 {
                    return Err(format!("slider repeats {}", s.repeats));
                }
                if s.node_sounds.len() != s.repeats + 2 {
                    return Err(format!("{} node sounds for {} repeats", s.node_sounds.len(), s.repeats));
                }
                if s.control_points.is_empty() {
                    return Err("slider without control points".into());
                }
                for p in s.control_points.iter() {
                    if !(p.pos.x.is_finite() && p.pos.y.is_finite()) {
                        return Err(format!("slider control point {:?}", p.pos));
                    }
                }
            }
            HitObjectKind::Spinner(s) => fin64("spinner duration", s.duration, 0.0, 2.0 * MAX_PARSE)?,
            HitObjectKind::Hold(s) => fin64("hold duration", s.duration, 0.0, 2.0 * MAX_PARSE)?,
        }
    }
    if !strictly_increasing_total(map.timing_points.iter().map(|p| p.time)) {
        return Err(format!("timing points not strictly ordered: {:?}", map.timing_points.iter().map(|p| p.time).collect::<Vec<_>>()));
    }
    if !strictly_increasing_total(map.difficulty_points.iter().map(|p| p.time)) {
        return Err(format!("difficulty points not strictly ordered: {:?}", map.difficulty_points.iter().map(|p| p.time).collect::<Vec<_>>()));
    }
    if !strictly_increasing_total(map.effect_points.iter().map(|p| p.time)) {
        return Err(format!("effect points not strictly ordered: {:?}", map.effect_points.iter().map(|p| p.time).collect::<Vec<_>>()));
    }
    for p in &map.timing_points {
        fin64("timing time", p.time, -MAX_PARSE, MAX_PARSE)?;
        fin64("beat_len", p.beat_len, 6.0, 60_000.0)?;
    }
    for p in &map.difficulty_points {
        fin64("difficulty time", p.time, -MAX_PARSE, MAX_PARSE)?;
        fin64("slider_velocity", p.slider_velocity, 0.1, 10.0)?;
        fin64("bpm_multiplier", p.bpm_multiplier, 0.1, 100.0)?;
    }
    for p in &map.effect_points {
        fin64("effect time", p.time, -MAX_PARSE, MAX_PARSE)?;
        fin64("scroll_speed", p.scroll_speed, 0.01, 10.0)?;
    }
    for b in &map.breaks {
        fin64("break start", b.start_time, -MAX_PARSE, MAX_PARSE)?;
        fin64("break end", b.end_time, b.start_time, MAX_PARSE)?;
    }
    float_leaves_finite(map).map(|_| ())
}

/// Generic pass over the `Debug` rendering of the whole map: EVERY f32/f64 leaf (whatever struct or
/// field it lives in, so a field added later is covered without touching this file) must be finite
/// and within twice the parser limit.  Returns the number of float leaves and the distinct field
/// names seen.
pub fn float_leaves_finite(map: &Beatmap) -> Result<(usize, std::collections::BTreeSet<String>), String> {
    use crate::debugvis::{debug_leaves, Leaf};
    let dbg = format!("{map:?}");
    let leaves = debug_leaves(&dbg).map_err(|e| format!("cannot parse the Debug output of Beatmap: {e}"))?;
    let mut n = 0;
    let mut names = std::collections::BTreeSet::new();
    for (path, leaf) in &leaves {
        if let Leaf::Float(v) = leaf {
            n += 1;
            let last = path.rsplit('.').next().unwrap_or(path);
            names.insert(last.split('[').next().unwrap_or(last).to_owned());
            if !v.is_finite() || v.abs() > 2.0 * MAX_PARSE + 2.0 {
                return Err(format!("float field {path} = {v:?} is not finite / beyond twice the parser limit"));
            }
        }
    }
    Ok((n, names))
}

const EXTREME: [&str; 34] = [
    "1e300", "-1e300", "NaN", "nan", "inf", "-inf", "infinity", "-0", "0x10", "2147483647", "2147483648", "-2147483648",
    "4294967296", "99999999999999999999", "1e-320", "", "  7 ", "+5", "5.", "1_000", "１２", "9007199254740993", "131072",
    "131073", "-131073", "9001", "9000", "3.4028235e38", "1.7976931348623157e308", "-1", "0", "1e38", "2147483520", "1e10",
];

fn mutate(rng: &mut Rng, text: &str) -> (Vec<u8>, &'static str) {
    let mut lines: Vec<String> = text.lines().map(str::to_owned).collect();
    let kind = rng.below(14);
    let pick_line = |rng: &mut Rng, lines: &[String]| rng.below(lines.len().max(1) as u64) as usize;
    let name = match kind {
        0 => "identity",
        1 => {
            // shuffle the hit object lines
            if let Some(start) = lines.iter().position(|l| l.trim() == "[HitObjects]") {
                let n = lines.len() - start - 1;
                for i in (1..n).rev() {
                    let j = rng.below(i as u64 + 1) as usize;
                    lines.swap(start + 1 + i, start + 1 + j);
                }
            }
            "shuffle-objects"
        }
        2 => {
            for _ in 0..rng.range(1, 5) {
                let i = pick_line(rng, &lines);
                if i < lines.len() {
                    let l = lines[i].clone();
                    let j = pick_line(rng, &lines);
                    lines.insert(j, l);
                }
            }
            "duplicate-lines"
        }
        3 => {
            for _ in 0..rng.range(1, 5) {
                if !lines.is_empty() {
                    let i = pick_line(rng, &lines);
                    lines.remove(i);
                }
            }
            "delete-lines"
        }
        4 => {
            let mut b = lines.join("\n").into_bytes();
            let cut = rng.below(b.len() as u64 + 1) as usize;
            b.truncate(cut);
            return (b, "truncate");
        }
        5 | 6 | 7 => {
            for _ in 0..rng.range(1, 6) {
                let i = pick_line(rng, &lines);
                if i < lines.len() {
                    let sep = if lines[i].contains(',') { ',' } else { ':' };
                    let mut f: Vec<String> = lines[i].split(sep).map(str::to_owned).collect();
                    let k = rng.below(f.len() as u64) as usize;
                    f[k] = (*rng.pick(&EXTREME)).to_owned();
                    lines[i] = f.join(&sep.to_string());
                }
            }
            "extreme-numbers"
        }
        8 => {
            for _ in 0..rng.range(1, 4) {
                if lines.len() >= 2 {
                    let i = pick_line(rng, &lines);
                    let j = pick_line(rng, &lines);
                    lines.swap(i, j);
                }
            }
            "swap-lines"
        }
        9 => {
            let garbage = ["[HitObjects]", "[TimingPoints]", "[Difficulty]", "[General]", ",,,,,", "1,2,3", "::::", "[Events]", "2,100,50", "|||", "osu file format v9", "Mode: 7", "Mode: 3"];
            for _ in 0..rng.range(1, 4) {
                let j = pick_line(rng, &lines);
                lines.insert(j.min(lines.len()), (*rng.pick(&garbage)).to_owned());
            }
            "insert-garbage"
        }
        10 => {
            let mut b = lines.join("\r\n").into_bytes();
            for _ in 0..rng.range(1, 8) {
                if !b.is_empty() {
                    let i = rng.below(b.len() as u64) as usize;
                    b[i] = rng.below(256) as u8;
                }
            }
            return (b, "flip-bytes");
        }
        11 => {
            let s = lines.join("\n");
            let mut b = vec![0xFF, 0xFE];
            for u in s.encode_utf16() {
                b.extend_from_slice(&u.to_le_bytes());
            }
            return (b, "utf16-le");
        }
        12 => {
            let s = lines.join("\n");
            let mut b = vec![0xFE, 0xFF];
            for u in s.encode_utf16() {
                b.extend_from_slice(&u.to_be_bytes());
            }
            return (b, "utf16-be");
        }
        _ => {
            let prefix: &[u8] = *rng.pick(&[&[0xEF, 0xBB, 0xBF][..], &[0xC3, 0x28][..], &[0xFF][..], &[0x00, 0x00][..], &[0xF0, 0x9F][..]]);
            let mut b = prefix.to_vec();
            b.extend_from_slice(lines.join("\n").as_bytes());
            return (b, "bom-or-invalid-prefix");
        }
    };
    (lines.join("\n").into_bytes(), name)
}

fn noise(rng: &mut Rng) -> (Vec<u8>, &'static str) {
    if rng.chance(1, 2) {
        let n = rng.range(0, 1500) as usize;
        ((0..n).map(|_| rng.below(256) as u8).collect(), "random-bytes")
    } else {
        let toks = [
            "[HitObjects]\n", "[TimingPoints]\n", "[Difficulty]\n", "[General]\n", "[Events]\n", "osu file format v", "14", "\n", "\n", ",", ",", ",", ":", "|",
            "1", "2", "12", "128", "256", "-1", "0", "NaN", "1e300", "B", "L", "P", "C", "Mode", "CircleSize", "SliderMultiplier", "//", " ", "100", "3.5", "\r\n",
        ];
        let n = rng.range(0, 300) as usize;
        let mut s = String::new();
        for _ in 0..n {
            s.push_str(*rng.pick(&toks));
        }
        (s.into_bytes(), "token-soup")
    }
}

fn debug_eq(a: &Beatmap, b: &Beatmap) -> bool {
    a == b && format!("{a:?}") == format!("{b:?}")
}

fn repro_of(bytes: &[u8]) -> String {
    match std::str::from_utf8(bytes) {
        Ok(s) => s.to_owned(),
        Err(_) => format!("hex:{}", bytes.iter().map(|b| format!("{b:02x}")).collect::<String>()),
    }
}

/// Decodes through all three entry points and checks the C06 clauses.
pub fn check_bytes(run: &mut Run, id: &str, bytes: &[u8], check_path: bool) {
    let via_bytes = decode_bytes(bytes);
    let map = match via_bytes {
        Err(p) => {
            run.fail("oracle:decode-panic", "", id, p, repro_of(bytes));
            return;
        }
        Ok(r) => r,
    };
    match &map {
        Ok(m) => {
            run.count("wf:decoded-ok");
            run.count_n("wf:objects", m.hit_objects.len() as u64);
            run.count_n("wf:control-points", (m.timing_points.len() + m.difficulty_points.len() + m.effect_points.len()) as u64);
            if let Err(v) = wellformed(m) {
                run.fail("oracle:wellformed", "", id, v, repro_of(bytes));
            }
            if neg_zero_duplicate(m) {
                run.fail(
                    "oracle:control-points-equal-times",
                    "control-points-signed-zero",
                    id,
                    "control points at -0.0 and +0.0 coexist (strict only in total_cmp order)".into(),
                    repro_of(bytes),
                );
            }
        }
        Err(_) => run.count("wf:io-error"),
    }
    if let Ok(s) = std::str::from_utf8(bytes) {
        match guarded(|| Beatmap::from_str(s)) {
            Err(p) => run.fail("oracle:decode-panic", "", id, format!("from_str: {p}"), repro_of(bytes)),
            Ok(r) => {
                let same = match (&map, &r) {
                    (Ok(a), Ok(b)) => debug_eq(a, b),
                    (Err(_), Err(_)) => true,
                    _ => false,
                };
                if !same {
                    run.fail("oracle:bytes-vs-str", "", id, "from_bytes and from_str disagree".into(), repro_of(bytes));
                }
            }
        }
        run.count("wf:utf8");
    } else {
        run.count("wf:not-utf8");
    }
    if check_path {
        let dir = "build/tmp";
        let _ = fs::create_dir_all(dir);
        let path = format!("{dir}/c06-{}-{}.osu", std::process::id(), hash64(id));
        if fs::write(&path, bytes).is_ok() {
            match guarded(|| Beatmap::from_path(&path)) {
                Err(p) => run.fail("oracle:decode-panic", "", id, format!("from_path: {p}"), repro_of(bytes)),
                Ok(r) => {
                    let same = match (&map, &r) {
                        (Ok(a), Ok(b)) => debug_eq(a, b),
                        (Err(_), Err(_)) => true,
                        _ => false,
                    };
                    if !same {
                        run.fail("oracle:bytes-vs-path", "", id, "from_bytes and from_path disagree".into(), repro_of(bytes));
                    }
                }
            }
            let _ = fs::remove_file(&path);
            run.count("wf:path-checked");
        }
    }
}

fn wellformed_cases(run: &mut Run, seed: u64, thorough: bool, only: Option<&str>) {
    let n_gen = if thorough { 60000 } else { 6000 };
    for ci in 0..n_gen {
        let id = format!("wf-gen-{ci}");
        if !wanted(only, &id) {
            continue;
        }
        let mut rng = case_rng(seed, &id);
        let mode = (ci % 4) as u8;
        let mut cfg = GenCfg::small(mode);
        cfg.max_objects = if ci % 9 == 0 { 40 } else { 10 };
        cfg.allow_negative_start = true;
        cfg.dense = ci % 5 == 0;
        if ci % 6 == 0 {
            cfg.weights = [3, 3, 2, 3];
        }
        let mut spec = random_map(&mut rng, &cfg);
        spec.version = *rng.pick(&VERSIONS);
        if rng.chance(1, 3) {
            spec.breaks.push((rng.range(0, 5000) as f64, rng.range(0, 9000) as f64));
        }
        let text = spec.render();
        let (bytes, kind) = mutate(&mut rng, &text);
        run.count(&format!("wf:mutation:{kind}"));
        run.count(&format!("wf:base:generated-mode-{mode}"));
        run.eval(Some(&format!("{kind}|{}", hash64(&repro_of(&bytes)))));
        check_bytes(run, &id, &bytes, ci % 4 == 0 || thorough);
        if ci == 5 {
            run.sample(format!("{id}: {kind} of a generated mode-{mode} v{} map with objects {}", spec.version, spec.kinds()));
        }
    }
    let n_res = if thorough { 2000 } else { 200 };
    let res = resource_maps();
    for ci in 0..n_res {
        let id = format!("wf-res-{ci}");
        if !wanted(only, &id) || res.is_empty() {
            continue;
        }
        let mut rng = case_rng(seed, &id);
        let (mode, text) = &res[ci % res.len()];
        let (bytes, kind) = if ci < res.len() { (text.clone().into_bytes(), "identity") } else { mutate(&mut rng, text) };
        run.count(&format!("wf:mutation:{kind}"));
        run.count(&format!("wf:base:resource-mode-{mode}"));
        run.eval(Some(&format!("res{ci}|{kind}|{}", hash64(&repro_of(&bytes)))));
        check_bytes(run, &id, &bytes, ci % 4 == 0);
    }
    let n_noise = if thorough { 100000 } else { 5000 };
    for ci in 0..n_noise {
        let id = format!("wf-noise-{ci}");
        if !wanted(only, &id) {
            continue;
        }
        let mut rng = case_rng(seed, &id);
        let (bytes, kind) = if ci == 0 { (Vec::new(), "empty") } else { noise(&mut rng) };
        run.count(&format!("wf:mutation:{kind}"));
        run.eval((bytes.len() > 8).then_some(&format!("{kind}|{}", hash64(&repro_of(&bytes)))));
        check_bytes(run, &id, &bytes, ci % 8 == 0);
    }
}
