//! Shared machinery of C12/C13: score-state generator cases, observation of the real builders,
//! request lines for the Lean driver (`GS …`), C12 clause oracles and the exact brute force of C13.

use rosu_pp::{
    any::HitResultPriority,
    catch::{CatchDifficultyAttributes, CatchPerformance, CatchScoreState},
    mania::{ManiaDifficultyAttributes, ManiaPerformance, ManiaScoreState},
    model::mods::rosu_mods::{
        generated_mods::{ClassicMania, ClassicOsu},
        GameMod, GameMods as GameModsLazer, GameModsIntermode,
    },
    osu::{OsuDifficultyAttributes, OsuPerformance, OsuScoreState},
    taiko::{TaikoDifficultyAttributes, TaikoPerformance, TaikoScoreState},
    Difficulty, GameMods,
};

use crate::{
    common::{guarded, Run},
    rng::Rng,
};

pub const OSU: u8 = 0;
pub const TAIKO: u8 = 1;
pub const CATCH: u8 = 2;
pub const MANIA: u8 = 3;

pub const MODE_NAMES: [&str; 4] = ["osu", "taiko", "catch", "mania"];
/// number of optional builder fields (= number of state fields, same order)
pub const N_FIELDS: [usize; 4] = [8, 4, 6, 6];
pub const FIELD_NAMES: [&[&str]; 4] = [
    &["combo", "large_tick_hits", "small_tick_hits", "slider_end_hits", "n300", "n100", "n50", "misses"],
    &["combo", "n300", "n100", "misses"],
    &["combo", "fruits", "droplets", "tiny_droplets", "tiny_droplet_misses", "misses"],
    &["n320", "n300", "n200", "n100", "n50", "misses"],
];
/// indices of the hit-result fields that are distributed over the judgements
pub const HIT_IDX: [&[usize]; 4] = [&[4, 5, 6], &[1, 2], &[], &[0, 1, 2, 3, 4]];
pub const MISS_IDX: [usize; 4] = [7, 3, 5, 5];

/// How lazer/stable/classic is expressed. The derived flags are read back from the library.
pub const N_ORIGINS: u8 = 8;
pub const ORIGIN_NAMES: [&str; 8] = [
    "stable",
    "lazer-default",
    "lazer",
    "lazer+CL(lazer mod)",
    "lazer+CL(intermode)",
    "stable+CL(lazer mod)",
    "lazer+CL(no_slider_head_accuracy=false)",
    "lazer+legacy-bits",
];

#[derive(Clone, Debug)]
pub struct Case {
    pub mode: u8,
    /// osu [max_combo, n_objects, n_sliders, n_large_ticks]; taiko [max_combo]; catch [fruits,
    /// droplets, tiny]; mania [n_objects, n_hold_notes]
    pub attrs: [u32; 4],
    /// osu only: how many of the non-slider objects are spinners
    pub spinners: u32,
    pub passed: Option<u32>,
    pub origin: u8,
    pub worst: bool,
    /// percent, as handed to `.accuracy()`
    pub acc: Option<f64>,
    pub fields: Vec<Option<u32>>,
}

#[derive(Clone, Copy, Debug, PartialEq)]
pub struct Derived {
    pub lazer: bool,
    /// `mods.no_slider_head_acc(lazer)`
    pub nsha: bool,
    /// `mods.cl()`
    pub cl: bool,
}

fn mods_of(mode: u8, origin: u8) -> (GameMods, Option<bool>) {
    let classic_lazer = |nsha: Option<bool>| {
        let mut m = GameModsLazer::new();
        match mode {
            OSU => m.insert(GameMod::ClassicOsu(ClassicOsu {
                no_slider_head_accuracy: nsha,
                ..Default::default()
            })),
            MANIA => m.insert(GameMod::ClassicMania(ClassicMania::default())),
            TAIKO => m.insert(GameMod::ClassicTaiko(Default::default())),
            _ => m.insert(GameMod::ClassicCatch(Default::default())),
        }
        GameMods::from(m)
    };
    match origin {
        0 => (GameMods::from(0u32), Some(false)),
        1 => (GameMods::from(0u32), None),
        2 => (GameMods::from(0u32), Some(true)),
        3 => (classic_lazer(None), Some(true)),
        4 => (
            GameMods::from("CL".parse::<GameModsIntermode>().unwrap_or_default()),
            Some(true),
        ),
        5 => (classic_lazer(None), Some(false)),
        6 => (classic_lazer(Some(false)), Some(true)),
        _ => (GameMods::from(1u32 + 8), Some(true)),
    }
}

pub fn difficulty_of(c: &Case) -> (Difficulty, Derived) {
    let (mods, lazer) = mods_of(c.mode, c.origin);
    let snap = rosu_pp::verif::mods_snapshot(&mods);
    let mut d = Difficulty::new().mods(mods);
    if let Some(l) = lazer {
        d = d.lazer(l);
    }
    if let Some(p) = c.passed {
        d = d.passed_objects(p);
    }
    let g = rosu_pp::verif::difficulty_getters(&d);
    let nsha = if g.lazer { snap.no_slider_head_acc_lazer } else { snap.no_slider_head_acc_stable };
    (d, Derived { lazer: g.lazer, nsha, cl: snap.flags[10] })
}

pub fn derived_of(c: &Case) -> Derived {
    difficulty_of(c).1
}

fn prio(c: &Case) -> HitResultPriority {
    if c.worst {
        HitResultPriority::WorstCase
    } else {
        HitResultPriority::BestCase
    }
}

pub fn osu_attrs(c: &Case) -> OsuDifficultyAttributes {
    let [mc, no, ns, nlt] = c.attrs;
    let spinners = c.spinners.min(no - ns);
    OsuDifficultyAttributes {
        max_combo: mc,
        n_circles: no - ns - spinners,
        n_sliders: ns,
        n_spinners: spinners,
        n_large_ticks: nlt,
        // plausible difficulty values so that `calculate()` yields finite, state-sensitive numbers
        aim: 2.7,
        aim_difficult_slider_count: f64::from(ns) * 0.5,
        speed: 2.4,
        flashlight: 1.6,
        slider_factor: 0.98,
        speed_note_count: f64::from(no) * 0.6,
        aim_difficult_strain_count: 12.0,
        speed_difficult_strain_count: 10.0,
        ar: 9.3,
        great_hit_window: 21.5,
        ok_hit_window: 64.5,
        meh_hit_window: 107.5,
        hp: 5.0,
        stars: 5.4,
    }
}

pub fn osu_perf(c: &Case, fields: &[Option<u32>]) -> OsuPerformance<'static> {
    let mut p = OsuPerformance::new(osu_attrs(c)).difficulty(difficulty_of(c).0).hitresult_priority(prio(c));
    if let Some(a) = c.acc {
        p = p.accuracy(a);
    }
    let f = fields;
    if let Some(v) = f[0] { p = p.combo(v); }
    if let Some(v) = f[1] { p = p.large_tick_hits(v); }
    if let Some(v) = f[2] { p = p.small_tick_hits(v); }
    if let Some(v) = f[3] { p = p.slider_end_hits(v); }
    if let Some(v) = f[4] { p = p.n300(v); }
    if let Some(v) = f[5] { p = p.n100(v); }
    if let Some(v) = f[6] { p = p.n50(v); }
    if let Some(v) = f[7] { p = p.misses(v); }
    p
}

pub fn taiko_attrs(c: &Case) -> TaikoDifficultyAttributes {
    TaikoDifficultyAttributes {
        max_combo: c.attrs[0],
        stamina: 2.1,
        rhythm: 0.9,
        color: 1.3,
        reading: 1.1,
        great_hit_window: 25.0,
        ok_hit_window: 62.0,
        mono_stamina_factor: 0.4,
        stars: 4.2,
        ..Default::default()
    }
}

pub fn taiko_perf(c: &Case, fields: &[Option<u32>]) -> TaikoPerformance<'static> {
    let mut p = TaikoPerformance::new(taiko_attrs(c)).difficulty(difficulty_of(c).0).hitresult_priority(prio(c));
    if let Some(a) = c.acc {
        p = p.accuracy(a);
    }
    let f = fields;
    if let Some(v) = f[0] { p = p.combo(v); }
    if let Some(v) = f[1] { p = p.n300(v); }
    if let Some(v) = f[2] { p = p.n100(v); }
    if let Some(v) = f[3] { p = p.misses(v); }
    p
}

pub fn catch_attrs(c: &Case) -> CatchDifficultyAttributes {
    CatchDifficultyAttributes {
        n_fruits: c.attrs[0],
        n_droplets: c.attrs[1],
        n_tiny_droplets: c.attrs[2],
        stars: 4.1,
        ar: 9.0,
        ..Default::default()
    }
}

pub fn catch_perf(c: &Case, fields: &[Option<u32>]) -> CatchPerformance<'static> {
    let mut p = CatchPerformance::new(catch_attrs(c)).difficulty(difficulty_of(c).0);
    if let Some(a) = c.acc {
        p = p.accuracy(a);
    }
    let f = fields;
    if let Some(v) = f[0] { p = p.combo(v); }
    if let Some(v) = f[1] { p = p.fruits(v); }
    if let Some(v) = f[2] { p = p.droplets(v); }
    if let Some(v) = f[3] { p = p.tiny_droplets(v); }
    if let Some(v) = f[4] { p = p.tiny_droplet_misses(v); }
    if let Some(v) = f[5] { p = p.misses(v); }
    p
}

pub fn mania_attrs(c: &Case) -> ManiaDifficultyAttributes {
    ManiaDifficultyAttributes {
        n_objects: c.attrs[0],
        n_hold_notes: c.attrs[1],
        max_combo: c.attrs[0] + c.attrs[1],
        stars: 4.3,
        ..Default::default()
    }
}

pub fn mania_perf(c: &Case, fields: &[Option<u32>]) -> ManiaPerformance<'static> {
    let mut p = ManiaPerformance::new(mania_attrs(c)).difficulty(difficulty_of(c).0).hitresult_priority(prio(c));
    if let Some(a) = c.acc {
        p = p.accuracy(a);
    }
    let f = fields;
    if let Some(v) = f[0] { p = p.n320(v); }
    if let Some(v) = f[1] { p = p.n300(v); }
    if let Some(v) = f[2] { p = p.n200(v); }
    if let Some(v) = f[3] { p = p.n100(v); }
    if let Some(v) = f[4] { p = p.n50(v); }
    if let Some(v) = f[5] { p = p.misses(v); }
    p
}

fn osu_vec(s: &OsuScoreState) -> Vec<u32> {
    vec![s.max_combo, s.large_tick_hits, s.small_tick_hits, s.slider_end_hits, s.n300, s.n100, s.n50, s.misses]
}
fn taiko_vec(s: &TaikoScoreState) -> Vec<u32> {
    vec![s.max_combo, s.n300, s.n100, s.misses]
}
fn catch_vec(s: &CatchScoreState) -> Vec<u32> {
    vec![s.max_combo, s.fruits, s.droplets, s.tiny_droplets, s.tiny_droplet_misses, s.misses]
}
fn mania_vec(s: &ManiaScoreState) -> Vec<u32> {
    vec![s.n320, s.n300, s.n200, s.n100, s.n50, s.misses]
}

/// What the implementation does on a case.
pub struct Obs {
    /// first `generate_state()`
    pub s1: Result<Vec<u32>, String>,
    /// second `generate_state()` on the same builder
    pub s2: Result<Vec<u32>, String>,
    /// `calculate()` of the builder as given (Debug text) and of `.state(generated)` on a fresh builder
    pub calc: Option<(String, String)>,
}

fn flat<T, E: std::fmt::Debug>(r: Result<Result<T, E>, String>) -> Result<T, String> {
    match r {
        Ok(Ok(v)) => Ok(v),
        Ok(Err(e)) => Err(format!("error:{e:?}")),
        Err(p) => Err(format!("panic:{p}")),
    }
}

pub fn observe(c: &Case, with_calc: bool) -> Obs {
    macro_rules! go {
        ($perf:ident, $vec:ident, $state:expr) => {{
            let mut p = $perf(c, &c.fields);
            let s1 = flat(guarded(|| p.generate_state())).map(|s| $vec(&s));
            let s2 = flat(guarded(|| p.generate_state())).map(|s| $vec(&s));
            let calc = if with_calc {
                let direct = flat(guarded(|| $perf(c, &c.fields).calculate()));
                let direct = match direct {
                    Ok(a) => format!("{a:?}"),
                    Err(e) => e,
                };
                let via = match &s1 {
                    Ok(v) => {
                        let st = $state(v);
                        match flat(guarded(|| $perf(c, &c.fields).state(st).calculate())) {
                            Ok(a) => format!("{a:?}"),
                            Err(e) => e,
                        }
                    }
                    Err(e) => e.clone(),
                };
                Some((direct, via))
            } else {
                None
            };
            Obs { s1, s2, calc }
        }};
    }
    match c.mode {
        OSU => go!(osu_perf, osu_vec, |v: &Vec<u32>| OsuScoreState {
            max_combo: v[0],
            large_tick_hits: v[1],
            small_tick_hits: v[2],
            slider_end_hits: v[3],
            n300: v[4],
            n100: v[5],
            n50: v[6],
            misses: v[7],
        }),
        TAIKO => go!(taiko_perf, taiko_vec, |v: &Vec<u32>| TaikoScoreState {
            max_combo: v[0],
            n300: v[1],
            n100: v[2],
            misses: v[3],
        }),
        CATCH => go!(catch_perf, catch_vec, |v: &Vec<u32>| CatchScoreState {
            max_combo: v[0],
            fruits: v[1],
            droplets: v[2],
            tiny_droplets: v[3],
            tiny_droplet_misses: v[4],
            misses: v[5],
        }),
        _ => go!(mania_perf, mania_vec, |v: &Vec<u32>| ManiaScoreState {
            n320: v[0],
            n300: v[1],
            n200: v[2],
            n100: v[3],
            n50: v[4],
            misses: v[5],
        }),
    }
}

/// `self.acc` as stored by `.accuracy(a)`.
pub fn stored_acc(a: f64) -> f64 {
    a.clamp(0.0, 100.0) / 100.0
}

fn opt(o: Option<u32>) -> String {
    o.map_or_else(|| "-".to_owned(), |v| v.to_string())
}

/// Request line for the Lean driver.
pub fn request_line(c: &Case, d: Derived) -> String {
    let acc = c.acc.map_or_else(|| "-".to_owned(), |a| format!("{:016x}", stored_acc(a).to_bits()));
    let pr = if c.worst { "W" } else { "B" };
    let fields: Vec<String> = c.fields.iter().map(|f| opt(*f)).collect();
    let fields = fields.join(" ");
    match c.mode {
        OSU => format!(
            "GS osu {} {} {} {} {} {} {} {} {} {}",
            c.attrs[0], c.attrs[1], c.attrs[2], c.attrs[3], opt(c.passed), u8::from(d.lazer), u8::from(d.nsha), pr, acc, fields
        ),
        TAIKO => format!("GS taiko {} {} {} {} {}", c.attrs[0], opt(c.passed), pr, acc, fields),
        CATCH => format!("GS catch {} {} {} {} {}", c.attrs[0], c.attrs[1], c.attrs[2], acc, fields),
        _ => format!(
            "GS mania {} {} {} {} {} {} {}",
            c.attrs[0], c.attrs[1], opt(c.passed), u8::from(!d.lazer || d.cl), pr, acc, fields
        ),
    }
}

pub fn describe(c: &Case, d: Derived) -> String {
    let names = FIELD_NAMES[c.mode as usize];
    let mut given = Vec::new();
    for (i, f) in c.fields.iter().enumerate() {
        if let Some(v) = f {
            given.push(format!("{}={}", names[i], v));
        }
    }
    format!(
        "{} attrs={:?} spinners={} passed={:?} origin={}({:?}) priority={} accuracy={:?} given=[{}]",
        MODE_NAMES[c.mode as usize],
        &c.attrs[..[4, 1, 3, 2][c.mode as usize]],
        c.spinners,
        c.passed,
        ORIGIN_NAMES[c.origin as usize],
        d,
        if c.worst { "WorstCase" } else { "BestCase" },
        c.acc,
        given.join(",")
    )
}

/// Number of judgements `(cap for misses, total)` for osu/taiko/mania.
pub fn judgements(c: &Case, d: Derived) -> (u32, u32) {
    let passed = c.passed.unwrap_or(u32::MAX);
    match c.mode {
        OSU => {
            let j = passed.min(c.attrs[1]);
            (j, j)
        }
        TAIKO => {
            let j = passed.min(c.attrs[0]);
            (j, j)
        }
        MANIA => {
            let j0 = passed.min(c.attrs[0]);
            let classic = !d.lazer || d.cl;
            (j0, if classic { j0 } else { j0 + c.attrs[1] })
        }
        _ => (c.attrs[0] + c.attrs[1], c.attrs[0] + c.attrs[1]),
    }
}

/// Does the case run one of the accuracy searches (`best_dist` loops)?
pub fn uses_search(c: &Case) -> bool {
    if c.acc.is_none() {
        return false;
    }
    let f = &c.fields;
    match c.mode {
        OSU => [4, 5, 6].iter().filter(|&&i| f[i].is_some()).count() <= 1,
        TAIKO => f[1].is_none() && f[2].is_none(),
        CATCH => match (f[3], f[4]) {
            (Some(t), Some(tm)) => u64::from(t) + u64::from(tm) != u64::from(c.attrs[2]),
            (None, None) => true,
            _ => false,
        },
        _ => (0..5).filter(|&i| f[i].is_none()).count() >= 2,
    }
}

/// The harness' own statement of when the search accepts at least one candidate; compared with
/// the model's `accepted` bit on every correspondence line.
pub fn claim_accepted(c: &Case) -> bool {
    if !uses_search(c) {
        return true;
    }
    let a = c.acc.unwrap_or(0.0);
    if a.is_nan() {
        return false;
    }
    if c.mode == CATCH {
        // catch `accuracy()` divides 0 by 0 on an object-less map: NaN distance, never accepted
        return c.attrs[0] + c.attrs[1] + c.attrs[2] > 0;
    }
    true
}

fn show_state(mode: u8, s: &[u32]) -> String {
    let names = FIELD_NAMES[mode as usize];
    let v: Vec<String> = s.iter().enumerate().map(|(i, x)| format!("{}={}", names[i], x)).collect();
    v.join(" ")
}

/// All C12 clauses on the implementation's observation of one case.
pub fn check_c12(run: &mut Run, id: &str, c: &Case, d: Derived, o: &Obs) {
    let mode = c.mode as usize;
    let class = "";
    let repro = || format!("{}\n{}", describe(c, d), request_line(c, d));
    let s = match &o.s1 {
        Ok(s) => s.clone(),
        Err(e) => {
            run.fail("oracle:generate_state-fails", class, id, e.clone(), repro());
            return;
        }
    };
    let accepted = claim_accepted(c);
    if !accepted {
        run.count("not-accepted(NaN accuracy or empty catch map)");
    }
    let mi = MISS_IDX[mode];
    let prov = |i: usize| c.fields[i];
    let m_given = prov(mi).unwrap_or(0);
    let (miss_cap, j) = judgements(c, d);
    // misses <= objects
    if s[mi] > miss_cap {
        run.fail("oracle:misses-exceed-objects", class, id, format!("misses {} > {}; state {}", s[mi], miss_cap, show_state(c.mode, &s)), repro());
    }
    // combo <= achievable
    if c.mode != MANIA {
        let mc = if c.mode == CATCH { c.attrs[0] + c.attrs[1] } else { c.attrs[0] };
        let cap = mc.saturating_sub(s[mi]);
        if s[0] > cap {
            run.fail("oracle:combo-above-achievable", class, id, format!("combo {} > {}; state {}", s[0], cap, show_state(c.mode, &s)), repro());
        }
        if let Some(cv) = prov(0) {
            if cv <= cap && s[0] != cv {
                run.fail("oracle:provided-combo-not-kept", class, id, format!("combo {} given, {} generated", cv, s[0]), repro());
            }
        }
    }
    if c.mode == CATCH {
        let [f_all, d_all, t_all, _] = c.attrs;
        if c.fields[1..5].iter().any(|f| f.is_some_and(|v| v >= 1 << 31)) {
            run.count("catch:provided value >= 2^31 (sums saturate since 9eb418a)");
        }
        {
            if u64::from(s[1]) + u64::from(s[2]) + u64::from(s[5]) != u64::from(f_all + d_all) {
                run.fail("oracle:sum-differs-from-judgements", class, id, format!("fruits+droplets+misses != {}; state {}", f_all + d_all, show_state(c.mode, &s)), repro());
            }
            let tsum = u64::from(prov(3).unwrap_or(0)) + u64::from(prov(4).unwrap_or(0));
            if accepted && tsum <= u64::from(t_all) && s[3] + s[4] != t_all {
                run.fail("oracle:sum-differs-from-judgements", class, id, format!("tiny+tiny_misses != {}; state {}", t_all, show_state(c.mode, &s)), repro());
            }
            // kept
            if m_given <= f_all + d_all {
                let m = m_given;
                let fits = match (prov(1), prov(2)) {
                    (Some(f), Some(dd)) => u64::from(f) + u64::from(dd) + u64::from(m) == u64::from(f_all + d_all),
                    (Some(f), None) => f <= f_all && f + m >= f_all && f + m <= f_all + d_all,
                    (None, Some(dd)) => dd <= d_all && dd + m >= d_all && dd + m <= f_all + d_all,
                    (None, None) => true,
                };
                if fits {
                    for i in [1usize, 2, 5] {
                        if let Some(v) = prov(i) {
                            if s[i] != v {
                                run.fail("oracle:provided-result-not-kept", class, id, format!("{} given as {}, generated {}", FIELD_NAMES[mode][i], v, show_state(c.mode, &s)), repro());
                            }
                        }
                    }
                }
            }
            let tfits = match (prov(3), prov(4)) {
                (Some(t), Some(tm)) => u64::from(t) + u64::from(tm) == u64::from(t_all),
                (Some(t), None) => t <= t_all,
                (None, Some(tm)) => tm <= t_all,
                (None, None) => true,
            };
            if tfits {
                for i in [3usize, 4] {
                    if let Some(v) = prov(i) {
                        if s[i] != v {
                            run.fail("oracle:provided-result-not-kept", class, id, format!("{} given as {}, generated {}", FIELD_NAMES[mode][i], v, show_state(c.mode, &s)), repro());
                        }
                    }
                }
            }
        }
    } else {
        let hits = HIT_IDX[mode];
        let psum: u64 = hits.iter().map(|&i| u64::from(prov(i).unwrap_or(0))).sum::<u64>() + u64::from(m_given);
        let total: u64 = hits.iter().map(|&i| u64::from(s[i])).sum::<u64>() + u64::from(s[mi]);
        // mania: the sum clause, idempotence and "kept" for everything but a provided n50 hold whether
        // or not a candidate was accepted (theorems mania_sum_eq_judgements, mania_provided_kept,
        // mania_gen_idempotent): the initial `best` of the nested search is itself consistent
        let mania = c.mode == MANIA;
        if (accepted || mania) && psum <= u64::from(j) && total != u64::from(j) {
            run.fail("oracle:sum-differs-from-judgements", class, id, format!("hit results + misses = {} != {}; state {}", total, j, show_state(c.mode, &s)), repro());
        }
        let all_given = hits.iter().all(|&i| prov(i).is_some());
        let fits = m_given <= miss_cap && psum <= u64::from(j) && (!all_given || psum == u64::from(j));
        if fits {
            for &i in hits.iter().chain(std::iter::once(&mi)) {
                if let Some(v) = prov(i) {
                    // index 4 of mania = n50: the only result whose being kept needs `accepted`
                    let needs_accepted = !mania || i == 4;
                    if s[i] != v {
                        if accepted || !needs_accepted {
                            run.fail("oracle:provided-result-not-kept", class, id, format!("{} given as {}, generated {}", FIELD_NAMES[mode][i], v, show_state(c.mode, &s)), repro());
                        } else if mania {
                            // replay of the Lean witness `mania_n50_kept_needs_accepted`
                            run.count("observation: mania accuracy(NaN) -> a provided n50 is overwritten by the initial best");
                        }
                    }
                }
            }
        }
        if mania {
            // every result <= judgements - misses (theorem mania_results_le), accepted or not
            let cap = j.saturating_sub(s[mi]);
            for &i in hits {
                if s[i] > cap {
                    run.fail("oracle:result-exceeds-remaining", class, id, format!("{} = {} > {}; state {}", FIELD_NAMES[mode][i], s[i], cap, show_state(c.mode, &s)), repro());
                }
            }
        }
        if c.mode == OSU {
            // slider parts: kept when relevant for the origin and within their maximum
            let [_, _, ns, nlt] = c.attrs;
            let expect: [Option<u32>; 3] = match (d.lazer, d.nsha) {
                (false, _) => [Some(0), Some(0), Some(0)],
                (true, false) => [Some(prov(1).map_or(nlt, |v| v.min(nlt))), Some(0), Some(prov(3).map_or(ns, |v| v.min(ns)))],
                (true, true) => [Some(prov(1).map_or(ns + nlt, |v| v.min(ns + nlt))), Some(prov(2).map_or(ns, |v| v.min(ns))), Some(0)],
            };
            for (k, e) in expect.iter().enumerate() {
                if Some(s[1 + k]) != *e {
                    run.fail("oracle:slider-part-unexpected", class, id, format!("{} = {} expected {:?}", FIELD_NAMES[0][1 + k], s[1 + k], e), repro());
                }
            }
        }
    }
    // idempotence and calculate() == state(generated).calculate()
    // mania is idempotent unconditionally (theorem mania_gen_idempotent), so NaN is not exempted there
    let nan = c.acc.is_some_and(f64::is_nan) && c.mode != MANIA;
    if nan {
        run.count("nan-accuracy (outside the documented domain: idempotence not required)");
        if o.s2.as_ref().ok() != Some(&s) {
            // replay of the Lean witnesses `taiko/osu_idempotence_needs_accepted`
            run.count("observation: accuracy(NaN) -> second generate_state() differs from the first");
        }
    } else {
        match &o.s2 {
            Ok(s2) if *s2 == s => {}
            Ok(s2) => run.fail("oracle:generate-twice-differs", class, id, format!("first {} second {}", show_state(c.mode, &s), show_state(c.mode, s2)), repro()),
            Err(e) => run.fail("oracle:generate-twice-differs", class, id, format!("second call fails: {e}"), repro()),
        }
        if let Some((direct, via)) = &o.calc {
            if direct != via {
                run.fail("oracle:calculate-differs-from-explicit-state", class, id, format!("calculate() = {direct}\n.state(generated).calculate() = {via}"), repro());
            }
        }
    }
}

/// Correspondence line: the state fields and the accepted bit as the harness claims it.
pub fn corr_line(run: &mut Run, id: &str, c: &Case, d: Derived, o: &Obs) {
    let observed = match &o.s1 {
        Ok(s) => {
            let v: Vec<String> = s.iter().map(u32::to_string).collect();
            format!("{} a{}", v.join(" "), u8::from(claim_accepted(c)))
        }
        Err(_) => "PANIC".to_owned(),
    };
    run.line(id, request_line(c, d), observed);
}

// ---------------------------------------------------------------------------------------------
// FP lines: builder inputs -> pp outputs of `calculate()` (Model/FullPerf.lean)

fn fp_hex(v: f64) -> String {
    format!("{:016x}", v.to_bits())
}

fn fp_show(v: f64) -> String {
    if v.is_nan() {
        "nan".into()
    } else {
        format!("b:{:016x}", v.to_bits())
    }
}

fn fp_opt(v: Option<f64>) -> String {
    v.map_or_else(|| "none".into(), fp_show)
}

/// `FP …` correspondence line: the attribute record, the settings and the *builder inputs* (not a
/// state) against the pp outputs of the real `calculate()`.  `None` when the case is not compared
/// (osu!: `attrs.max_combo - n_slider_ends_dropped` underflows for inconsistent attributes — a debug
/// build panics, a release build wraps; the model's `…Dom` flags it).
pub fn fp_line(run: &mut Run, id: &str, c: &Case, d: Derived, o: &Obs) {
    let flags = rosu_pp::verif::mods_snapshot(&mods_of(c.mode, c.origin).0).flags;
    let bit = |x: bool| if x { '1' } else { '0' };
    let acc = c.acc.map_or_else(|| "-".to_owned(), |a| fp_hex(stored_acc(a)));
    let pr = if c.worst { "W" } else { "B" };
    let fields: Vec<String> = c.fields.iter().map(|f| opt(*f)).collect();
    let fields = fields.join(" ");
    let panicked = |r: &Result<String, String>| r.as_ref().err().is_some_and(|e| e.starts_with("panic:"));
    let name = MODE_NAMES[c.mode as usize];
    // `total_hits()` of the score states is a plain u32 sum.  catch's `generate_state` keeps provided
    // tiny_droplets / tiny_droplet_misses beyond the map's count (C12: "kept whenever they fit" only), so
    // e.g. `.tiny_droplets(u32::MAX).tiny_droplet_misses(1)` makes `total_hits()` overflow inside
    // `calculate()`: debug panic / release wrap (the pp model counts in Nat: stated assumption of C09).
    // Counted, reported (docs/delivery-PP.md), not compared.
    if let Ok(s) = &o.s1 {
        let from = if c.mode == MANIA { 0 } else if c.mode == OSU { 4 } else { 1 };
        let total: u64 = s[from..].iter().map(|&v| u64::from(v)).sum();
        if total > u64::from(u32::MAX) {
            run.count(&format!("FP-{name}: skipped, total_hits() of the generated state overflows u32 (provided results beyond the map's count are kept)"));
            return;
        }
    }
    let (req, obs): (String, Result<String, String>) = match c.mode {
        OSU => {
            let a = osu_attrs(c);
            if let Ok(s) = &o.s1 {
                if a.n_sliders > 0 && !d.nsha && a.n_sliders - s[3].min(a.n_sliders) > a.max_combo {
                    run.count("FP-osu: skipped, inconsistent attributes (max_combo < dropped slider ends: u32 underflow)");
                    return;
                }
            }
            let fs = [
                a.aim, a.aim_difficult_slider_count, a.speed, a.flashlight, a.slider_factor, a.speed_note_count,
                a.aim_difficult_strain_count, a.speed_difficult_strain_count, a.ar, a.great_hit_window,
                a.ok_hit_window, a.meh_hit_window, a.hp,
            ];
            let fs: Vec<String> = fs.iter().map(|v| fp_hex(*v)).collect();
            // nf so rx ap bl hd tc fl
            let ms: String = [flags[0], flags[7], flags[5], flags[8], flags[9], flags[3], flags[13], flags[6]]
                .iter().map(|x| bit(*x)).collect();
            let req = format!(
                "FP osu {} {},{},{},{},{} {} {} {} {} {} {} {}",
                fs.join(","), a.n_circles, a.n_sliders, a.n_large_ticks, a.n_spinners, a.max_combo, ms,
                opt(c.passed), u8::from(d.lazer), u8::from(d.nsha), pr, acc, fields
            );
            let obs = flat(guarded(|| osu_perf(c, &c.fields).calculate())).map(|p| {
                format!(
                    "pp={} acc={} aim={} fl={} speed={} emc={} sd={}",
                    fp_show(p.pp), fp_show(p.pp_acc), fp_show(p.pp_aim), fp_show(p.pp_flashlight),
                    fp_show(p.pp_speed), fp_show(p.effective_miss_count), fp_opt(p.speed_deviation)
                )
            });
            (req, obs)
        }
        TAIKO => {
            let r = flat(guarded(|| taiko_perf(c, &c.fields).calculate()));
            let a = taiko_attrs(c);
            // hd ez fl
            let ms: String = [flags[3], flags[1], flags[6]].iter().map(|x| bit(*x)).collect();
            let req = format!(
                "FP taiko {},{},{} {},{} {} {} {} {} {}",
                fp_hex(a.great_hit_window), fp_hex(a.mono_stamina_factor), fp_hex(a.stars), a.max_combo,
                u8::from(a.is_convert), ms, opt(c.passed), pr, acc, fields
            );
            let obs = r.map(|p| {
                format!(
                    "pp={} acc={} diff={} emc={} eur={}",
                    fp_show(p.pp), fp_show(p.pp_acc), fp_show(p.pp_difficulty), fp_show(p.effective_miss_count),
                    fp_opt(p.estimated_unstable_rate)
                )
            });
            (req, obs)
        }
        CATCH => {
            let r = flat(guarded(|| catch_perf(c, &c.fields).calculate()));
            let a = catch_attrs(c);
            // hd fl nf
            let ms: String = [flags[3], flags[6], flags[0]].iter().map(|x| bit(*x)).collect();
            let req = format!(
                "FP catch {},{} {},{},{} {} {} {}",
                fp_hex(a.stars), fp_hex(a.ar), a.n_fruits, a.n_droplets, a.n_tiny_droplets, ms, acc, fields
            );
            (req, r.map(|p| format!("pp={}", fp_show(p.pp))))
        }
        _ => {
            let r = flat(guarded(|| mania_perf(c, &c.fields).calculate()));
            let a = mania_attrs(c);
            // nf ez
            let ms: String = [flags[0], flags[1]].iter().map(|x| bit(*x)).collect();
            let req = format!(
                "FP mania {} {},{} {} {} {} {} {} {}",
                fp_hex(a.stars), a.n_objects, a.n_hold_notes, ms, opt(c.passed), u8::from(!d.lazer || d.cl), pr, acc,
                fields
            );
            (req, r.map(|p| format!("pp={} diff={}", fp_show(p.pp), fp_show(p.pp_difficulty))))
        }
    };
    let observed = if panicked(&obs) {
        "PANIC".to_owned()
    } else {
        match obs {
            Ok(s) => s,
            Err(e) => e,
        }
    };
    run.count(&format!("lines:FP-{name}"));
    if o.s1.is_err() {
        run.count(&format!("FP-{name}: generate_state fails (compared: PANIC)"));
    }
    run.line(id, req, observed);
}

// ---------------------------------------------------------------------------------------------
// exact arithmetic for C13

/// `t = m / 2^k` for a finite non-negative double.
pub fn decompose(t: f64) -> Option<(u128, u32)> {
    if !(t.is_finite() && t >= 0.0) {
        return None;
    }
    if t == 0.0 {
        return Some((0, 0));
    }
    let bits = t.to_bits();
    let exp = ((bits >> 52) & 0x7ff) as i32;
    let frac = bits & ((1u64 << 52) - 1);
    let (m, e) = if exp == 0 { (frac, -1074) } else { (frac | (1u64 << 52), exp - 1075) };
    if e >= 0 {
        if e > 40 {
            return None;
        }
        Some((u128::from(m) << e, 0))
    } else if -e > 72 {
        None
    } else {
        Some((u128::from(m), (-e) as u32))
    }
}

/// All achievable accuracy numerators over the constant denominator `den` for the case's objects
/// with `misses` misses and no other provided result: `(den, sorted unique numerators)`.
pub fn achievable(c: &Case, d: Derived, misses: u32) -> (u64, Vec<u64>) {
    let (_, j) = judgements(c, d);
    let mut nums = Vec::new();
    match c.mode {
        OSU => {
            let r = j - misses;
            let [_, _, ns, nlt] = c.attrs;
            let extra = match (d.lazer, d.nsha) {
                (false, _) => 0,
                (true, false) => 150 * ns + 30 * nlt,
                (true, true) => 30 * (ns + nlt) + 10 * ns,
            };
            for a in 0..=r {
                for b in 0..=(r - a) {
                    let cc = r - a - b;
                    nums.push(u64::from(300 * a + 100 * b + 50 * cc + extra));
                }
            }
            nums.sort_unstable();
            nums.dedup();
            (u64::from(300 * j + extra), nums)
        }
        TAIKO => {
            let r = j - misses;
            for a in 0..=r {
                nums.push(u64::from(2 * a + (r - a)));
            }
            nums.sort_unstable();
            nums.dedup();
            (u64::from(2 * j), nums)
        }
        CATCH => {
            let [f, dd, t, _] = c.attrs;
            let fd = f + dd - misses;
            for x in 0..=t {
                nums.push(u64::from(fd + x));
            }
            (u64::from(f + dd + t), nums)
        }
        _ => {
            let r = j - misses;
            let classic = !d.lazer || d.cl;
            let w = if classic { 60 } else { 61 };
            for a in 0..=r {
                for b in 0..=(r - a) {
                    for e in 0..=(r - a - b) {
                        for f in 0..=(r - a - b - e) {
                            let g = r - a - b - e - f;
                            nums.push(u64::from(w * a + 60 * b + 40 * e + 20 * f + 10 * g));
                        }
                    }
                }
            }
            nums.sort_unstable();
            nums.dedup();
            (u64::from(w * j), nums)
        }
    }
}

/// Accuracy numerator of a generated state over the same constant denominator, or `None` if the
/// state does not distribute exactly the case's objects.
pub fn state_numerator(c: &Case, d: Derived, misses: u32, s: &[u32]) -> Option<u64> {
    let (_, j) = judgements(c, d);
    match c.mode {
        OSU => {
            let [_, _, ns, nlt] = c.attrs;
            if s[4] + s[5] + s[6] + s[7] != j || s[7] != misses {
                return None;
            }
            let extra = match (d.lazer, d.nsha) {
                (false, _) => 0,
                (true, false) => 150 * s[3].min(ns) + 30 * s[1].min(nlt),
                (true, true) => 30 * s[1].min(ns + nlt) + 10 * s[2].min(ns),
            };
            Some(u64::from(300 * s[4] + 100 * s[5] + 50 * s[6] + extra))
        }
        TAIKO => {
            if s[1] + s[2] + s[3] != j || s[3] != misses {
                return None;
            }
            Some(u64::from(2 * s[1] + s[2]))
        }
        CATCH => {
            let [f, dd, t, _] = c.attrs;
            if s[1] + s[2] + s[5] != f + dd || s[5] != misses || s[3] + s[4] != t {
                return None;
            }
            Some(u64::from(s[1] + s[2] + s[3]))
        }
        _ => {
            let classic = !d.lazer || d.cl;
            let w = if classic { 60 } else { 61 };
            if s[0] + s[1] + s[2] + s[3] + s[4] + s[5] != j || s[5] != misses {
                return None;
            }
            Some(u64::from(w * s[0] + 60 * s[1] + 40 * s[2] + 20 * s[3] + 10 * s[4]))
        }
    }
}

/// `|t·den − num|·2^k` as an exact integer, `t = m/2^k`.
pub fn scaled_dist(m: u128, k: u32, den: u64, num: u64) -> u128 {
    let a = m * u128::from(den);
    let b = u128::from(num) << k;
    a.abs_diff(b)
}

/// Values a provided field is drawn from: `0..=n+2` with the edges favoured.
pub fn pick_value(rng: &mut Rng, n: u32) -> u32 {
    match rng.below(8) {
        0 => 0,
        1 => n,
        2 => n + 1 + rng.below(2) as u32,
        _ => rng.below(u64::from(n) + 3) as u32,
    }
}

pub const ACCS: [f64; 9] = [0.0, 33.3, 50.0, 87.5, 99.99, 100.0, 250.0, -1.0, f64::NAN];
