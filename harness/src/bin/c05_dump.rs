//! Prints the text of a C05 case: `c05_dump <seed> <adv|real> <idx>`.
use std::io::Write;
fn main() {
    let a: Vec<String> = std::env::args().collect();
    let seed: u64 = a[1].parse().unwrap();
    let d = if a[2] == "adv" { rosu_verif::c05::Domain::Adv } else { rosu_verif::c05::Domain::Real };
    let c = rosu_verif::c05::gen_case(seed, d, a[3].parse().unwrap());
    eprintln!("kind={} origin={} tags={:?}", c.kind, c.origin, c.tags);
    std::io::stdout().write_all(&c.bytes).unwrap();
}
