//! Replays one osu! map through the mania converter in a child-process-friendly way:
//! `mania_replay <file.osu> <keys 0-9> [calc]` prints `suspicion=…`, then `OK objects=<n> cs=<k>` or
//! `PANIC <message>` (exit code 3). With `calc` the mania difficulty is computed too.
use rosu_pp::{model::mode::GameMode, Beatmap, Difficulty, GameMods};

// the hooked crate reports to `rosu_pp_verif_view_sink` (harness/src/viewsink.rs): keep the harness lib linked
#[used]
static VIEW_SINK: fn(u8, u8, usize, &[bool]) = rosu_verif::viewsink::rosu_pp_verif_view_sink;

fn main() {
    let a: Vec<String> = std::env::args().collect();
    let bytes = std::fs::read(&a[1]).expect("read map");
    let keys: u32 = a[2].parse().expect("keys");
    let bits: u32 = match keys {
        1 => 1 << 26,
        2 => 1 << 28,
        3 => 1 << 27,
        4 => 1 << 15,
        5 => 1 << 16,
        6 => 1 << 17,
        7 => 1 << 18,
        8 => 1 << 19,
        9 => 1 << 24,
        _ => 0,
    };
    let map = Beatmap::from_bytes(&bytes).expect("decode");
    println!("objects-in={} suspicion={:?}", map.hit_objects.len(), map.check_suspicion());
    let mods = GameMods::from(bits);
    let calc = a.get(3).is_some_and(|s| s == "calc");
    let r = std::panic::catch_unwind(|| {
        let out = map.clone().convert(GameMode::Mania, &mods).expect("convert");
        let stars = if calc { Some(Difficulty::new().mods(bits).calculate(&out).stars()) } else { None };
        (out, stars)
    });
    match r {
        Ok((out, stars)) => {
            println!("OK objects={} cs={} stars={stars:?}", out.hit_objects.len(), out.cs);
            for h in out.hit_objects.iter().take(12) {
                println!("  x={} t={} kind={:?}", h.pos.x, h.start_time, h.kind);
            }
        }
        Err(e) => {
            let msg = e.downcast_ref::<&str>().map(|s| (*s).to_owned()).or_else(|| e.downcast_ref::<String>().cloned()).unwrap_or_default();
            println!("PANIC {msg}");
            std::process::exit(3);
        }
    }
}
