//! Tiny lifetime-history program for `cargo +nightly miri run --bin miri_hist` (C11, thorough
//! tier). Small on purpose: Miri interprets every instruction.
//!
//! (a) StrainsVec op sequence incl. zero runs, retain/sort/transmute, into_vec;
//! (b) gradual calculators of all four modes: construct, step, move into Box / Vec / thread,
//!     drop mid-iteration, interleave two instances;
//! (c) decoder on slider input (the `*const str` scratch buffer), including a malformed line.

use rosu_pp::{
    catch::CatchGradualDifficulty, mania::ManiaGradualDifficulty, osu::OsuGradualDifficulty,
    taiko::TaikoGradualDifficulty, verif::StrainsVec, Beatmap, Difficulty, GradualPerformance,
};

// the hooked crate reports to `rosu_pp_verif_view_sink` (harness/src/viewsink.rs): keep the harness
// library linked so the symbol is defined
#[allow(dead_code)]
const VIEW_SINK: fn(u8, u8, usize, &[bool]) = rosu_verif::viewsink::rosu_pp_verif_view_sink;

const OSU_MAP: &str = "osu file format v14

[General]
Mode: 0

[Difficulty]
HPDrainRate:5
CircleSize:4
OverallDifficulty:7
ApproachRate:8
SliderMultiplier:1.4
SliderTickRate:1

[TimingPoints]
0,500,4,2,0,100,1,0

[HitObjects]
100,100,0,1,0
200,150,400,2,0,B|250:200|300:120,1,70
256,192,1000,2,0,B|,1,
300,200,1200,1,0
64,64,1600,2,0,L|128:64,2,60
256,192,3000,12,0,3600
400,300,4200,1,0
";

const MANIA_MAP: &str = "osu file format v14

[General]
Mode: 3

[Difficulty]
HPDrainRate:5
CircleSize:4
OverallDifficulty:7
ApproachRate:8
SliderMultiplier:1.4
SliderTickRate:1

[TimingPoints]
0,500,4,2,0,100,1,0

[HitObjects]
64,192,0,1,0
192,192,200,128,0,700:0:0:0:0:
320,192,400,1,0
448,192,2500,1,0
64,192,2700,128,0,2900:0:0:0:0:
";

macro_rules! plain {
    ( $ty:ty, $map:expr ) => {{
        let mut g = <$ty>::new(Difficulty::new(), $map).unwrap();
        let mut v = Vec::new();
        while let Some(a) = g.next() {
            v.push(format!("{a:?}"));
        }
        v
    }};
}

/// construct, step, move into a Box, step, move out, step, drop mid-iteration
macro_rules! hist_box {
    ( $ty:ty, $map:expr ) => {{
        let mut g = <$ty>::new(Difficulty::new().mods(64u32), $map).unwrap();
        let _ = g.next();
        let mut b = Box::new(g);
        let _ = b.next();
        let mut back = *b;
        let _ = back.next();
        drop(back);
    }};
}

/// three instances in a Vec that reallocates, stepped round-robin, swapped, truncated
macro_rules! hist_vec {
    ( $ty:ty, $map:expr ) => {{
        let plain = plain!($ty, $map);
        let mut v: Vec<$ty> = Vec::new();
        for _ in 0..3 {
            let mut g = <$ty>::new(Difficulty::new(), $map).unwrap();
            let _ = g.next();
            v.push(g);
        }
        let mut outs = vec![vec![plain.first().cloned().unwrap_or_default()]; 3];
        for _ in 0..plain.len() {
            for (g, o) in v.iter_mut().zip(outs.iter_mut()) {
                if let Some(a) = g.next() {
                    o.push(format!("{a:?}"));
                }
            }
        }
        if !plain.is_empty() {
            for o in &outs {
                assert_eq!(o, &plain, "interleaved instances must agree with plain iteration");
            }
        }
        v.swap(0, 2);
        v.truncate(1);
    }};
}

/// step, move into a thread, step there, drop there
macro_rules! hist_thread {
    ( $ty:ty, $map:expr ) => {{
        let mut g = <$ty>::new(Difficulty::new(), $map).unwrap();
        let _ = g.next();
        std::thread::spawn(move || {
            let _ = g.next();
            drop(g);
        })
        .join()
        .unwrap();
    }};
}

/// step, move into a closure that is called on the same thread
macro_rules! hist_closure {
    ( $ty:ty, $map:expr ) => {{
        let mut g = <$ty>::new(Difficulty::new(), $map).unwrap();
        let _ = g.next();
        let f = move || {
            let _ = g.next();
            drop(g);
        };
        f();
    }};
}

/// step, pass by value to a function that steps and drops
macro_rules! hist_byvalue {
    ( $ty:ty, $map:expr ) => {{
        fn consume(mut g: $ty) {
            let _ = g.next();
        }
        let mut g = <$ty>::new(Difficulty::new(), $map).unwrap();
        let _ = g.next();
        consume(g);
    }};
}

macro_rules! mode_scenarios {
    ( $name:expr, $which:expr, $ty:ty, $map:expr, $threads:expr ) => {{
        let w: &str = $which;
        let mut ran = 0;
        if w == "all" || w == concat!($name, "-box") {
            hist_box!($ty, $map);
            ran += 1;
        }
        if w == "all" || w == concat!($name, "-vec") {
            hist_vec!($ty, $map);
            ran += 1;
        }
        if w == "all" || w == concat!($name, "-closure") {
            hist_closure!($ty, $map);
            ran += 1;
        }
        if w == "all" || w == concat!($name, "-byvalue") {
            hist_byvalue!($ty, $map);
            ran += 1;
        }
        ran += $threads(w);
        ran
    }};
}

fn sv_scenario() {
    let mut sv = StrainsVec::with_capacity(2);
    for x in [1.5, 0.0, 0.0, 0.0, 2.5, -1.0, f64::NAN, 0.0, 1e-310, f64::INFINITY, 0.0] {
        sv.push(x);
    }
    assert_eq!(sv.len(), 11);
    let collected: Vec<f64> = sv.iter().collect();
    let exported = sv.clone().into_vec();
    assert_eq!(collected.len(), 11);
    assert_eq!(exported.len(), 11);
    let _ = sv.sum();
    let mut c = sv.clone();
    for x in c.sorted_non_zero_iter_mut().take(2) {
        *x *= 0.75;
    }
    c.sort_desc();
    let t = unsafe { c.transmute_into_vec() };
    assert!(t.iter().all(|x| x.to_bits() != 0));
    sv.retain_non_zero_and_sort();
    let _ = unsafe { sv.transmute_into_vec() };
    let empty = StrainsVec::with_capacity(0);
    assert!(empty.clone().into_vec().is_empty());
    assert_eq!(empty.iter().count(), 0);
}

fn main() {
    let which = std::env::args().nth(1).unwrap_or_else(|| "all".to_owned());
    let w = which.as_str();
    let mut ran = 0;
    if w == "all" || w == "sv" {
        sv_scenario();
        ran += 1;
    }
    // (c): every scenario below decodes with the real decoder (slider lines, one malformed)
    let osu = Beatmap::from_bytes(OSU_MAP.as_bytes()).unwrap();
    let mania = Beatmap::from_bytes(MANIA_MAP.as_bytes()).unwrap();
    if w == "decode" {
        let again = Beatmap::from_bytes(OSU_MAP.as_bytes()).unwrap();
        assert_eq!(osu, again);
        ran += 1;
    }
    ran += mode_scenarios!("osu", w, OsuGradualDifficulty, &osu, |w: &str| {
        if w == "all" || w == "osu-thread" {
            hist_thread!(OsuGradualDifficulty, &osu);
            1
        } else {
            0
        }
    });
    ran += mode_scenarios!("taiko", w, TaikoGradualDifficulty, &osu, |_w: &str| 0);
    ran += mode_scenarios!("catch", w, CatchGradualDifficulty, &osu, |w: &str| {
        if w == "all" || w == "catch-thread" {
            hist_thread!(CatchGradualDifficulty, &osu);
            1
        } else {
            0
        }
    });
    ran += mode_scenarios!("mania", w, ManiaGradualDifficulty, &mania, |w: &str| {
        if w == "all" || w == "mania-thread" {
            hist_thread!(ManiaGradualDifficulty, &mania);
            1
        } else {
            0
        }
    });
    for (name, map) in [("osu-perf-box", &osu), ("mania-perf-box", &mania)] {
        if w == "all" || w == name {
            let mut gp = Box::new(GradualPerformance::new(Difficulty::new(), map));
            let mut state = rosu_pp::any::ScoreState::new();
            for i in 0..2 {
                state.max_combo = i + 1;
                state.n300 = i + 1;
                let _ = gp.next(state.clone());
            }
            let mut moved = *gp;
            let _ = moved.next(state.clone());
            drop(moved);
            ran += 1;
        }
    }
    assert!(ran > 0, "unknown scenario {which}");
    println!("miri_hist ok: scenario={which} ran={ran}");
}
