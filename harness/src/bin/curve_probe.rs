//! Replays of the curve observations of docs/delivery-CURVE.md on the real code.
//!   curve_probe map <file.osu>        stars of the four modes (NaN propagation of a curve vertex)
//!   curve_probe bezier <coord> <n>    `Curve::new` on an n-point bezier zig-zag at coordinate scale
//!                                     <coord> (run under `timeout` and `ulimit -v`: beyond 2^24 the
//!                                     subdivision loop of the real code never becomes flat)
use rosu_map::{
    section::{
        general::GameMode as MapMode,
        hit_objects::{Curve, CurveBuffers, PathControlPoint, PathType},
    },
    util::Pos,
};
use rosu_pp::{model::mode::GameMode, Beatmap, Difficulty};

// the hooked crate reports to `rosu_pp_verif_view_sink` (harness/src/viewsink.rs): keep the harness lib linked
#[used]
static VIEW_SINK: fn(u8, u8, usize, &[bool]) = rosu_verif::viewsink::rosu_pp_verif_view_sink;

fn main() {
    let args: Vec<String> = std::env::args().collect();
    match args.get(1).map(String::as_str) {
        Some("map") => {
            let map = Beatmap::from_path(&args[2]).expect("decode");
            println!("suspicion: {:?}", map.check_suspicion());
            std::panic::set_hook(Box::new(|_| {}));
            let mods: u32 = args.get(3).and_then(|s| s.parse().ok()).unwrap_or(0);
            for mode in [GameMode::Osu, GameMode::Taiko, GameMode::Catch, GameMode::Mania] {
                let Ok(conv) = map.clone().convert(mode, &mods.into()) else {
                    println!("{mode:?}: not convertible");
                    continue;
                };
                let bad = |s: &str| s.contains("NaN") || s.contains("inf");
                let fields = |s: &str| -> String {
                    s.split(", ").filter(|f| f.contains("NaN") || f.contains("inf") || f.contains(": -")).collect::<Vec<_>>().join(", ")
                };
                let c2 = conv.clone();
                match std::panic::catch_unwind(move || Difficulty::new().mods(mods).calculate(&c2)) {
                    Err(e) => println!("{mode:?}: calculate PANIC: {}", e.downcast_ref::<String>().cloned().or_else(|| e.downcast_ref::<&str>().map(|s| (*s).to_owned())).unwrap_or_default()),
                    Ok(d) => {
                        let dbg = format!("{d:?}");
                        println!("{mode:?}: stars = {} ; suspicious fields: [{}]", d.stars(), fields(&dbg));
                        let p = std::panic::catch_unwind(move || format!("{:?}", d.performance().calculate()));
                        match p {
                            Ok(s) => println!("   performance non-finite: {} [{}]", bad(&s), fields(&s)),
                            Err(_) => println!("   performance PANIC"),
                        }
                    }
                }
                let c3 = conv.clone();
                match std::panic::catch_unwind(move || format!("{:?}", Difficulty::new().mods(mods).strains(&c3))) {
                    Err(_) => println!("   strains PANIC"),
                    Ok(s) => println!("   strains non-finite: {} (NaN x{}, inf x{})", bad(&s), s.matches("NaN").count(), s.matches("inf").count()),
                }
            }
        }
        Some("nansearch") => {
            // random maps around a slider whose curve has a NaN vertex (O2: osu!-mode catmull cut, O3: arc
            // with a non-finite centre): does anything non-finite / negative / a panic reach an output?
            std::panic::set_hook(Box::new(|_| {}));
            let n: u64 = args[2].parse().expect("maps");
            let mut st: u64 = args.get(3).and_then(|s| s.parse().ok()).unwrap_or(1);
            let mut next = move || {
                st = st.wrapping_add(0x9E37_79B9_7F4A_7C15);
                let mut z = st;
                z = (z ^ (z >> 30)).wrapping_mul(0xBF58_476D_1CE4_E5B9);
                z = (z ^ (z >> 27)).wrapping_mul(0x94D0_49BB_1331_11EB);
                z ^ (z >> 31)
            };
            let mut classes: std::collections::BTreeMap<String, (u64, String)> = std::collections::BTreeMap::new();
            for it in 0..n {
                let kind = next() % 3; // 0, 1: O2; 2: O3
                let version = [9u64, 7, 5, 14][(next() % 4) as usize];
                let file_mode = if kind == 2 { [0u64, 0, 2][(next() % 3) as usize] } else { 0 };
                let mut objs: Vec<String> = Vec::new();
                let mut t = 1000i64;
                let before = next() % 3;
                for _ in 0..before {
                    objs.push(format!("{},{},{t},1,0", next() % 512, next() % 384));
                    t += 80 + (next() % 400) as i64;
                }
                let slides = 1 + next() % 4;
                let (sx, sy);
                if kind < 2 {
                    sx = (next() % 512) as i64;
                    sy = (next() % 384) as i64;
                    let dx = 20 + (next() % 60) as i64;
                    let len = 1 + next() % ((dx as u64 * 14 / 100).max(1));
                    let tail = if next() % 2 == 0 { String::new() } else { format!("|{}:{}", sx + dx + 30, sy + 40) };
                    objs.push(format!("{sx},{sy},{t},2,0,C|{sx}:{sy}|{sx}:{sy}|{}:{sy}{tail},{slides},{len}", sx + dx));
                } else {
                    let triples = [[(222420i64, 110053i64), (224765, 107662), (232416, 99861)], [(207524, -35352), (207775, -35096), (219174, -23469)]];
                    let tr = triples[(next() % 2) as usize];
                    sx = -110000 + (next() % 9000) as i64;
                    sy = (next() % 20000) as i64;
                    let p: Vec<String> = tr.iter().map(|q| format!("{}:{}", q.0 + sx, q.1 + sy)).collect();
                    objs.push(format!("{sx},{sy},{t},2,0,L|{}:{sy}|P|{},{slides},{}", sx + 10, p.join("|"), [100u64, 300, 1000, 300000][(next() % 4) as usize]));
                }
                t += 60 + (next() % 600) as i64;
                let after = next() % 5;
                for _ in 0..after {
                    let (x, y) = if next() % 3 == 0 { (sx.clamp(0, 512), sy.clamp(0, 384)) } else { ((next() % 512) as i64, (next() % 384) as i64) };
                    if next() % 4 == 0 {
                        objs.push(format!("{x},{y},{t},2,0,L|{}:{},{},{}", x + 60, y + 20, 1 + next() % 2, 60 + next() % 100));
                    } else {
                        objs.push(format!("{x},{y},{t},1,0"));
                    }
                    t += 40 + (next() % 500) as i64;
                }
                let text = format!(
                    "osu file format v{version}\n\n[General]\nMode: {file_mode}\nStackLeniency: 0.{}\n\n[Difficulty]\nHPDrainRate:5\nCircleSize:{}\nOverallDifficulty:{}\nApproachRate:{}\nSliderMultiplier:{}\nSliderTickRate:{}\n\n[TimingPoints]\n0,{},4,2,0,100,1,0\n\n[HitObjects]\n{}\n",
                    next() % 10,
                    2 + next() % 6,
                    2 + next() % 8,
                    2 + next() % 9,
                    ["0.4", "1.4", "3.6"][(next() % 3) as usize],
                    [1u64, 2, 4, 8][(next() % 4) as usize],
                    [250u64, 500, 1000][(next() % 3) as usize],
                    objs.join("\n")
                );
                let Ok(map) = Beatmap::from_bytes(text.as_bytes()) else { continue };
                if map.check_suspicion().is_err() {
                    continue;
                }
                let mods: u32 = [0u32, 16, 8, 1024, 64, 2, 256, 16 + 64, 1024 + 8, 1 << 30, 16 + 1024][(next() % 11) as usize];
                for mode in [GameMode::Osu, GameMode::Taiko, GameMode::Catch, GameMode::Mania] {
                    let Ok(conv) = map.clone().convert(mode, &mods.into()) else { continue };
                    let mut note = |class: String| {
                        let e = classes.entry(class).or_insert((0, format!("mods={mods} {text}")));
                        e.0 += 1;
                    };
                    let susp = |s: &str| -> Vec<String> {
                        s.split(", ").filter(|f| f.contains("NaN") || f.contains("inf") || (f.contains(": -") && !f.contains(": -0.0") && !f.contains("ar: -"))).map(|f| f.split(':').next().unwrap_or("").trim_start_matches(|c: char| !c.is_alphabetic()).to_owned()).collect()
                    };
                    let c2 = conv.clone();
                    match std::panic::catch_unwind(move || Difficulty::new().mods(mods).calculate(&c2)) {
                        Err(e) => note(format!("k{kind} {mode:?} calculate PANIC: {}", e.downcast_ref::<String>().cloned().unwrap_or_default())),
                        Ok(d) => {
                            for f in susp(&format!("{d:?}")) {
                                note(format!("k{kind} {mode:?} attribute {f}"));
                            }
                            match std::panic::catch_unwind(move || format!("{:?}", d.performance().calculate())) {
                                Ok(s) => {
                                    for f in susp(&s) {
                                        note(format!("k{kind} {mode:?} performance {f}"));
                                    }
                                }
                                Err(_) => note(format!("k{kind} {mode:?} performance PANIC")),
                            }
                        }
                    }
                    let c3 = conv.clone();
                    match std::panic::catch_unwind(move || format!("{:?}", Difficulty::new().mods(mods).strains(&c3))) {
                        Err(_) => note(format!("k{kind} {mode:?} strains PANIC")),
                        Ok(s) => {
                            if s.contains("NaN") || s.contains("inf") {
                                note(format!("k{kind} {mode:?} strains non-finite"));
                            }
                        }
                    }
                }
                if it % 2000 == 1999 {
                    eprintln!("{} maps, classes {}", it + 1, classes.len());
                }
            }
            for (c, (k, ex)) in &classes {
                println!("CLASS {c}  x{k}\n   first example: {}", ex.replace('\n', "\\n"));
            }
            println!("{} classes", classes.len());
        }
        Some("sliders") => {
            let map = Beatmap::from_path(&args[2]).expect("decode");
            for h in &map.hit_objects {
                if let rosu_pp::model::hit_object::HitObjectKind::Slider(s) = &h.kind {
                    println!("control points {:?} expected {:?}", s.control_points, s.expected_dist);
                    let c = Curve::new(MapMode::Osu, &s.control_points, s.expected_dist, &mut CurveBuffers::default());
                    println!("  path {:?}\n  lengths {:?}\n  position_at(1) {:?}", c.path(), c.lengths(), c.position_at(1.0));
                }
            }
        }
        Some("bezier") => {
            let c: f32 = args[2].parse().expect("coord");
            let n: usize = args[3].parse().expect("n");
            let pts: Vec<PathControlPoint> = (0..n)
                .map(|i| PathControlPoint {
                    pos: Pos::new(if i % 2 == 0 { c } else { c + 3.0 * (c.abs() * f32::EPSILON).max(1.0) }, c + i as f32),
                    path_type: (i == 0).then_some(PathType::BEZIER),
                })
                .collect();
            let t = std::time::Instant::now();
            let curve = Curve::new(MapMode::Osu, &pts, None, &mut CurveBuffers::default());
            println!("returned after {:?}: {} vertices, dist {}", t.elapsed(), curve.path().len(), curve.dist());
        }
        Some("arcsearch") => {
            // integer-coordinate three-point arcs [b, c, d] (as the P segment of `L|a|P|b|c|d`) whose f32
            // determinant test passes but whose `d` cancels to 0: non-finite centre. Prints the hits with
            // the smallest coordinate magnitude.
            let max: i64 = args[2].parse().expect("max coordinate");
            let n: u64 = args[3].parse().expect("tries");
            let mut st: u64 = args.get(4).and_then(|s| s.parse().ok()).unwrap_or(1);
            let mut next = move || {
                st = st.wrapping_add(0x9E37_79B9_7F4A_7C15);
                let mut z = st;
                z = (z ^ (z >> 30)).wrapping_mul(0xBF58_476D_1CE4_E5B9);
                z = (z ^ (z >> 27)).wrapping_mul(0x94D0_49BB_1331_11EB);
                z ^ (z >> 31)
            };
            let mut hits = 0u64;
            let mut best: Option<(i64, [(i64, i64); 3])> = None;
            for _ in 0..n {
                let r = |m: i64, x: u64| (x % (2 * m as u64 + 1)) as i64 - m;
                let b = (r(max, next()), r(max, next()));
                let (ux, uy) = (r(60, next()), r(60, next()));
                let (k1, k2) = (1 + (next() % 60) as i64, 61 + (next() % 200) as i64);
                let c = (b.0 + k1 * ux + r(2, next()), b.1 + k1 * uy + r(2, next()));
                let d = (b.0 + k2 * ux, b.1 + k2 * uy);
                if [b, c, d].iter().any(|p| p.0.abs() > max || p.1.abs() > max) {
                    continue;
                }
                let pts: Vec<PathControlPoint> = [b, c, d]
                    .iter()
                    .enumerate()
                    .map(|(i, p)| PathControlPoint { pos: Pos::new(p.0 as f32, p.1 as f32), path_type: (i == 0).then_some(PathType::PERFECT_CURVE) })
                    .collect();
                let curve = Curve::new(MapMode::Osu, &pts, Some(100.0), &mut CurveBuffers::default());
                if curve.path().iter().any(|p| !p.x.is_finite() || !p.y.is_finite()) || !curve.dist().is_finite() {
                    hits += 1;
                    let mag = [b, c, d].iter().map(|p| p.0.abs().max(p.1.abs())).max().unwrap_or(0);
                    if best.is_none_or(|(m, _)| mag < m) {
                        best = Some((mag, [b, c, d]));
                        println!("hit: magnitude {mag} points {:?} dist {} path {:?}", [b, c, d], curve.dist(), &curve.path()[..curve.path().len().min(3)]);
                    }
                }
            }
            println!("{hits} non-finite arcs in {n} tries (max coordinate {max})");
        }
        Some("arcsearch2") => {
            // targeted: lattice triples b, c = b + u, d = b + k u + w with cross(u, w) = +-1 (determinant
            // +-1): the smallest coordinates at which `d` can cancel to 0 in f32
            let max: i64 = args[2].parse().expect("max |relative coordinate|");
            let n: u64 = args[3].parse().expect("tries");
            let mut st: u64 = args.get(4).and_then(|s| s.parse().ok()).unwrap_or(1);
            let mut next = move || {
                st = st.wrapping_add(0x9E37_79B9_7F4A_7C15);
                let mut z = st;
                z = (z ^ (z >> 30)).wrapping_mul(0xBF58_476D_1CE4_E5B9);
                z = (z ^ (z >> 27)).wrapping_mul(0x94D0_49BB_1331_11EB);
                z ^ (z >> 31)
            };
            fn egcd(a: i64, b: i64) -> (i64, i64, i64) {
                if b == 0 { (a, 1, 0) } else { let (g, x, y) = egcd(b, a % b); (g, y, x - (a / b) * y) }
            }
            let mut hits = 0u64;
            let mut best: Option<i64> = None;
            for _ in 0..n {
                let r = |m: i64, x: u64| (x % (2 * m as u64 + 1)) as i64 - m;
                let um = (max / 4).max(2);
                let (ux, uy) = (r(um, next()), r(um, next()));
                if ux == 0 || uy == 0 { continue; }
                let (g, x, y) = egcd(ux, uy);
                if g.abs() != 1 { continue; }
                // ux * x + uy * y = g  =>  cross(u, w) = ux * wy - uy * wx with w = (-y, x) is g
                let w = (-y * g, x * g);
                let k = 2 + (next() % 2) as i64;
                let b = (r(max, next()), r(max, next()));
                let c = (b.0 + ux, b.1 + uy);
                let d = (b.0 + k * ux + w.0, b.1 + k * uy + w.1);
                if [b, c, d].iter().any(|p| p.0.abs() > max || p.1.abs() > max) { continue; }
                let pts: Vec<PathControlPoint> = [b, c, d]
                    .iter()
                    .enumerate()
                    .map(|(i, p)| PathControlPoint { pos: Pos::new(p.0 as f32, p.1 as f32), path_type: (i == 0).then_some(PathType::PERFECT_CURVE) })
                    .collect();
                let curve = Curve::new(MapMode::Catch, &pts, Some(100.0), &mut CurveBuffers::default());
                if curve.path().iter().any(|p| !p.x.is_finite() || !p.y.is_finite()) || !curve.dist().is_finite() {
                    hits += 1;
                    let mag = [b, c, d].iter().map(|p| p.0.abs().max(p.1.abs())).max().unwrap_or(0);
                    if best.is_none_or(|m| mag < m) {
                        best = Some(mag);
                        println!("hit: magnitude {mag} points {:?} dist {}", [b, c, d], curve.dist());
                    }
                }
            }
            println!("{hits} non-finite arcs in {n} tries (max coordinate {max})");
        }
        Some("zigzag") => {
            // n-point bezier alternating between (-amp, -amp) and (amp, amp): the largest second
            // differences the decoder's coordinate limit allows
            let amp: f32 = args[2].parse().expect("amp");
            let n: usize = args[3].parse().expect("n");
            let pts: Vec<PathControlPoint> = (0..n)
                .map(|i| PathControlPoint {
                    pos: if i % 2 == 0 { Pos::new(-amp, -amp) } else { Pos::new(amp, amp - i as f32) },
                    path_type: (i == 0).then_some(PathType::BEZIER),
                })
                .collect();
            let t = std::time::Instant::now();
            let curve = Curve::new(MapMode::Osu, &pts, None, &mut CurveBuffers::default());
            println!("returned after {:?}: {} vertices = {:.1} per control point, dist {}", t.elapsed(), curve.path().len(), curve.path().len() as f64 / n as f64, curve.dist());
        }
        _ => eprintln!("usage: curve_probe map <file> | sliders <file> | bezier <coord> <n> | zigzag <amp> <n>"),
    }
}
