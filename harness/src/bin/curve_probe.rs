//! Replays of the curve observations of docs/delivery-CURVE.md on the real code.
//!   curve_probe map <file.osu>        stars of the four modes (NaN propagation of a curve vertex)
//!   curve_probe bezier <coord> <n>    `Curve::new` on an n-point bezier zig-zag at coordinate scale
//!                                     <coord> (run under `timeout` and `ulimit -v`: beyond 2^24 the
//!                                     subdivision loop of the real code never becomes flat)
use rosu_map::{
    section::{
        general::GameMode as MapMode,
        hit_objects::{Curve, CurveBuffers, PathControlPoint, PathType},
    },
    util::Pos,
};
use rosu_pp::{model::mode::GameMode, Beatmap, Difficulty};

// the hooked crate reports to `rosu_pp_verif_view_sink` (harness/src/viewsink.rs): keep the harness lib linked
#[used]
static VIEW_SINK: fn(u8, u8, usize, &[bool]) = rosu_verif::viewsink::rosu_pp_verif_view_sink;

fn main() {
    let args: Vec<String> = std::env::args().collect();
    match args.get(1).map(String::as_str) {
        Some("map") => {
            let map = Beatmap::from_path(&args[2]).expect("decode");
            println!("suspicion: {:?}", map.check_suspicion());
            for mode in [GameMode::Osu, GameMode::Taiko, GameMode::Catch, GameMode::Mania] {
                let Ok(conv) = map.clone().convert(mode, &Default::default()) else {
                    println!("{mode:?}: not convertible");
                    continue;
                };
                let d = Difficulty::new().calculate(&conv);
                println!("{mode:?}: stars = {} finite = {}  {:?}", d.stars(), d.stars().is_finite(), d);
            }
        }
        Some("sliders") => {
            let map = Beatmap::from_path(&args[2]).expect("decode");
            for h in &map.hit_objects {
                if let rosu_pp::model::hit_object::HitObjectKind::Slider(s) = &h.kind {
                    println!("control points {:?} expected {:?}", s.control_points, s.expected_dist);
                    let c = Curve::new(MapMode::Osu, &s.control_points, s.expected_dist, &mut CurveBuffers::default());
                    println!("  path {:?}\n  lengths {:?}\n  position_at(1) {:?}", c.path(), c.lengths(), c.position_at(1.0));
                }
            }
        }
        Some("bezier") => {
            let c: f32 = args[2].parse().expect("coord");
            let n: usize = args[3].parse().expect("n");
            let pts: Vec<PathControlPoint> = (0..n)
                .map(|i| PathControlPoint {
                    pos: Pos::new(if i % 2 == 0 { c } else { c + 3.0 * (c.abs() * f32::EPSILON).max(1.0) }, c + i as f32),
                    path_type: (i == 0).then_some(PathType::BEZIER),
                })
                .collect();
            let t = std::time::Instant::now();
            let curve = Curve::new(MapMode::Osu, &pts, None, &mut CurveBuffers::default());
            println!("returned after {:?}: {} vertices, dist {}", t.elapsed(), curve.path().len(), curve.dist());
        }
        Some("zigzag") => {
            // n-point bezier alternating between (-amp, -amp) and (amp, amp): the largest second
            // differences the decoder's coordinate limit allows
            let amp: f32 = args[2].parse().expect("amp");
            let n: usize = args[3].parse().expect("n");
            let pts: Vec<PathControlPoint> = (0..n)
                .map(|i| PathControlPoint {
                    pos: if i % 2 == 0 { Pos::new(-amp, -amp) } else { Pos::new(amp, amp - i as f32) },
                    path_type: (i == 0).then_some(PathType::BEZIER),
                })
                .collect();
            let t = std::time::Instant::now();
            let curve = Curve::new(MapMode::Osu, &pts, None, &mut CurveBuffers::default());
            println!("returned after {:?}: {} vertices = {:.1} per control point, dist {}", t.elapsed(), curve.path().len(), curve.path().len() as f64 / n as f64, curve.dist());
        }
        _ => eprintln!("usage: curve_probe map <file> | sliders <file> | bezier <coord> <n> | zigzag <amp> <n>"),
    }
}
