//! C18 — builder settings mean the same thing wherever they are set.

use rosu_pp::{
    any::{DifficultyAttributes, InspectDifficulty, ModsDependent},
    Beatmap, Difficulty, Performance,
};

use crate::{
    common::{decode, guarded, mode_name, mode_of, Run},
    grad::one_shot,
    mapgen::{random_map, GenCfg},
    rng::Rng,
};

#[derive(Clone, Debug, PartialEq)]
pub enum Call {
    Mods(u32),
    Passed(u32),
    Rate(f64),
    Ar(f32, bool),
    Cs(f32, bool),
    Hp(f32, bool),
    Od(f32, bool),
    HrOffsets(bool),
    Lazer(bool),
}

impl Call {
    pub fn name(&self) -> &'static str {
        match self {
            Call::Mods(_) => "mods",
            Call::Passed(_) => "passed_objects",
            Call::Rate(_) => "clock_rate",
            Call::Ar(..) => "ar",
            Call::Cs(..) => "cs",
            Call::Hp(..) => "hp",
            Call::Od(..) => "od",
            Call::HrOffsets(_) => "hardrock_offsets",
            Call::Lazer(_) => "lazer",
        }
    }

    pub fn on_difficulty(&self, d: Difficulty) -> Difficulty {
        match *self {
            Call::Mods(m) => d.mods(m),
            Call::Passed(n) => d.passed_objects(n),
            Call::Rate(r) => d.clock_rate(r),
            Call::Ar(v, w) => d.ar(v, w),
            Call::Cs(v, w) => d.cs(v, w),
            Call::Hp(v, w) => d.hp(v, w),
            Call::Od(v, w) => d.od(v, w),
            Call::HrOffsets(b) => d.hardrock_offsets(b),
            Call::Lazer(b) => d.lazer(b),
        }
    }

    pub fn on_performance<'a>(&self, p: Performance<'a>) -> Performance<'a> {
        match *self {
            Call::Mods(m) => p.mods(m),
            Call::Passed(n) => p.passed_objects(n),
            Call::Rate(r) => p.clock_rate(r),
            Call::Ar(v, w) => p.ar(v, w),
            Call::Cs(v, w) => p.cs(v, w),
            Call::Hp(v, w) => p.hp(v, w),
            Call::Od(v, w) => p.od(v, w),
            Call::HrOffsets(b) => p.hardrock_offsets(b),
            Call::Lazer(b) => p.lazer(b),
        }
    }

    /// `name:kind:payload` for the model; numbers in exact milli-units, `None` if the argument is
    /// not representable in the model's number domain (NaN, infinities, non-integral milli-units).
    pub fn wire(&self) -> Option<String> {
        fn milli(x: f64) -> Option<i64> {
            let m = x * 1000.0;
            (m.is_finite() && m == m.trunc() && m.abs() < 1e15).then_some(m as i64)
        }
        Some(match *self {
            Call::Mods(m) => format!("mods:m:{m}"),
            Call::Passed(n) => format!("passed_objects:n:{n}"),
            Call::Rate(r) => format!("clock_rate:x:{}", milli(r)?),
            Call::Ar(v, w) => format!("ar:a:{}:{}", milli(f64::from(v))?, u8::from(w)),
            Call::Cs(v, w) => format!("cs:a:{}:{}", milli(f64::from(v))?, u8::from(w)),
            Call::Hp(v, w) => format!("hp:a:{}:{}", milli(f64::from(v))?, u8::from(w)),
            Call::Od(v, w) => format!("od:a:{}:{}", milli(f64::from(v))?, u8::from(w)),
            Call::HrOffsets(b) => format!("hardrock_offsets:f:{}", u8::from(b)),
            Call::Lazer(b) => format!("lazer:f:{}", u8::from(b)),
        })
    }
}

fn random_call(rng: &mut Rng, exotic: bool) -> Call {
    let attr = |rng: &mut Rng| -> f32 {
        if exotic && rng.chance(1, 6) {
            *rng.pick(&[f32::NAN, f32::INFINITY, f32::NEG_INFINITY, 1e30, -1e30, 20.000002, -0.0])
        } else {
            (rng.range(-60, 60) as f32) * 0.5
        }
    };
    match rng.below(9) {
        0 => Call::Mods(*rng.pick(&[0u32, 8, 16, 64, 256, 2, 1024, 24, 72, 1 << 18])),
        1 => Call::Passed(*rng.pick(&[0u32, 1, 2, 3, 5, 100, u32::MAX])),
        2 => Call::Rate(if exotic && rng.chance(1, 5) {
            *rng.pick(&[f64::NAN, f64::INFINITY, -1.0, 0.0, 1e300, 0.0099999])
        } else {
            *rng.pick(&[0.005, 0.01, 0.5, 0.75, 1.0, 1.125, 1.5, 2.0, 100.0, 250.0])
        }),
        3 => Call::Ar(attr(rng), rng.chance(1, 2)),
        4 => Call::Cs(attr(rng), rng.chance(1, 2)),
        5 => Call::Hp(attr(rng), rng.chance(1, 2)),
        6 => Call::Od(attr(rng), rng.chance(1, 2)),
        7 => Call::HrOffsets(rng.chance(1, 2)),
        _ => Call::Lazer(rng.chance(1, 2)),
    }
}

/// Top-level `name: value` fields of the `Difficulty { … }` block inside a Debug string.
fn difficulty_fields(dbg: &str) -> Option<Vec<(String, String)>> {
    let start = dbg.find("Difficulty {")? + "Difficulty {".len();
    let bytes = dbg.as_bytes();
    let mut depth = 1;
    let mut i = start;
    let mut field_start = start;
    let mut fields = Vec::new();
    while i < bytes.len() {
        match bytes[i] {
            b'{' | b'(' | b'[' => depth += 1,
            b'}' | b')' | b']' => {
                depth -= 1;
                if depth == 0 {
                    fields.push(dbg[field_start..i].trim().to_owned());
                    break;
                }
            }
            b',' if depth == 1 => {
                fields.push(dbg[field_start..i].trim().to_owned());
                field_start = i + 1;
            }
            _ => {}
        }
        i += 1;
    }
    let mut out = Vec::new();
    for f in fields {
        if f.is_empty() {
            continue;
        }
        let (k, v) = f.split_once(':')?;
        out.push((k.trim().to_owned(), v.trim().to_owned()));
    }
    Some(out)
}

fn milli_str(v: &str) -> String {
    match v.parse::<f64>() {
        Ok(x) => {
            let m = x * 1000.0;
            if m.is_finite() && m == m.trunc() {
                format!("{}", m as i64)
            } else {
                format!("?{v}")
            }
        }
        Err(_) => format!("?{v}"),
    }
}

/// Canonical line in the model's format from the Debug string of a builder (or of a Difficulty).
fn canonical(dbg: &str, mods_bits_of: &dyn Fn(&str) -> String) -> String {
    let Some(fields) = difficulty_fields(dbg) else { return "unparsable".into() };
    let get = |k: &str| fields.iter().find(|(n, _)| n == k).map(|(_, v)| v.clone()).unwrap_or_default();
    let opt_inner = |v: &str| -> Option<String> {
        v.strip_prefix("Some(").and_then(|s| s.strip_suffix(')')).map(str::to_owned)
    };
    let attr = |k: &str| -> String {
        match opt_inner(&get(k)) {
            None => "-".into(),
            Some(inner) => {
                // ModsDependent { value: 9.0, with_mods: false }
                let val = inner.split("value:").nth(1).and_then(|s| s.split(',').next()).unwrap_or("").trim().to_owned();
                let wm = inner.contains("with_mods: true");
                format!("{}/{}", milli_str(&val), u8::from(wm))
            }
        }
    };
    let simple = |k: &str| -> String { opt_inner(&get(k)).unwrap_or_else(|| "-".into()) };
    let flag = |k: &str| -> String {
        match opt_inner(&get(k)) {
            None => "-".into(),
            Some(s) => u8::from(s == "true").to_string(),
        }
    };
    format!(
        "mods={} passed={} rate={} ar={} cs={} hp={} od={} hr={} lazer={}",
        mods_bits_of(&get("mods")),
        simple("passed_objects"),
        opt_inner(&get("clock_rate")).map_or("-".into(), |v| milli_str(&v)),
        attr("ar"),
        attr("cs"),
        attr("hp"),
        attr("od"),
        flag("hardrock_offsets"),
        flag("lazer"),
    )
}

fn score_spec<'a>(p: Performance<'a>) -> Performance<'a> {
    p.accuracy(96.5).misses(1)
}

fn small_map(rng: &mut Rng, mode: u8) -> Option<(String, Beatmap)> {
    let mut cfg = GenCfg::small(mode);
    cfg.min_objects = 3;
    cfg.max_objects = 9;
    let text = random_map(rng, &cfg).render();
    decode(&text).ok().map(|m| (text, m))
}

pub fn run(tier: &str, seed: u64, only: Option<&str>) -> Run {
    let mut run = Run::default();
    let thorough = tier == "thorough";
    let mut rng = Rng::new(seed ^ 0x18);
    let mods_pool: Vec<u32> = vec![0, 8, 16, 64, 256, 2, 1024, 24, 72, 1 << 18];
    let mods_dbg: Vec<(String, u32)> =
        mods_pool.iter().map(|b| (format!("{:?}", rosu_pp::GameMods::from(*b)), *b)).collect();
    let mods_bits_of = |s: &str| -> String {
        mods_dbg.iter().find(|(d, _)| d == s).map_or(format!("?{s}"), |(_, b)| b.to_string())
    };
    let n_cases = if thorough { 6000 } else { 900 };
    for i in 0..n_cases {
        let mode = (i % 4) as u8;
        let exotic = i % 5 == 4;
        let id = format!("seq-{i}-{}{}", mode_name(mode), if exotic { "-exotic" } else { "" });
        if only.is_some_and(|o| o != id) {
            // keep the generator in step
            let _ = small_map(&mut rng, mode);
            let n = rng.range(0, 7);
            for _ in 0..n {
                let _ = random_call(&mut rng, exotic);
            }
            let _ = rng.next();
            continue;
        }
        let Some((text, map)) = small_map(&mut rng, mode) else { continue };
        let n = rng.range(0, 7) as usize;
        let calls: Vec<Call> = (0..n).map(|_| random_call(&mut rng, exotic)).collect();
        let shuffle_seed = rng.next();
        let repro = format!("mode={} calls={calls:?} map=<<\n{text}>>", mode_name(mode));
        run.repro.insert(id.clone(), repro.clone());
        let names: Vec<&str> = calls.iter().map(Call::name).collect();
        run.eval((calls.len() >= 2).then_some(format!("{mode}|{calls:?}").as_str()));
        for nme in &names {
            run.count(&format!("setter:{nme}"));
        }
        run.count(&format!("mode:{}", mode_name(mode)));
        if exotic {
            run.count("exotic-values");
        }
        if i % 97 == 3 {
            run.sample(format!("{id}: {calls:?}"));
        }
        let gm = mode_of(mode);
        let Ok(attrs) = one_shot(&Difficulty::new(), &map, gm) else { continue };

        // --- builder-level comparison on an attrs-based Performance (small Debug output) ---
        let r = guarded(|| {
            let via_perf = calls.iter().fold(Performance::new(attrs.clone()), |p, c| c.on_performance(p));
            let d = calls.iter().fold(Difficulty::new(), |d, c| c.on_difficulty(d));
            (format!("{via_perf:?}"), format!("{d:?}"), d)
        });
        let (perf_dbg, diff_dbg, d_all) = match r {
            Ok(x) => x,
            Err(e) => {
                run.fail("oracle:setter-panic", "", &id, e, repro.clone());
                continue;
            }
        };
        // correspondence: the Difficulty inside the Performance, and the plain Difficulty
        if let Some(wires) = calls.iter().map(Call::wire).collect::<Option<Vec<_>>>() {
            let w = if wires.is_empty() { "-".to_owned() } else { wires.join(",") };
            let mode_cap = ["Osu", "Taiko", "Catch", "Mania"][mode as usize];
            run.line(&id, format!("BLD perf {mode_cap} {w}"), canonical(&perf_dbg, &mods_bits_of));
            run.line(&id, format!("BLD diff {mode_cap} {w}"), canonical(&diff_dbg, &mods_bits_of));
        } else {
            run.count("not-in-model-domain");
        }

        // --- clamps and inspect round trip ---
        let insp: InspectDifficulty = d_all.clone().inspect();
        let in_rng = |o: Option<ModsDependent>| o.is_none_or(|m| m.value.is_nan() || (-20.0..=20.0).contains(&m.value));
        if !(insp.clock_rate.is_none_or(|r| r.is_nan() || (0.01..=100.0).contains(&r))
            && in_rng(insp.ar)
            && in_rng(insp.cs)
            && in_rng(insp.hp)
            && in_rng(insp.od))
        {
            run.fail("oracle:clamp-bounds", "", &id, format!("{insp:?}"), repro.clone());
        }
        let back = insp.clone().into_difficulty();
        if format!("{back:?}") != diff_dbg {
            run.fail("oracle:inspect-roundtrip", "", &id, format!("{diff_dbg} -> {back:?}"), repro.clone());
        }
        let insp2 = back.inspect();
        if format!("{insp2:?}") != format!("{insp:?}") {
            run.fail("oracle:inspect-roundtrip-2", "", &id, format!("{insp:?} -> {insp2:?}"), repro.clone());
        }
        // user-written inspectable form with out-of-range numbers
        let wild = InspectDifficulty {
            clock_rate: Some(*rng.pick(&[0.0, 1e9, -3.0, 0.3, 7.5])),
            ar: Some(ModsDependent { value: *rng.pick(&[99.0f32, -99.0, 3.5]), with_mods: rng.chance(1, 2) }),
            ..insp.clone()
        };
        let wd = wild.into_difficulty();
        let wi = wd.clone().inspect();
        if !(wi.clock_rate.is_some_and(|r| (0.01..=100.0).contains(&r)) && in_rng(wi.ar)) {
            run.fail("oracle:into-difficulty-clamps", "", &id, format!("{wi:?}"), repro.clone());
        }
        if format!("{:?}", wi.clone().into_difficulty()) != format!("{wd:?}") {
            run.fail("oracle:into-difficulty-stable", "", &id, format!("{wi:?}"), repro.clone());
        }

        // --- results: Performance route vs Difficulty route, from the map and from attributes ---
        let calc = |via_perf: bool, from_attrs: bool, order: &[usize]| -> Result<String, String> {
            guarded(|| {
                let d_for_attrs = calls.iter().fold(Difficulty::new(), |d, c| c.on_difficulty(d));
                let base: Performance<'_> = if from_attrs {
                    // attributes must be computed with the same settings
                    match one_shot(&d_for_attrs, &map, gm) {
                        Ok(DifficultyAttributes::Osu(a)) => Performance::new(a),
                        Ok(DifficultyAttributes::Taiko(a)) => Performance::new(a),
                        Ok(DifficultyAttributes::Catch(a)) => Performance::new(a),
                        Ok(DifficultyAttributes::Mania(a)) => Performance::new(a),
                        Err(e) => return format!("err:{e}"),
                    }
                } else {
                    Performance::new(&map)
                };
                let p = if via_perf {
                    order.iter().fold(base, |p, &k| calls[k].on_performance(p))
                } else {
                    let d = order.iter().fold(Difficulty::new(), |d, &k| calls[k].on_difficulty(d));
                    base.difficulty(d)
                };
                format!("{:?}", score_spec(p).calculate())
            })
        };
        let ident: Vec<usize> = (0..calls.len()).collect();
        let a = calc(true, false, &ident);
        let b = calc(false, false, &ident);
        match (&a, &b) {
            (Ok(x), Ok(y)) if x == y => {}
            (Ok(x), Ok(y)) => run.fail(
                "oracle:perf-route-ne-difficulty-route",
                "",
                &id,
                format!("via Performance setters: {x}\nvia Difficulty: {y}"),
                repro.clone(),
            ),
            // a panic on NaN arguments is C05's business; here both routes must behave alike
            (Err(_), Err(_)) => run.count("both-routes-panic"),
            (Err(e), _) | (_, Err(e)) => run.fail("oracle:one-route-panics", "", &id, e.clone(), repro.clone()),
        }
        let c = calc(true, true, &ident);
        let d = calc(false, true, &ident);
        if let (Ok(x), Ok(y)) = (&c, &d) {
            if x != y {
                run.fail(
                    "oracle:perf-route-ne-difficulty-route-attrs",
                    "",
                    &id,
                    format!("via Performance setters: {x}\nvia Difficulty: {y}"),
                    repro.clone(),
                );
            }
        }
        // --- order independence: keep the relative order of calls to the same setter ---
        if calls.len() >= 2 {
            let mut srng = Rng::new(shuffle_seed);
            let mut order = ident.clone();
            for k in (1..order.len()).rev() {
                let j = srng.below(k as u64 + 1) as usize;
                order.swap(k, j);
            }
            // stable within equal names: sort positions of equal-named calls back into order
            for nme in ["mods", "passed_objects", "clock_rate", "ar", "cs", "hp", "od", "hardrock_offsets", "lazer"] {
                let pos: Vec<usize> = (0..order.len()).filter(|&p| calls[order[p]].name() == nme).collect();
                let mut vals: Vec<usize> = pos.iter().map(|&p| order[p]).collect();
                vals.sort_unstable();
                for (p, v) in pos.iter().zip(vals) {
                    order[*p] = v;
                }
            }
            let e = calc(true, false, &order);
            if let (Ok(x), Ok(y)) = (&a, &e) {
                if x != y {
                    run.fail(
                        "oracle:setter-order-dependence",
                        "",
                        &id,
                        format!("order {order:?}: {y}\noriginal: {x}"),
                        repro.clone(),
                    );
                }
            }
        }
    }
    run
}
