//! C02 / C09 / C14 / C16 — osu!standard END TO END: `PIPE osu` lines.  The real `Difficulty::calculate`
//! (and the gradual calculator's i-th value at a few indices) on generated, hand-made pattern and resource
//! osu! maps × mods × clock rates × attribute overrides × `passed_objects` against the composed model
//! `lean/RosuModel/Model/PipelineOsu.lean` (decoded objects + per-slider curve data → `OsuObject::new` →
//! `convert_objects` → difficulty objects → the four skills → `eval`), every attribute field as bits.
//!
//! The lines are emitted by the C09 run because that property compares numerically: fields downstream of
//! libm (`pow`, `exp`, `log10`, `sin`, `atan2`, `cbrt`) are allowed rel 1e-12, the evidence reports how many
//! lines are bit-exact (`bit_exact_vs_within_tolerance_by_kind["PIPE osu"]`); counts and inputs echoed
//! back are exact in any case.
use rosu_map::section::general::GameMode;
use rosu_pp::{
    osu::{verif as ov, Osu, OsuDifficultyAttributes, OsuGradualDifficulty},
    Beatmap,
};

use crate::{
    c09pp::showf,
    common::{decode, guarded, hash64, random_settings, resource_maps, truncate_objects, ModsSpec, Run, Settings},
    mapgen::{random_map, GenCfg},
    rng::Rng,
};

fn h32(x: f32) -> String {
    format!("{:x}", x.to_bits())
}

fn h64(x: f64) -> String {
    format!("{:x}", x.to_bits())
}

fn attrs_str(pre: &str, a: &OsuDifficultyAttributes) -> String {
    format!(
        "{pre}aim={} {pre}adsl={} {pre}spd={} {pre}fl={} {pre}sf={} {pre}snc={} {pre}adst={} {pre}sdst={} {pre}ar={} {pre}ghw={} {pre}ohw={} {pre}mhw={} {pre}hp={} {pre}stars={} {pre}nc={} {pre}ns={} {pre}nlt={} {pre}nsp={} {pre}mc={}",
        showf(a.aim), showf(a.aim_difficult_slider_count), showf(a.speed), showf(a.flashlight), showf(a.slider_factor),
        showf(a.speed_note_count), showf(a.aim_difficult_strain_count), showf(a.speed_difficult_strain_count),
        showf(a.ar), showf(a.great_hit_window), showf(a.ok_hit_window), showf(a.meh_hit_window), showf(a.hp),
        showf(a.stars), a.n_circles, a.n_sliders, a.n_large_ticks, a.n_spinners, a.max_combo
    )
}

pub fn pipe_case(run: &mut Run, id: &str, map: &Beatmap, settings: &Settings, passed: Option<u32>, rng: &mut Rng, repro: &str) {
    pipe_case_impl(run, id, map, settings, passed, rng, repro, None);
}

/// `PIPE osub`: the same comparison starting from the BYTES of the file (`Model/PipelineBytes.lean`):
/// the request carries the bytes, the attribute-builder outputs / settings and, per slider, the curve
/// data (`path.dist()`, nested positions, raw lazy end position) from the hooks.
pub fn pipe_bytes_case(run: &mut Run, id: &str, bytes: &[u8], settings: &Settings, passed: Option<u32>, rng: &mut Rng) {
    let hexb: String = if bytes.is_empty() { "-".to_owned() } else { bytes.iter().map(|b| format!("{b:02x}")).collect() };
    let repro = format!("settings={} passed_objects={passed:?} bytes=<<{}>>", settings.describe(), String::from_utf8_lossy(bytes));
    let b2 = bytes.to_vec();
    let map = match guarded(move || Beatmap::from_bytes(&b2)) {
        Ok(Ok(m)) => m,
        Ok(Err(_)) => {
            run.count("PIPE-osub:stage:io-error");
            run.line(id, format!("PIPE osub {hexb} 0 0 0 0 0 0 0 0 0 00000 - - -"), "IOERR".to_owned());
            return;
        }
        Err(_) => {
            run.count("PIPE-osub: decode panicked (not compared; C05)");
            return;
        }
    };
    if map.mode != GameMode::Osu {
        run.count("PIPE-osub:stage:other-mode");
        run.line(id, format!("PIPE osub {hexb} 0 0 0 0 0 0 0 0 0 00000 - - -"), format!("OTHERMODE {}", map.mode as u8));
        return;
    }
    run.count("PIPE-osub:stage:decoded");
    pipe_case_impl(run, id, &map, settings, passed, rng, &repro, Some(&hexb));
}

#[allow(clippy::too_many_arguments)]
fn pipe_case_impl(run: &mut Run, id: &str, map: &Beatmap, settings: &Settings, passed: Option<u32>, rng: &mut Rng, repro: &str, bytes_hex: Option<&str>) {
    if map.mode != GameMode::Osu {
        return;
    }
    let mut d = settings.build(0);
    if let Some(k) = passed {
        d = d.passed_objects(k);
    }
    let (m2, d2) = (map.clone(), d.clone());
    let Ok(probe) = guarded(move || ov::conv_probe(&d2, &m2)) else {
        run.count("PIPE-osu: conv_probe panicked (not compared; C05)");
        return;
    };
    let m2 = map.clone();
    let Ok(sliders) = guarded(move || ov::slider_inputs(&m2, GameMode::Osu)) else {
        run.count("PIPE-osu: slider_inputs panicked (not compared; C05)");
        return;
    };
    let (m3, d3) = (map.clone(), d.clone());
    let attrs = match guarded(move || d3.calculate_for_mode::<Osu>(&m3)) {
        Ok(Ok(a)) => a,
        Ok(Err(_)) => return,
        Err(_) => {
            run.count("PIPE-osu: calculate panicked (not compared; C05)");
            return;
        }
    };
    let n = probe.raw.len();
    if n != sliders.len() {
        run.fail("oracle:osu-pipeline-inputs", "", id, "object / slider-input count mismatch".into(), repro.to_owned());
        return;
    }
    // gradual values at a few indices (the gradual calculator ignores passed_objects)
    let mut gidx: Vec<usize> = Vec::new();
    let mut gvals = String::new();
    if passed.is_none() {
        if n > 0 {
            for _ in 0..2 {
                let i = 1 + rng.below(n as u64) as usize;
                gidx.push(i);
            }
            gidx.push(1);
            gidx.push(n);
        }
        if bytes_hex.is_some() {
            gidx.push(n + 1);
            gidx.push(n + 3);
        }
        gidx.sort_unstable();
        gidx.dedup();
        for i in &gidx {
            let (m4, d4, k) = (map.clone(), settings.build(0), *i);
            let v = guarded(move || OsuGradualDifficulty::new(d4, &m4).ok().and_then(|mut g| g.nth(k - 1)));
            match v {
                Ok(Some(a)) => gvals.push_str(&format!(" {}", attrs_str(&format!("g{i}."), &a))),
                Ok(None) => gvals.push_str(&format!(" g{i}=none")),
                Err(_) => gvals.push_str(&format!(" g{i}=PANIC")),
            }
        }
    }
    let mut objs: Vec<String> = Vec::with_capacity(n);
    let mut curves: Vec<String> = Vec::new();
    let mut n_nested = 0usize;
    for (o, sl) in probe.raw.iter().zip(sliders.iter()) {
        match (o.kind, sl) {
            (0, _) => objs.push(format!("c:{}:{}:{}", h32(o.pos.x), h32(o.pos.y), h64(o.start_time))),
            (2, _) => objs.push(format!("p:{}:{}:{}:{}", h32(o.pos.x), h32(o.pos.y), h64(o.start_time), h64(o.duration))),
            (1, Some(i)) => {
                n_nested += o.nested.len();
                let ns = if o.nested.is_empty() {
                    "-".to_owned()
                } else {
                    o.nested.iter().map(|q| format!("{},{}", h32(q.pos.x), h32(q.pos.y))).collect::<Vec<_>>().join("/")
                };
                curves.push(format!("{}:{}:{}:{}", i.dist.to_bits(), h32(o.lazy_end_pos.x), h32(o.lazy_end_pos.y), ns));
                objs.push(format!(
                    "s:{}:{}:{}:{}:{}:{}:{}:{}:{}:{}:{}",
                    h32(o.pos.x),
                    h32(o.pos.y),
                    i.start_time.to_bits(),
                    i.beat_len.to_bits(),
                    i.slider_velocity.to_bits(),
                    u8::from(i.generate_ticks),
                    i.dist.to_bits(),
                    i.span_count,
                    h32(o.lazy_end_pos.x),
                    h32(o.lazy_end_pos.y),
                    ns
                ));
            }
            _ => {
                run.fail("oracle:osu-pipeline-inputs", "", id, "slider object without slider inputs".into(), repro.to_owned());
                return;
            }
        }
    }
    let snap = rosu_pp::verif::mods_snapshot(&settings.mods.build(0));
    // td rx ap fl hd
    let flags: String = [snap.flags[2], snap.flags[5], snap.flags[8], snap.flags[6], snap.flags[3]].iter().map(|b| if *b { '1' } else { '0' }).collect();
    let take = probe.take;
    run.count(&format!("PIPE-osu:reflection={}", probe.reflection));
    run.count(&format!("PIPE-osu:flags(td rx ap fl hd)={flags}"));
    run.count(&format!("PIPE-osu:take:{}", if take == usize::MAX { "unset" } else if take == 0 { "0" } else if take >= n { ">=n" } else { "<n" }));
    run.count(&format!("PIPE-osu:objects:{}", match n { 0 => "0", 1..=3 => "1-3", 4..=30 => "4-30", _ => ">30" }));
    run.count(&format!("PIPE-osu:nested:{}", match n_nested { 0 => "0", 1..=9 => "1-9", _ => ">=10" }));
    run.count(&format!("PIPE-osu:stars:{}", if attrs.stars == 0.0 { "0" } else { ">0" }));
    run.count(&format!("PIPE-osu:version:{}", if map.version >= 8 { ">=8" } else if map.version >= 6 { "6-7" } else { "<6" }));
    if let Some(hexb) = bytes_hex {
        run.count("lines:PIPE-osub");
        run.count(&format!("PIPE-osub:sliders:{}", match curves.len() { 0 => "0", 1..=5 => "1-5", _ => ">5" }));
        run.repro.insert(id.to_owned(), repro.to_owned());
        run.line(
            id,
            format!(
                "PIPE osub {hexb} {} {} {} {} {} {} {} {} {} {} {} {} {}",
                probe.reflection,
                h64(probe.cs),
                h64(probe.ar_window),
                h64(attrs.ar),
                h64(attrs.hp),
                h64(attrs.great_hit_window),
                h64(attrs.ok_hit_window),
                h64(attrs.meh_hit_window),
                h64(probe.clock_rate),
                flags,
                if take == usize::MAX { "-".to_owned() } else { take.to_string() },
                if gidx.is_empty() { "-".to_owned() } else { gidx.iter().map(|i| i.to_string()).collect::<Vec<_>>().join(",") },
                if curves.is_empty() { "-".to_owned() } else { curves.join(";") }
            ),
            format!("{}{gvals}", attrs_str("", &attrs)),
        );
        // `PIPE osuc` (worker CURVE): the same request WITHOUT the curve inputs — the model computes
        // `path.dist()`, the nested positions and the raw lazy end of every slider from the decoded control
        // points (`Model/PipelineCurve.lean: curveInputsOfModel`); same expected response
        run.count("lines:PIPE-osuc");
        run.line(
            &format!("{id}:osuc"),
            format!(
                "PIPE osuc {hexb} {} {} {} {} {} {} {} {} {} {} {} {}",
                probe.reflection,
                h64(probe.cs),
                h64(probe.ar_window),
                h64(attrs.ar),
                h64(attrs.hp),
                h64(attrs.great_hit_window),
                h64(attrs.ok_hit_window),
                h64(attrs.meh_hit_window),
                h64(probe.clock_rate),
                flags,
                if take == usize::MAX { "-".to_owned() } else { take.to_string() },
                if gidx.is_empty() { "-".to_owned() } else { gidx.iter().map(|i| i.to_string()).collect::<Vec<_>>().join(",") }
            ),
            format!("{}{gvals}", attrs_str("", &attrs)),
        );
        run.repro.insert(format!("{id}:osuc"), repro.to_owned());
        run.eval((n > 0).then_some(id));
        return;
    }
    run.count("lines:PIPE-osu");
    run.repro.insert(id.to_owned(), repro.to_owned());
    run.line(
        id,
        format!(
            "PIPE osu {} {} {} {} {} {} {} {} {} {} {} {} {} {} {} {} {}",
            map.version,
            map.slider_multiplier.to_bits(),
            map.slider_tick_rate.to_bits(),
            probe.reflection,
            h64(probe.cs),
            h64(probe.ar_window),
            h64(attrs.ar),
            h64(attrs.hp),
            h64(attrs.great_hit_window),
            h64(attrs.ok_hit_window),
            h64(attrs.meh_hit_window),
            h64(probe.clock_rate),
            h64(f64::from(map.stack_leniency)),
            flags,
            if take == usize::MAX { "-".to_owned() } else { take.to_string() },
            if gidx.is_empty() { "-".to_owned() } else { gidx.iter().map(|i| i.to_string()).collect::<Vec<_>>().join(",") },
            if objs.is_empty() { "-".to_owned() } else { objs.join(";") }
        ),
        format!("{}{gvals}", attrs_str("", &attrs)),
    );
    run.eval((n > 0).then_some(id));
}

pub fn run(run: &mut Run, tier: &str, seed: u64, only: Option<&str>) {
    let thorough = tier == "thorough";
    let n = if thorough { 6_000 } else { 500 };
    for ci in 0..n {
        let id = format!("pipe-osu-{ci}");
        if only.is_some_and(|o| o != id) {
            continue;
        }
        let mut rng = Rng::new(seed ^ hash64(&id));
        let mut cfg = GenCfg::small(0);
        cfg.max_objects = *rng.pick(&[0, 1, 2, 3, 6, 12, 24, 60]);
        cfg.weights = *rng.pick(&[[10, 0, 0, 0], [10, 6, 2, 1], [3, 10, 1, 0], [6, 6, 6, 0]]);
        cfg.max_slides = *rng.pick(&[1, 2, 5]);
        cfg.dense = rng.chance(1, 3);
        cfg.long_gaps = rng.chance(1, 5);
        let mut spec = random_map(&mut rng, &cfg);
        spec.version = *rng.pick(&[14, 14, 128, 9, 7, 5]);
        let text = spec.render();
        let Ok(map) = decode(&text) else {
            run.count("PIPE-osu: skipped (decode)");
            continue;
        };
        let settings = if rng.chance(1, 4) { Settings::default() } else { random_settings(&mut rng, 0) };
        let len = map.hit_objects.len() as u64;
        let passed = match rng.below(3) {
            0 => None,
            1 => Some(rng.below(len + 3) as u32),
            _ => Some(rng.below(4) as u32),
        };
        let repro = format!("{text}\n# settings: {} passed_objects: {passed:?}", settings.describe());
        pipe_case(run, &id, &map, &settings, passed, &mut rng, &repro);
        // the same map as a FILE (byte-level variants) through the decoder-first pipeline
        let bytes = crate::mapgen::file_variant(&mut rng, &text);
        pipe_bytes_case(run, &format!("{id}#bytes"), &bytes, &settings, passed, &mut rng);
    }
    // hand-made pattern maps of the OSK probes (spinner -> slider, jumps at every angle, stacks, 1 ms gaps, ...)
    let mut prng = Rng::new(seed ^ 0x05c);
    for (name, spec) in crate::c09osk::pattern_maps(&mut prng) {
        let Ok(map) = decode(&spec.render()) else { continue };
        let pool = [
            Settings::default(),
            Settings { clock_rate: Some(1.5), ..Default::default() },
            Settings { mods: ModsSpec::Bits(8 + 1024 + 64), ..Default::default() },
            Settings { mods: ModsSpec::Bits(16), ..Default::default() },
            Settings { mods: ModsSpec::Bits(2 + 256), ..Default::default() },
            Settings { mods: ModsSpec::Bits(128), ..Default::default() },
            Settings { mods: ModsSpec::Bits(8192 + 4), ..Default::default() },
        ];
        for (si, st) in pool.iter().enumerate() {
            let id = format!("pipe-osu-{name}#{si}");
            if only.is_some_and(|o| o != id) {
                continue;
            }
            let mut rng = Rng::new(seed ^ hash64(&id));
            let len = map.hit_objects.len() as u64;
            let passed = if si % 2 == 0 { None } else { Some(rng.below(len + 3) as u32) };
            let repro = format!("settings={} passed_objects={passed:?} map=<<\n{}>>", st.describe(), spec.render());
            pipe_case(run, &id, &map, st, passed, &mut rng, &repro);
            if si < 2 {
                let bytes = crate::mapgen::file_variant(&mut rng, &spec.render());
                pipe_bytes_case(run, &format!("{id}#bytes"), &bytes, st, passed, &mut rng);
            }
        }
    }
    for (i, (mode, text)) in resource_maps().into_iter().enumerate() {
        if mode != 0 {
            continue;
        }
        let id = format!("pipe-osu-res-{i}");
        if only.is_some_and(|o| !o.starts_with(&id)) {
            continue;
        }
        let Ok(map) = decode(&truncate_objects(&text, if thorough { 400 } else { 150 })) else { continue };
        for (j, bits) in [0u32, 16, 64 + 8, 2 + 256, 1024, 128, 8192, 4].into_iter().enumerate() {
            let settings = Settings { mods: ModsSpec::Bits(bits), ..Settings::default() };
            let mut rng = Rng::new(seed ^ hash64(&format!("{id}-{j}")));
            let passed = if j % 3 == 2 { Some(rng.below(160) as u32) } else { None };
            pipe_case(run, &format!("{id}-{j}"), &map, &settings, passed, &mut rng, &format!("resource map {i} truncated, mods bits {bits}, passed {passed:?}"));
        }
    }
}
