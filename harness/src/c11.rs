//! C11 — unsafe code never performs an invalid memory access.
//!
//! (a) `StrainsVec`: op sequences against the Lean model + plain-list oracle (`svops`).
//! (b) self-referential gradual calculators: lifetime histories (move into `Box`/`Vec`/thread,
//!     drop mid-iteration, interleaved instances) must produce exactly the values of plain
//!     iteration — a smoke oracle; memory errors proper are looked for by the Miri run of
//!     `src/bin/miri_hist.rs` (thorough tier).  Correspondence (`LIFE` lines): random histories
//!     over up to four interleaved calculators (construct / move / next / nth / len / drop) are run
//!     on the real types and, in lockstep, by the value model `Model/Gradual.lean` and the
//!     pointer-discipline model `Model/Lifetime.lean` (`Model/LifeWire.lean`); per-operation
//!     observations and the set of live instances are diffed.
//! (c) decoder scratch buffer: slider-heavy inputs decode identically when decoded repeatedly and
//!     interleaved with malformed lines.

use rosu_pp::{
    catch::CatchGradualDifficulty, mania::ManiaGradualDifficulty, osu::OsuGradualDifficulty,
    taiko::TaikoGradualDifficulty, Beatmap, Difficulty, GradualDifficulty, GradualPerformance,
};

use crate::{
    common::{decode, guarded, mode_name, mode_of, random_settings, resource_maps, truncate_objects, Run, Settings},
    grad,
    mapgen::{random_map, GenCfg},
    rng::Rng,
    svops,
};

fn fmt<T: std::fmt::Debug>(v: &T) -> String {
    format!("{v:?}")
}

/// Values of plain, unmoved iteration.
fn baseline(d: &Difficulty, map: &Beatmap, mode: u8) -> Result<Vec<String>, String> {
    let mut g = GradualDifficulty::new_with_mode(d.clone(), map, mode_of(mode)).map_err(|e| format!("convert:{e:?}"))?;
    // no `collect()`: it would consult `size_hint()`/`len()`, whose taiko underflow is a known
    // C15 finding and not a memory-safety matter
    let mut v = Vec::new();
    while let Some(a) = g.next() {
        v.push(fmt(&a));
        if v.len() > 20_000 {
            break;
        }
    }
    Ok(v)
}

macro_rules! mode_history {
    ( $ty:ty, $d:expr, $map:expr, $base:expr, $send:expr ) => {{
        let d: &Difficulty = $d;
        let map: &Beatmap = $map;
        let base: &Vec<String> = $base;
        let mut problems: Vec<String> = Vec::new();
        let n = base.len();
        // 1. step, move into a Box, step, move out again, step
        if let Ok(mut g) = <$ty>::new(d.clone(), map) {
            let mut got = Vec::new();
            for _ in 0..n / 3 {
                got.extend(g.next().map(|a| fmt(&a)));
            }
            let mut boxed = Box::new(g);
            for _ in 0..n / 3 {
                got.extend(boxed.next().map(|a| fmt(&a)));
            }
            let mut back = *boxed;
            for a in back.by_ref() {
                got.push(fmt(&a));
            }
            if back.next().is_some() {
                problems.push("box: value after exhaustion".into());
            }
            let want: Vec<String> = base.iter().map(|s| strip_enum(s)).collect();
            if got != want {
                problems.push(format!("box: {} values, plain iteration {}", got.len(), want.len()));
            }
        }
        // 2. several instances in a Vec that reallocates, stepped round-robin, some dropped early
        {
            let mut v: Vec<$ty> = Vec::new();
            let mut outs: Vec<Vec<String>> = Vec::new();
            for k in 0..5 {
                if let Ok(mut g) = <$ty>::new(d.clone(), map) {
                    let mut o = Vec::new();
                    for _ in 0..k.min(n) {
                        o.extend(g.next().map(|a| fmt(&a)));
                    }
                    v.push(g); // moves; the Vec grows and moves earlier elements
                    outs.push(o);
                }
            }
            let mut round = 0;
            while !v.is_empty() && round < n + 2 {
                for (g, o) in v.iter_mut().zip(outs.iter_mut()) {
                    o.extend(g.next().map(|a| fmt(&a)));
                }
                if round == 1 && v.len() > 2 {
                    // drop one mid-iteration, swap two others
                    v.remove(1);
                    let dropped = outs.remove(1);
                    let want: Vec<String> = base.iter().take(dropped.len()).map(|s| strip_enum(s)).collect();
                    if dropped != want {
                        problems.push("vec: dropped instance diverged before the drop".into());
                    }
                    v.swap(0, 1);
                    outs.swap(0, 1);
                }
                round += 1;
            }
            let want: Vec<String> = base.iter().map(|s| strip_enum(s)).collect();
            for o in &outs {
                if *o != want {
                    problems.push(format!("vec: interleaved instance yielded {} values, plain {}", o.len(), want.len()));
                }
            }
        }
        // 3. into a thread (only where the type is Send in this build)
        if $send {
            problems.extend(thread_history::<$ty>(d, map, base));
        }
        // 4. drop right after construction, and after exactly one step
        if let Ok(g) = <$ty>::new(d.clone(), map) {
            drop(g);
        }
        if let Ok(mut g) = <$ty>::new(d.clone(), map) {
            let _ = g.next();
            drop(g);
        }
        problems
    }};
}

/// `DifficultyAttributes::Osu(OsuDifficultyAttributes {..})` → inner struct text, so that values
/// of the mode-specific calculators compare with the mode-agnostic baseline.
fn strip_enum(s: &str) -> String {
    match s.find('(') {
        Some(i) if s.ends_with(')') => s[i + 1..s.len() - 1].to_owned(),
        _ => s.to_owned(),
    }
}

trait MaybeThread {
    fn run_in_thread(self, n: usize) -> Vec<String>;
}

macro_rules! impl_thread {
    ( $ty:ty ) => {
        impl MaybeThread for $ty {
            fn run_in_thread(mut self, n: usize) -> Vec<String> {
                let mut got = Vec::new();
                for _ in 0..n / 2 {
                    got.extend(self.next().map(|a| fmt(&a)));
                }
                let h = std::thread::spawn(move || {
                    let mut rest = Vec::new();
                    for a in self {
                        rest.push(fmt(&a));
                    }
                    rest
                });
                got.extend(h.join().unwrap_or_default());
                got
            }
        }
    };
}

impl_thread!(OsuGradualDifficulty);
impl_thread!(CatchGradualDifficulty);
impl_thread!(ManiaGradualDifficulty);
#[cfg(feature = "sync")]
impl_thread!(TaikoGradualDifficulty);
#[cfg(not(feature = "sync"))]
impl MaybeThread for TaikoGradualDifficulty {
    fn run_in_thread(self, _: usize) -> Vec<String> {
        Vec::new()
    }
}

trait NewGradual: Sized {
    fn make(d: Difficulty, map: &Beatmap) -> Option<Self>;
}
macro_rules! impl_new {
    ( $ty:ty ) => {
        impl NewGradual for $ty {
            fn make(d: Difficulty, map: &Beatmap) -> Option<Self> {
                <$ty>::new(d, map).ok()
            }
        }
    };
}
impl_new!(OsuGradualDifficulty);
impl_new!(TaikoGradualDifficulty);
impl_new!(CatchGradualDifficulty);
impl_new!(ManiaGradualDifficulty);

fn thread_history<G: MaybeThread + NewGradual>(d: &Difficulty, map: &Beatmap, base: &[String]) -> Vec<String> {
    let mut problems = Vec::new();
    if let Some(g) = G::make(d.clone(), map) {
        let got = g.run_in_thread(base.len());
        let want: Vec<String> = base.iter().map(|s| strip_enum(s)).collect();
        if got != want {
            problems.push(format!("thread: {} values, plain iteration {}", got.len(), want.len()));
        }
    }
    problems
}

pub fn histories(d: &Difficulty, map: &Beatmap, mode: u8, base: &Vec<String>) -> Vec<String> {
    match mode {
        0 => mode_history!(OsuGradualDifficulty, d, map, base, true),
        1 => mode_history!(TaikoGradualDifficulty, d, map, base, cfg!(feature = "sync")),
        2 => mode_history!(CatchGradualDifficulty, d, map, base, true),
        _ => mode_history!(ManiaGradualDifficulty, d, map, base, true),
    }
}

/// GradualPerformance moved into a Box between steps.
fn perf_history(d: &Difficulty, map: &Beatmap, mode: u8) -> Vec<String> {
    let mut problems = Vec::new();
    let mk = || GradualPerformance::new_with_mode(d.clone(), map, mode_of(mode)).ok();
    let state = rosu_pp::any::ScoreState::new();
    let plain: Vec<String> = match mk() {
        Some(mut g) => {
            let mut v = Vec::new();
            while let Some(a) = g.next(state.clone()) {
                v.push(fmt(&a));
                if v.len() > 5000 {
                    break;
                }
            }
            v
        }
        None => return problems,
    };
    if let Some(mut g) = mk() {
        let mut got = Vec::new();
        for _ in 0..plain.len() / 2 {
            got.extend(g.next(state.clone()).map(|a| fmt(&a)));
        }
        let mut b = Box::new(g);
        while let Some(a) = b.next(state.clone()) {
            got.push(fmt(&a));
            if got.len() > 5000 {
                break;
            }
        }
        if got != plain {
            problems.push(format!("gradual performance in Box: {} values, plain {}", got.len(), plain.len()));
        }
    }
    problems
}

fn decoder_history(run: &mut Run, id: &str, text: &str) {
    // (c): repeated and interleaved decoding of slider-heavy text gives identical maps; a
    // malformed slider line in between must not disturb later lines.
    let a = decode(text);
    let mut broken = String::new();
    for line in text.lines() {
        broken.push_str(line);
        broken.push('\n');
        if line.contains('|') {
            broken.push_str("256,192,1000,2,0,B|,1,\n");
            broken.push_str("10,10,1000,2,0,L|1:1|2:2|3:3|4:4|5:5|6:6|7:7|8:8|9:9,1\n");
        }
    }
    // a rejected line must not influence how the other lines decode: every inserted line is first
    // checked to be rejected on its own (a file holding only that line yields no object)
    let header: String = text.lines().take_while(|l| l.trim() != "[HitObjects]").map(|l| format!("{l}\n")).collect();
    let rejected_alone = |line: &str| -> bool {
        matches!(decode(&format!("{header}[HitObjects]\n{line}\n")), Ok(m) if m.hit_objects.is_empty())
    };
    if rejected_alone("256,192,1000,2,0,B|,1,") && rejected_alone("100,100,1500,2,0,B|100:100|:,1,100") {
        let mut broken2 = String::new();
        for line in text.lines() {
            broken2.push_str(line);
            broken2.push('\n');
            if line.contains('|') {
                broken2.push_str("256,192,1000,2,0,B|,1,\n");
                broken2.push_str("100,100,1500,2,0,B|100:100|:,1,100\n");
            }
        }
        if let (Ok(with), Ok(without)) = (decode(&broken2), &a) {
            if format!("{:?}", with.hit_objects) != format!("{:?}", without.hit_objects) {
                run.fail(
                    "oracle:rejected-line-disturbs-later-lines",
                    "",
                    id,
                    format!("{} objects with rejected slider lines in between, {} without", with.hit_objects.len(), without.hit_objects.len()),
                    broken2.clone(),
                );
            }
            run.count("decoder:rejected-lines-inserted");
        }
    }
    let _ = decode(&broken);
    let b = decode(text);
    match (a, b) {
        (Ok(x), Ok(y)) => {
            if x != y {
                run.fail("oracle:decode-not-repeatable", "", id, "two decodes of the same text differ".into(), text.to_owned());
            }
            run.count("decoder:repeat-ok");
        }
        (Err(x), Err(y)) if x == y => run.count("decoder:repeat-err"),
        (x, y) => run.fail(
            "oracle:decode-not-repeatable",
            "",
            id,
            format!("first: {:?} second: {:?}", x.map(|_| ()), y.map(|_| ())),
            text.to_owned(),
        ),
    }
}

/// One operation of a lifetime history (see `Model/LifeWire.lean`).
#[derive(Clone, Copy, Debug)]
enum H {
    Construct,
    Move(usize),
    Next(usize),
    Nth(usize, usize),
    Len(usize),
    Drop(usize),
}

impl H {
    fn token(self) -> String {
        match self {
            H::Construct => "c".into(),
            H::Move(i) => format!("m{i}"),
            H::Next(i) => format!("N{i}"),
            H::Nth(k, i) => format!("T{k}.{i}"),
            H::Len(i) => format!("L{i}"),
            H::Drop(i) => format!("d{i}"),
        }
    }
}

/// Random history over up to four interleaved instances; every instance index used is live at
/// that point (anything else does not compile in Rust).
fn gen_history(rng: &mut Rng, units: usize) -> Vec<H> {
    let mut live: Vec<usize> = vec![0];
    let mut made = 1;
    let mut h = vec![H::Construct];
    let n_ops = (2 * units + 6).min(36) + rng.below(6) as usize;
    for _ in 0..n_ops {
        if live.is_empty() {
            if made >= 4 {
                break;
            }
            h.push(H::Construct);
            live.push(made);
            made += 1;
            continue;
        }
        let i = *rng.pick(&live);
        match rng.below(12) {
            0 if made < 4 => {
                h.push(H::Construct);
                live.push(made);
                made += 1;
            }
            0 | 1 | 2 => h.push(H::Move(i)),
            3 => h.push(H::Nth(*rng.pick(&[0usize, 1, 2, 3, 1 << 40]), i)),
            4 => h.push(H::Len(i)),
            5 if h.len() > 3 => {
                h.push(H::Drop(i));
                live.retain(|x| *x != i);
            }
            _ => h.push(H::Next(i)),
        }
    }
    h
}

#[inline(never)]
fn by_value(g: GradualDifficulty) -> GradualDifficulty {
    std::hint::black_box(g)
}

/// Executes a history on real calculators. Returns the observation tokens and how many
/// operations were executed (the run stops after a panic inside the library).
fn exec_history(p: &grad::Prepared, hist: &[H]) -> Result<(Vec<String>, usize), String> {
    let mut slots: Vec<Option<GradualDifficulty>> = Vec::new();
    let mut toks = Vec::new();
    let mut done = 0;
    let mut moves = 0usize;
    let mut parking: Vec<GradualDifficulty> = Vec::new();
    for op in hist {
        done += 1;
        match *op {
            H::Construct => {
                slots.push(Some(grad::new_gradual(p)?)); // the Vec may reallocate: moves all instances
                toks.push("C".into());
            }
            H::Move(i) => {
                let g = slots[i].take().ok_or("history uses a dropped instance")?;
                moves += 1;
                let g = match moves % 3 {
                    0 => *Box::new(g),
                    1 => by_value(g),
                    _ => {
                        parking.push(g);
                        parking.reserve(parking.capacity() + 3); // reallocates with the value inside
                        parking.pop().ok_or("parking")?
                    }
                };
                slots[i] = Some(g);
                toks.push("M".into());
            }
            H::Drop(i) => {
                drop(slots[i].take().ok_or("history uses a dropped instance")?);
                toks.push("D".into());
            }
            H::Len(i) => {
                let g = slots[i].as_ref().ok_or("history uses a dropped instance")?;
                match guarded(|| g.len()) {
                    Ok(l) if l > (1usize << 60) => toks.push("LU".into()),
                    Ok(l) => toks.push(format!("L{l}")),
                    Err(_) => toks.push("LU".into()),
                }
            }
            H::Next(i) | H::Nth(_, i) => {
                let g = slots[i].as_mut().ok_or("history uses a dropped instance")?;
                let r = guarded(|| match *op {
                    H::Nth(k, _) => g.nth(k),
                    _ => g.next(),
                });
                match r {
                    Ok(Some(a)) => toks.push(p.show_val(&a)),
                    Ok(None) => toks.push("N".into()),
                    Err(_) => {
                        toks.push("P".into());
                        break;
                    }
                }
            }
        }
    }
    let live: Vec<String> = slots.iter().enumerate().filter(|(_, s)| s.is_some()).map(|(i, _)| i.to_string()).collect();
    toks.push(format!("live={}", if live.is_empty() { "-".into() } else { live.join("+") }));
    Ok((toks, done))
}

/// (b) correspondence: random histories on real calculators against the lockstep run of the value
/// model (`Model/Gradual.lean`) and the pointer-discipline model (`Model/Lifetime.lean`).
fn life_lines(run: &mut Run, id: &str, text: &str, mode: u8, settings: &Settings, rng: &mut Rng, n_hist: usize) {
    let p = match grad::prepare(text, mode, settings) {
        Ok(p) => p,
        Err(_) => {
            run.count("life:skipped-not-preparable");
            return;
        }
    };
    for _ in 0..n_hist {
        let hist = gen_history(rng, p.units);
        match guarded(|| exec_history(&p, &hist)) {
            Ok(Ok((toks, done))) => {
                let h: Vec<String> = hist[..done].iter().map(|o| o.token()).collect();
                let line = format!("LIFE {} {} {} {}", mode_name(p.mode), p.objs, p.sig_str(), h.join(","));
                run.count("life:histories");
                run.count_n("life:ops", done as u64);
                run.count_n("life:moves", hist[..done].iter().filter(|o| matches!(o, H::Move(_))).count() as u64);
                run.count_n("life:drops", hist[..done].iter().filter(|o| matches!(o, H::Drop(_))).count() as u64);
                run.count_n("life:constructs", hist[..done].iter().filter(|o| matches!(o, H::Construct)).count() as u64);
                if toks.iter().filter(|t| t.starts_with("S:")).count() >= 4 && line.len() < 400 && run.samples.iter().filter(|x| x.starts_with("LIFE ")).count() < 2 {
                    // the StrainsVec part fills the sample list first: keep two histories in front
                    run.samples.insert(0, format!("{line} => {}", toks.join(" ")));
                    run.samples.truncate(6);
                }
                run.line(id, line, toks.join(" "));
            }
            Ok(Err(e)) => run.fail("oracle:gradual-new", "", id, e, p.repro()),
            Err(e) => run.fail("oracle:gradual-panic", "", id, e, p.repro()),
        }
    }
}

/// (d) The argument of the `unsafe { NonZeroU64::new_unchecked(..) }` in `Difficulty::clock_rate`, read back through
/// `inspect()`: `CRB <bits>` lines against `Model/ClockRate.lean` (exact), and the oracle "an explicitly set rate is
/// still there (`Some`), its bits are non-zero and it is a NaN or within [0.01, 100]" — a zero pattern is the UB the
/// SAFETY comment excludes (in a release build it shows as the rate silently vanishing: `Option<NonZeroU64>` reads it
/// as `None`).
fn clock_rate_bits(run: &mut Run, seed: u64, thorough: bool, only: Option<&str>) {
    let mut rng = Rng::new(seed ^ 0xC11_D);
    let mut pats: Vec<u64> = vec![
        0,                       // +0.0
        1 << 63,                 // -0.0
        1,                       // smallest subnormal
        (1 << 63) | 1,
        0x000F_FFFF_FFFF_FFFF,   // largest subnormal
        0x0010_0000_0000_0000,   // smallest normal
        0x3F84_7AE1_47AE_147A,   // just below 0.01
        0x3F84_7AE1_47AE_147B,   // 0.01
        0x3F84_7AE1_47AE_147C,
        0x3FF0_0000_0000_0000,   // 1.0
        0x3FF8_0000_0000_0000,   // 1.5
        0x4058_FFFF_FFFF_FFFF,
        0x4059_0000_0000_0000,   // 100.0
        0x4059_0000_0000_0001,
        0x7FEF_FFFF_FFFF_FFFF,   // f64::MAX
        0x7FF0_0000_0000_0000,   // +inf
        0xFFF0_0000_0000_0000,   // -inf
        0x7FF8_0000_0000_0000,   // NaN
        0xFFF8_0000_0000_0000,   // -NaN
        0x7FF0_0000_0000_0001,   // signalling NaN payload
        0xFFFF_FFFF_FFFF_FFFF,
        (-1.0f64).to_bits(),
        (-0.01f64).to_bits(),
        (1e-300f64).to_bits(),
    ];
    let n_random = if thorough { 20_000 } else { 1_500 };
    for i in 0..n_random {
        pats.push(match i % 3 {
            0 => rng.below(u64::MAX),
            1 => (rng.range(1, 20_000) as f64 / 100.0).to_bits(),
            _ => rng.below(u64::MAX) >> rng.range(0, 63),
        });
    }
    for (i, b) in pats.into_iter().enumerate() {
        let id = format!("crb-{i}");
        if only.is_some_and(|o| o != id) {
            continue;
        }
        run.count("clock-rate-bits: cases");
        run.eval(Some(&format!("crb {b}")));
        let x = f64::from_bits(b);
        let got = std::panic::catch_unwind(|| Difficulty::new().clock_rate(x).inspect().clock_rate);
        let req = format!("CRB {b}");
        match got {
            Ok(Some(v)) => {
                let vb = v.to_bits();
                run.line(&id, req, format!("{vb}"));
                if vb == 0 || !(v.is_nan() || (0.01..=100.0).contains(&v)) {
                    run.fail(
                        "oracle:clock-rate-nonzero-precondition",
                        "",
                        &id,
                        format!("Difficulty::clock_rate({x:?} = bits {b:#x}) stored {v:?} (bits {vb:#x})"),
                        format!("Difficulty::new().clock_rate(f64::from_bits({b:#x})).inspect().clock_rate"),
                    );
                }
            }
            Ok(None) => {
                run.line(&id, req, "none".into());
                run.fail(
                    "oracle:clock-rate-nonzero-precondition",
                    "",
                    &id,
                    format!("Difficulty::clock_rate({x:?} = bits {b:#x}): the explicitly set rate reads back as None (zero bits reached NonZeroU64::new_unchecked, or the setter dropped the value)"),
                    format!("Difficulty::new().clock_rate(f64::from_bits({b:#x})).inspect().clock_rate"),
                );
            }
            Err(_) => {
                run.line(&id, req, "panic".into());
                run.fail(
                    "oracle:clock-rate-nonzero-precondition",
                    "",
                    &id,
                    format!("Difficulty::clock_rate({x:?} = bits {b:#x}) panicked / aborted"),
                    format!("Difficulty::new().clock_rate(f64::from_bits({b:#x}))"),
                );
            }
        }
    }
}

pub fn run(tier: &str, seed: u64, only: Option<&str>) -> Run {
    let mut run = Run::default();
    let thorough = tier == "thorough";
    // (a)
    svops::run_sv(&mut run, tier, seed, only, true);
    // (d) Difficulty::clock_rate -> NonZeroU64::new_unchecked(clamp(x).to_bits())
    clock_rate_bits(&mut run, seed, thorough, only);
    // (b), (c)
    let mut rng = Rng::new(seed ^ 0xC11);
    let n = if thorough { 2000 } else { 80 };
    let mut maps: Vec<(String, u8, String, Settings)> = Vec::new();
    for i in 0..n {
        let target = rng.below(4) as u8;
        let native = target == 0 || rng.chance(1, 2);
        let mut cfg = GenCfg::small(if native { target } else { 0 });
        cfg.max_objects = *rng.pick(&[1, 3, 6, 12, 25, 40]);
        cfg.min_objects = cfg.max_objects / 2;
        cfg.weights = if cfg.mode == 3 { [5, 0, 0, 4] } else { [4, 5, 1, 0] };
        cfg.long_gaps = rng.chance(1, 5);
        let spec = random_map(&mut rng, &cfg);
        let settings = if rng.chance(1, 2) { Settings::default() } else { random_settings(&mut rng, target) };
        maps.push((format!("hist-{i}-{}-{}", mode_name(target), spec.kinds()), target, spec.render(), settings));
    }
    for (mode, text) in resource_maps() {
        let k = if thorough { 400 } else { 60 };
        maps.push((format!("hist-res-{}", mode_name(mode)), mode, truncate_objects(&text, k), Settings::default()));
        if mode == 0 {
            for t in 1..4u8 {
                maps.push((format!("hist-res-osu-to-{}", mode_name(t)), t, truncate_objects(&text, k), Settings::default()));
            }
        }
    }
    let mut life_rng = Rng::new(seed ^ 0xC11_B0B);
    for (id, mode, text, settings) in maps {
        // drawn for every map so that a replay of one case sees the same histories
        let mut case_rng = Rng::new(life_rng.below(u64::MAX));
        if only.is_some_and(|o| o != id) {
            continue;
        }
        run.repro.insert(id.clone(), format!("mode={} settings={settings:?} map=<<\n{text}>>", mode_name(mode)));
        let map = match decode(&text) {
            Ok(m) => m,
            Err(e) => {
                run.fail("oracle:prepare", "", &id, e, text.clone());
                continue;
            }
        };
        decoder_history(&mut run, &id, &text);
        let d = settings.build(mode);
        let base = match guarded(|| baseline(&d, &map, mode)) {
            Ok(Ok(b)) => b,
            Ok(Err(_)) => {
                run.count("skipped:not-convertible");
                continue;
            }
            Err(p) => {
                run.fail("oracle:gradual-panic", "", &id, p, text.clone());
                continue;
            }
        };
        run.count(&format!("hist:mode:{}", mode_name(mode)));
        run.count(match base.len() {
            0 => "hist:values:0",
            1..=3 => "hist:values:1-3",
            _ => "hist:values:4+",
        });
        run.eval((base.len() >= 2).then_some(id.as_str()));
        match guarded(|| {
            let mut p = histories(&d, &map, mode, &base);
            p.extend(perf_history(&d, &map, mode));
            p
        }) {
            Ok(problems) => {
                for p in problems {
                    run.fail("oracle:gradual-lifetime-history", "", &id, p, text.clone());
                }
            }
            Err(p) => run.fail("oracle:gradual-panic", "", &id, p, text.clone()),
        }
        life_lines(&mut run, &id, &text, mode, &settings, &mut case_rng, if thorough { 6 } else { 3 });
    }
    run
}
