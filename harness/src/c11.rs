//! C11 — unsafe code never performs an invalid memory access.
//!
//! (a) `StrainsVec`: op sequences against the Lean model + plain-list oracle (`svops`).
//! (b) self-referential gradual calculators: lifetime histories (move into `Box`/`Vec`/thread,
//!     drop mid-iteration, interleaved instances) must produce exactly the values of plain
//!     iteration — a smoke oracle; memory errors proper are looked for by the Miri run of
//!     `src/bin/miri_hist.rs` (thorough tier).
//! (c) decoder scratch buffer: slider-heavy inputs decode identically when decoded repeatedly and
//!     interleaved with malformed lines.

use rosu_pp::{
    catch::CatchGradualDifficulty, mania::ManiaGradualDifficulty, osu::OsuGradualDifficulty,
    taiko::TaikoGradualDifficulty, Beatmap, Difficulty, GradualDifficulty, GradualPerformance,
};

use crate::{
    common::{decode, guarded, mode_name, mode_of, random_settings, resource_maps, truncate_objects, Run, Settings},
    mapgen::{random_map, GenCfg},
    rng::Rng,
    svops,
};

fn fmt<T: std::fmt::Debug>(v: &T) -> String {
    format!("{v:?}")
}

/// Values of plain, unmoved iteration.
fn baseline(d: &Difficulty, map: &Beatmap, mode: u8) -> Result<Vec<String>, String> {
    let mut g = GradualDifficulty::new_with_mode(d.clone(), map, mode_of(mode)).map_err(|e| format!("convert:{e:?}"))?;
    // no `collect()`: it would consult `size_hint()`/`len()`, whose taiko underflow is a known
    // C15 finding and not a memory-safety matter
    let mut v = Vec::new();
    while let Some(a) = g.next() {
        v.push(fmt(&a));
        if v.len() > 20_000 {
            break;
        }
    }
    Ok(v)
}

macro_rules! mode_history {
    ( $ty:ty, $d:expr, $map:expr, $base:expr, $send:expr ) => {{
        let d: &Difficulty = $d;
        let map: &Beatmap = $map;
        let base: &Vec<String> = $base;
        let mut problems: Vec<String> = Vec::new();
        let n = base.len();
        // 1. step, move into a Box, step, move out again, step
        if let Ok(mut g) = <$ty>::new(d.clone(), map) {
            let mut got = Vec::new();
            for _ in 0..n / 3 {
                got.extend(g.next().map(|a| fmt(&a)));
            }
            let mut boxed = Box::new(g);
            for _ in 0..n / 3 {
                got.extend(boxed.next().map(|a| fmt(&a)));
            }
            let mut back = *boxed;
            for a in back.by_ref() {
                got.push(fmt(&a));
            }
            if back.next().is_some() {
                problems.push("box: value after exhaustion".into());
            }
            let want: Vec<String> = base.iter().map(|s| strip_enum(s)).collect();
            if got != want {
                problems.push(format!("box: {} values, plain iteration {}", got.len(), want.len()));
            }
        }
        // 2. several instances in a Vec that reallocates, stepped round-robin, some dropped early
        {
            let mut v: Vec<$ty> = Vec::new();
            let mut outs: Vec<Vec<String>> = Vec::new();
            for k in 0..5 {
                if let Ok(mut g) = <$ty>::new(d.clone(), map) {
                    let mut o = Vec::new();
                    for _ in 0..k.min(n) {
                        o.extend(g.next().map(|a| fmt(&a)));
                    }
                    v.push(g); // moves; the Vec grows and moves earlier elements
                    outs.push(o);
                }
            }
            let mut round = 0;
            while !v.is_empty() && round < n + 2 {
                for (g, o) in v.iter_mut().zip(outs.iter_mut()) {
                    o.extend(g.next().map(|a| fmt(&a)));
                }
                if round == 1 && v.len() > 2 {
                    // drop one mid-iteration, swap two others
                    v.remove(1);
                    let dropped = outs.remove(1);
                    let want: Vec<String> = base.iter().take(dropped.len()).map(|s| strip_enum(s)).collect();
                    if dropped != want {
                        problems.push("vec: dropped instance diverged before the drop".into());
                    }
                    v.swap(0, 1);
                    outs.swap(0, 1);
                }
                round += 1;
            }
            let want: Vec<String> = base.iter().map(|s| strip_enum(s)).collect();
            for o in &outs {
                if *o != want {
                    problems.push(format!("vec: interleaved instance yielded {} values, plain {}", o.len(), want.len()));
                }
            }
        }
        // 3. into a thread (only where the type is Send in this build)
        if $send {
            problems.extend(thread_history::<$ty>(d, map, base));
        }
        // 4. drop right after construction, and after exactly one step
        if let Ok(g) = <$ty>::new(d.clone(), map) {
            drop(g);
        }
        if let Ok(mut g) = <$ty>::new(d.clone(), map) {
            let _ = g.next();
            drop(g);
        }
        problems
    }};
}

/// `DifficultyAttributes::Osu(OsuDifficultyAttributes {..})` → inner struct text, so that values
/// of the mode-specific calculators compare with the mode-agnostic baseline.
fn strip_enum(s: &str) -> String {
    match s.find('(') {
        Some(i) if s.ends_with(')') => s[i + 1..s.len() - 1].to_owned(),
        _ => s.to_owned(),
    }
}

trait MaybeThread {
    fn run_in_thread(self, n: usize) -> Vec<String>;
}

macro_rules! impl_thread {
    ( $ty:ty ) => {
        impl MaybeThread for $ty {
            fn run_in_thread(mut self, n: usize) -> Vec<String> {
                let mut got = Vec::new();
                for _ in 0..n / 2 {
                    got.extend(self.next().map(|a| fmt(&a)));
                }
                let h = std::thread::spawn(move || {
                    let mut rest = Vec::new();
                    for a in self {
                        rest.push(fmt(&a));
                    }
                    rest
                });
                got.extend(h.join().unwrap_or_default());
                got
            }
        }
    };
}

impl_thread!(OsuGradualDifficulty);
impl_thread!(CatchGradualDifficulty);
impl_thread!(ManiaGradualDifficulty);
#[cfg(feature = "sync")]
impl_thread!(TaikoGradualDifficulty);
#[cfg(not(feature = "sync"))]
impl MaybeThread for TaikoGradualDifficulty {
    fn run_in_thread(self, _: usize) -> Vec<String> {
        Vec::new()
    }
}

trait NewGradual: Sized {
    fn make(d: Difficulty, map: &Beatmap) -> Option<Self>;
}
macro_rules! impl_new {
    ( $ty:ty ) => {
        impl NewGradual for $ty {
            fn make(d: Difficulty, map: &Beatmap) -> Option<Self> {
                <$ty>::new(d, map).ok()
            }
        }
    };
}
impl_new!(OsuGradualDifficulty);
impl_new!(TaikoGradualDifficulty);
impl_new!(CatchGradualDifficulty);
impl_new!(ManiaGradualDifficulty);

fn thread_history<G: MaybeThread + NewGradual>(d: &Difficulty, map: &Beatmap, base: &[String]) -> Vec<String> {
    let mut problems = Vec::new();
    if let Some(g) = G::make(d.clone(), map) {
        let got = g.run_in_thread(base.len());
        let want: Vec<String> = base.iter().map(|s| strip_enum(s)).collect();
        if got != want {
            problems.push(format!("thread: {} values, plain iteration {}", got.len(), want.len()));
        }
    }
    problems
}

pub fn histories(d: &Difficulty, map: &Beatmap, mode: u8, base: &Vec<String>) -> Vec<String> {
    match mode {
        0 => mode_history!(OsuGradualDifficulty, d, map, base, true),
        1 => mode_history!(TaikoGradualDifficulty, d, map, base, cfg!(feature = "sync")),
        2 => mode_history!(CatchGradualDifficulty, d, map, base, true),
        _ => mode_history!(ManiaGradualDifficulty, d, map, base, true),
    }
}

/// GradualPerformance moved into a Box between steps.
fn perf_history(d: &Difficulty, map: &Beatmap, mode: u8) -> Vec<String> {
    let mut problems = Vec::new();
    let mk = || GradualPerformance::new_with_mode(d.clone(), map, mode_of(mode)).ok();
    let state = rosu_pp::any::ScoreState::new();
    let plain: Vec<String> = match mk() {
        Some(mut g) => {
            let mut v = Vec::new();
            while let Some(a) = g.next(state.clone()) {
                v.push(fmt(&a));
                if v.len() > 5000 {
                    break;
                }
            }
            v
        }
        None => return problems,
    };
    if let Some(mut g) = mk() {
        let mut got = Vec::new();
        for _ in 0..plain.len() / 2 {
            got.extend(g.next(state.clone()).map(|a| fmt(&a)));
        }
        let mut b = Box::new(g);
        while let Some(a) = b.next(state.clone()) {
            got.push(fmt(&a));
            if got.len() > 5000 {
                break;
            }
        }
        if got != plain {
            problems.push(format!("gradual performance in Box: {} values, plain {}", got.len(), plain.len()));
        }
    }
    problems
}

fn decoder_history(run: &mut Run, id: &str, text: &str) {
    // (c): repeated and interleaved decoding of slider-heavy text gives identical maps; a
    // malformed slider line in between must not disturb later lines.
    let a = decode(text);
    let mut broken = String::new();
    for line in text.lines() {
        broken.push_str(line);
        broken.push('\n');
        if line.contains('|') {
            broken.push_str("256,192,1000,2,0,B|,1,\n");
            broken.push_str("10,10,1000,2,0,L|1:1|2:2|3:3|4:4|5:5|6:6|7:7|8:8|9:9,1\n");
        }
    }
    // a rejected line must not influence how the other lines decode: every inserted line is first
    // checked to be rejected on its own (a file holding only that line yields no object)
    let header: String = text.lines().take_while(|l| l.trim() != "[HitObjects]").map(|l| format!("{l}\n")).collect();
    let rejected_alone = |line: &str| -> bool {
        matches!(decode(&format!("{header}[HitObjects]\n{line}\n")), Ok(m) if m.hit_objects.is_empty())
    };
    if rejected_alone("256,192,1000,2,0,B|,1,") && rejected_alone("100,100,1500,2,0,B|100:100|:,1,100") {
        let mut broken2 = String::new();
        for line in text.lines() {
            broken2.push_str(line);
            broken2.push('\n');
            if line.contains('|') {
                broken2.push_str("256,192,1000,2,0,B|,1,\n");
                broken2.push_str("100,100,1500,2,0,B|100:100|:,1,100\n");
            }
        }
        if let (Ok(with), Ok(without)) = (decode(&broken2), &a) {
            if format!("{:?}", with.hit_objects) != format!("{:?}", without.hit_objects) {
                run.fail(
                    "oracle:rejected-line-disturbs-later-lines",
                    "",
                    id,
                    format!("{} objects with rejected slider lines in between, {} without", with.hit_objects.len(), without.hit_objects.len()),
                    broken2.clone(),
                );
            }
            run.count("decoder:rejected-lines-inserted");
        }
    }
    let _ = decode(&broken);
    let b = decode(text);
    match (a, b) {
        (Ok(x), Ok(y)) => {
            if x != y {
                run.fail("oracle:decode-not-repeatable", "", id, "two decodes of the same text differ".into(), text.to_owned());
            }
            run.count("decoder:repeat-ok");
        }
        (Err(x), Err(y)) if x == y => run.count("decoder:repeat-err"),
        (x, y) => run.fail(
            "oracle:decode-not-repeatable",
            "",
            id,
            format!("first: {:?} second: {:?}", x.map(|_| ()), y.map(|_| ())),
            text.to_owned(),
        ),
    }
}

pub fn run(tier: &str, seed: u64, only: Option<&str>) -> Run {
    let mut run = Run::default();
    let thorough = tier == "thorough";
    // (a)
    svops::run_sv(&mut run, tier, seed, only, true);
    // (b), (c)
    let mut rng = Rng::new(seed ^ 0xC11);
    let n = if thorough { 2000 } else { 80 };
    let mut maps: Vec<(String, u8, String, Settings)> = Vec::new();
    for i in 0..n {
        let target = rng.below(4) as u8;
        let native = target == 0 || rng.chance(1, 2);
        let mut cfg = GenCfg::small(if native { target } else { 0 });
        cfg.max_objects = *rng.pick(&[1, 3, 6, 12, 25, 40]);
        cfg.min_objects = cfg.max_objects / 2;
        cfg.weights = if cfg.mode == 3 { [5, 0, 0, 4] } else { [4, 5, 1, 0] };
        cfg.long_gaps = rng.chance(1, 5);
        let spec = random_map(&mut rng, &cfg);
        let settings = if rng.chance(1, 2) { Settings::default() } else { random_settings(&mut rng, target) };
        maps.push((format!("hist-{i}-{}-{}", mode_name(target), spec.kinds()), target, spec.render(), settings));
    }
    for (mode, text) in resource_maps() {
        let k = if thorough { 400 } else { 60 };
        maps.push((format!("hist-res-{}", mode_name(mode)), mode, truncate_objects(&text, k), Settings::default()));
        if mode == 0 {
            for t in 1..4u8 {
                maps.push((format!("hist-res-osu-to-{}", mode_name(t)), t, truncate_objects(&text, k), Settings::default()));
            }
        }
    }
    for (id, mode, text, settings) in maps {
        if only.is_some_and(|o| o != id) {
            continue;
        }
        run.repro.insert(id.clone(), format!("mode={} settings={settings:?} map=<<\n{text}>>", mode_name(mode)));
        let map = match decode(&text) {
            Ok(m) => m,
            Err(e) => {
                run.fail("oracle:prepare", "", &id, e, text.clone());
                continue;
            }
        };
        decoder_history(&mut run, &id, &text);
        let d = settings.build(mode);
        let base = match guarded(|| baseline(&d, &map, mode)) {
            Ok(Ok(b)) => b,
            Ok(Err(_)) => {
                run.count("skipped:not-convertible");
                continue;
            }
            Err(p) => {
                run.fail("oracle:gradual-panic", "", &id, p, text.clone());
                continue;
            }
        };
        run.count(&format!("hist:mode:{}", mode_name(mode)));
        run.count(match base.len() {
            0 => "hist:values:0",
            1..=3 => "hist:values:1-3",
            _ => "hist:values:4+",
        });
        run.eval((base.len() >= 2).then_some(id.as_str()));
        match guarded(|| {
            let mut p = histories(&d, &map, mode, &base);
            p.extend(perf_history(&d, &map, mode));
            p
        }) {
            Ok(problems) => {
                for p in problems {
                    run.fail("oracle:gradual-lifetime-history", "", &id, p, text.clone());
                }
            }
            Err(p) => run.fail("oracle:gradual-panic", "", &id, p, text.clone()),
        }
    }
    run
}
