//! Shared plumbing: settings generation, result collection, JSON output.

use std::{
    collections::{BTreeMap, BTreeSet},
    fmt::Write as _,
    fs,
    panic::{self, AssertUnwindSafe},
    path::Path,
};

use rosu_pp::{
    model::{
        mode::GameMode,
        mods::rosu_mods::{
            generated_mods::{
                ClassicMania, ClassicOsu, DaycoreOsu, DifficultyAdjustCatch, DifficultyAdjustMania,
                DifficultyAdjustOsu, DifficultyAdjustTaiko, DoubleTimeOsu, HalfTimeOsu, HoldOffMania,
                InvertMania, MirrorOsu, NightcoreOsu, RandomMania, RandomTaiko,
            },
            GameMod, GameMods as GameModsLazer, GameModsIntermode,
        },
    },
    Beatmap, Difficulty, GameMods,
};

use crate::rng::Rng;

pub fn mode_of(m: u8) -> GameMode {
    match m {
        0 => GameMode::Osu,
        1 => GameMode::Taiko,
        2 => GameMode::Catch,
        _ => GameMode::Mania,
    }
}

pub fn mods_mode(m: u8) -> rosu_pp::model::mods::rosu_mods::GameMode {
    use rosu_pp::model::mods::rosu_mods::GameMode as M;
    match m {
        0 => M::Osu,
        1 => M::Taiko,
        2 => M::Catch,
        _ => M::Mania,
    }
}

pub fn mode_name(m: u8) -> &'static str {
    ["osu", "taiko", "catch", "mania"][(m & 3) as usize]
}

pub fn mode_idx(m: GameMode) -> u8 {
    match m {
        GameMode::Osu => 0,
        GameMode::Taiko => 1,
        GameMode::Catch => 2,
        GameMode::Mania => 3,
    }
}

/// How mods are spelled.
#[derive(Clone, Debug, PartialEq)]
pub enum ModsSpec {
    Bits(u32),
    /// lazer mods for the given mode; each entry is a small tag understood by `build_lazer`
    Lazer(Vec<LazerTag>),
}

#[derive(Clone, Debug, PartialEq)]
pub enum LazerTag {
    Acronym(&'static str),
    DtRate(f64),
    HtRate(f64),
    NcRate(f64),
    DcRate(f64),
    Da {
        ar: Option<f64>,
        cs: Option<f64>,
        hp: Option<f64>,
        od: Option<f64>,
    },
    RandomSeed(i32),
    Mirror(Option<&'static str>),
    HoldOff,
    Invert,
    Classic,
}

pub fn build_lazer(mode: u8, tags: &[LazerTag]) -> GameModsLazer {
    let gm = mode_of(mode);
    let mut mods = GameModsLazer::new();
    for t in tags {
        match t {
            LazerTag::Acronym(a) => {
                let mut im = GameModsIntermode::new();
                if let Ok(parsed) = a.parse::<GameModsIntermode>() {
                    im = parsed;
                }
                for m in GameModsLazer::from_intermode(&im, mods_mode(mode)).iter() {
                    mods.insert(m.clone());
                }
            }
            LazerTag::DtRate(r) => mods.insert(retarget(
                GameMod::DoubleTimeOsu(DoubleTimeOsu {
                    speed_change: Some(*r),
                    ..Default::default()
                }),
                gm,
            )),
            LazerTag::HtRate(r) => mods.insert(retarget(
                GameMod::HalfTimeOsu(HalfTimeOsu {
                    speed_change: Some(*r),
                    ..Default::default()
                }),
                gm,
            )),
            LazerTag::NcRate(r) => mods.insert(retarget(
                GameMod::NightcoreOsu(NightcoreOsu {
                    speed_change: Some(*r),
                }),
                gm,
            )),
            LazerTag::DcRate(r) => mods.insert(retarget(
                GameMod::DaycoreOsu(DaycoreOsu {
                    speed_change: Some(*r),
                }),
                gm,
            )),
            LazerTag::Da { ar, cs, hp, od } => mods.insert(match gm {
                GameMode::Osu => GameMod::DifficultyAdjustOsu(DifficultyAdjustOsu {
                    circle_size: *cs,
                    approach_rate: *ar,
                    drain_rate: *hp,
                    overall_difficulty: *od,
                    ..Default::default()
                }),
                GameMode::Taiko => GameMod::DifficultyAdjustTaiko(DifficultyAdjustTaiko {
                    drain_rate: *hp,
                    overall_difficulty: *od,
                    ..Default::default()
                }),
                GameMode::Catch => GameMod::DifficultyAdjustCatch(DifficultyAdjustCatch {
                    circle_size: *cs,
                    approach_rate: *ar,
                    drain_rate: *hp,
                    overall_difficulty: *od,
                    ..Default::default()
                }),
                GameMode::Mania => GameMod::DifficultyAdjustMania(DifficultyAdjustMania {
                    drain_rate: *hp,
                    overall_difficulty: *od,
                    ..Default::default()
                }),
            }),
            LazerTag::RandomSeed(s) => match gm {
                GameMode::Taiko => mods.insert(GameMod::RandomTaiko(RandomTaiko {
                    seed: Some(f64::from(*s)),
                })),
                GameMode::Mania => mods.insert(GameMod::RandomMania(RandomMania {
                    seed: Some(f64::from(*s)),
                })),
                _ => {}
            },
            LazerTag::Mirror(r) => {
                if gm == GameMode::Osu {
                    mods.insert(GameMod::MirrorOsu(MirrorOsu {
                        reflection: r.map(str::to_owned),
                    }));
                }
            }
            LazerTag::HoldOff => {
                if gm == GameMode::Mania {
                    mods.insert(GameMod::HoldOffMania(HoldOffMania::default()));
                }
            }
            LazerTag::Invert => {
                if gm == GameMode::Mania {
                    mods.insert(GameMod::InvertMania(InvertMania::default()));
                }
            }
            LazerTag::Classic => match gm {
                GameMode::Osu => mods.insert(GameMod::ClassicOsu(ClassicOsu::default())),
                GameMode::Mania => mods.insert(GameMod::ClassicMania(ClassicMania::default())),
                _ => {}
            },
        }
    }
    mods
}

/// Rate mods exist per mode with identical settings; re-target an `…Osu` variant.
fn retarget(m: GameMod, mode: GameMode) -> GameMod {
    use rosu_pp::model::mods::rosu_mods::generated_mods::*;
    match (m, mode) {
        (m, GameMode::Osu) => m,
        (GameMod::DoubleTimeOsu(d), GameMode::Taiko) => GameMod::DoubleTimeTaiko(DoubleTimeTaiko {
            speed_change: d.speed_change,
            adjust_pitch: d.adjust_pitch,
        }),
        (GameMod::DoubleTimeOsu(d), GameMode::Catch) => GameMod::DoubleTimeCatch(DoubleTimeCatch {
            speed_change: d.speed_change,
            adjust_pitch: d.adjust_pitch,
        }),
        (GameMod::DoubleTimeOsu(d), GameMode::Mania) => GameMod::DoubleTimeMania(DoubleTimeMania {
            speed_change: d.speed_change,
            adjust_pitch: d.adjust_pitch,
        }),
        (GameMod::HalfTimeOsu(d), GameMode::Taiko) => GameMod::HalfTimeTaiko(HalfTimeTaiko {
            speed_change: d.speed_change,
            adjust_pitch: d.adjust_pitch,
        }),
        (GameMod::HalfTimeOsu(d), GameMode::Catch) => GameMod::HalfTimeCatch(HalfTimeCatch {
            speed_change: d.speed_change,
            adjust_pitch: d.adjust_pitch,
        }),
        (GameMod::HalfTimeOsu(d), GameMode::Mania) => GameMod::HalfTimeMania(HalfTimeMania {
            speed_change: d.speed_change,
            adjust_pitch: d.adjust_pitch,
        }),
        (GameMod::NightcoreOsu(d), GameMode::Taiko) => GameMod::NightcoreTaiko(NightcoreTaiko {
            speed_change: d.speed_change,
        }),
        (GameMod::NightcoreOsu(d), GameMode::Catch) => GameMod::NightcoreCatch(NightcoreCatch {
            speed_change: d.speed_change,
        }),
        (GameMod::NightcoreOsu(d), GameMode::Mania) => GameMod::NightcoreMania(NightcoreMania {
            speed_change: d.speed_change,
        }),
        (GameMod::DaycoreOsu(d), GameMode::Taiko) => GameMod::DaycoreTaiko(DaycoreTaiko {
            speed_change: d.speed_change,
        }),
        (GameMod::DaycoreOsu(d), GameMode::Catch) => GameMod::DaycoreCatch(DaycoreCatch {
            speed_change: d.speed_change,
        }),
        (GameMod::DaycoreOsu(d), GameMode::Mania) => GameMod::DaycoreMania(DaycoreMania {
            speed_change: d.speed_change,
        }),
        (m, _) => m,
    }
}

impl ModsSpec {
    pub fn build(&self, mode: u8) -> GameMods {
        match self {
            ModsSpec::Bits(b) => GameMods::from(*b),
            ModsSpec::Lazer(tags) => GameMods::from(build_lazer(mode, tags)),
        }
    }
}

/// A `Difficulty` described as data so that cases can be printed and replayed.
#[derive(Clone, Debug, PartialEq)]
pub struct Settings {
    pub mods: ModsSpec,
    pub clock_rate: Option<f64>,
    pub ar: Option<(f32, bool)>,
    pub cs: Option<(f32, bool)>,
    pub hp: Option<(f32, bool)>,
    pub od: Option<(f32, bool)>,
    pub hardrock_offsets: Option<bool>,
    pub lazer: Option<bool>,
}

impl Default for Settings {
    fn default() -> Self {
        Settings {
            mods: ModsSpec::Bits(0),
            clock_rate: None,
            ar: None,
            cs: None,
            hp: None,
            od: None,
            hardrock_offsets: None,
            lazer: None,
        }
    }
}

impl Settings {
    pub fn build(&self, mode: u8) -> Difficulty {
        let mut d = Difficulty::new().mods(self.mods.build(mode));
        if let Some(r) = self.clock_rate {
            d = d.clock_rate(r);
        }
        if let Some((v, w)) = self.ar {
            d = d.ar(v, w);
        }
        if let Some((v, w)) = self.cs {
            d = d.cs(v, w);
        }
        if let Some((v, w)) = self.hp {
            d = d.hp(v, w);
        }
        if let Some((v, w)) = self.od {
            d = d.od(v, w);
        }
        if let Some(b) = self.hardrock_offsets {
            d = d.hardrock_offsets(b);
        }
        if let Some(b) = self.lazer {
            d = d.lazer(b);
        }
        d
    }

    pub fn describe(&self) -> String {
        format!("{self:?}")
    }

    /// The same settings supplied through `Performance`'s OWN setters (the any-mode enum forwards each to the
    /// mode's builder) instead of handing over a finished `Difficulty`.
    pub fn apply_via_setters<'a>(&self, p: rosu_pp::Performance<'a>, mode: u8) -> rosu_pp::Performance<'a> {
        let mut p = p.mods(self.mods.build(mode));
        if let Some(r) = self.clock_rate {
            p = p.clock_rate(r);
        }
        if let Some((v, w)) = self.ar {
            p = p.ar(v, w);
        }
        if let Some((v, w)) = self.cs {
            p = p.cs(v, w);
        }
        if let Some((v, w)) = self.hp {
            p = p.hp(v, w);
        }
        if let Some((v, w)) = self.od {
            p = p.od(v, w);
        }
        if let Some(b) = self.hardrock_offsets {
            p = p.hardrock_offsets(b);
        }
        if let Some(b) = self.lazer {
            p = p.lazer(b);
        }
        p
    }
}

pub const LEGACY_POOL: &[u32] = &[
    0,
    1,       // NF
    2,       // EZ
    8,       // HD
    16,      // HR
    64,      // DT
    256,     // HT
    576,     // NC
    1024,    // FL
    128,     // RX
    8192,    // AP
    4,       // TD
    8 + 16,  // HDHR
    16 + 64, // HRDT
    2 + 256, // EZHT
    1024 + 8 + 64,
    4096, // SO
];

pub fn random_settings(rng: &mut Rng, mode: u8) -> Settings {
    let mut s = Settings::default();
    let style = rng.below(10);
    if style < 6 {
        let mut bits = *rng.pick(LEGACY_POOL);
        if mode == 3 && rng.chance(1, 3) {
            bits |= *rng.pick(&[1u32 << 15, 1 << 16, 1 << 17, 1 << 18, 1 << 19, 1 << 24, 1 << 26, 1 << 27, 1 << 28]);
        }
        s.mods = ModsSpec::Bits(bits);
    } else {
        let mut tags = Vec::new();
        match rng.below(6) {
            0 => tags.push(LazerTag::DtRate(*rng.pick(&[1.1, 1.25, 1.3, 1.5, 1.75, 2.0]))),
            1 => tags.push(LazerTag::HtRate(*rng.pick(&[0.5, 0.6, 0.75, 0.9]))),
            2 => tags.push(LazerTag::Acronym("HR")),
            3 => tags.push(LazerTag::Acronym("EZ")),
            4 => tags.push(LazerTag::Acronym("HD")),
            _ => {}
        }
        if rng.chance(1, 3) {
            tags.push(LazerTag::Da {
                ar: rng.chance(1, 2).then(|| rng.range(0, 22) as f64 * 0.5),
                cs: rng.chance(1, 2).then(|| rng.range(0, 20) as f64 * 0.5),
                hp: rng.chance(1, 2).then(|| rng.range(0, 22) as f64 * 0.5),
                od: rng.chance(1, 2).then(|| rng.range(0, 22) as f64 * 0.5),
            });
        }
        if rng.chance(1, 4) {
            tags.push(LazerTag::Classic);
        }
        if mode == 0 && rng.chance(1, 4) {
            tags.push(LazerTag::Mirror(*rng.pick(&[None, Some("1"), Some("2")])));
        }
        if mode == 3 {
            if rng.chance(1, 4) {
                tags.push(LazerTag::HoldOff);
            } else if rng.chance(1, 4) {
                tags.push(LazerTag::Invert);
            }
        }
        if (mode == 1 || mode == 3) && rng.chance(1, 4) {
            // every 7th draw: the Random mod WITHOUT a seed (lazer's default). The crate then skips the
            // shuffle, so results must stay deterministic (seed C01-random-mod-unseeded-entropy drew a
            // fresh seed per call). Same number of PRNG draws as before, so the case stream is unchanged.
            let seed = rng.range(-5, 1000) as i32;
            if seed.rem_euclid(7) == 3 {
                tags.push(LazerTag::Acronym("RD"));
            } else {
                tags.push(LazerTag::RandomSeed(seed));
            }
        }
        s.mods = ModsSpec::Lazer(tags);
    }
    if rng.chance(1, 4) {
        s.clock_rate = Some(*rng.pick(&[0.5, 0.75, 0.9, 1.0, 1.1, 1.3, 1.5, 2.0, 0.87, 1.23]));
    }
    let attr = |rng: &mut Rng| (rng.range(0, 22) as f32 * 0.5, rng.chance(1, 2));
    if rng.chance(1, 6) {
        s.ar = Some(attr(rng));
    }
    if rng.chance(1, 6) && mode != 3 {
        s.cs = Some(attr(rng));
    }
    if rng.chance(1, 6) {
        s.hp = Some(attr(rng));
    }
    if rng.chance(1, 6) {
        s.od = Some(attr(rng));
    }
    if rng.chance(1, 8) {
        s.hardrock_offsets = Some(rng.chance(1, 2));
    }
    if rng.chance(1, 4) {
        s.lazer = Some(rng.chance(1, 2));
    }
    s
}

/// Runs `f`, turning a panic into `Err(message)`.
pub fn guarded<T>(f: impl FnOnce() -> T) -> Result<T, String> {
    panic::catch_unwind(AssertUnwindSafe(f)).map_err(|e| {
        if let Some(s) = e.downcast_ref::<&str>() {
            (*s).to_owned()
        } else if let Some(s) = e.downcast_ref::<String>() {
            s.clone()
        } else {
            "panic".to_owned()
        }
    })
}

pub fn decode(text: &str) -> Result<Beatmap, String> {
    match guarded(|| Beatmap::from_bytes(text.as_bytes())) {
        Ok(Ok(m)) => Ok(m),
        Ok(Err(e)) => Err(format!("io:{e}")),
        Err(p) => Err(format!("panic:{p}")),
    }
}

pub fn json_escape(s: &str) -> String {
    let mut o = String::with_capacity(s.len() + 2);
    for c in s.chars() {
        match c {
            '"' => o.push_str("\\\""),
            '\\' => o.push_str("\\\\"),
            '\n' => o.push_str("\\n"),
            '\r' => o.push_str("\\r"),
            '\t' => o.push_str("\\t"),
            c if (c as u32) < 0x20 => {
                let _ = write!(o, "\\u{:04x}", c as u32);
            }
            c => o.push(c),
        }
    }
    o
}

#[derive(Clone, Debug)]
pub struct Failure {
    /// what kind of check failed (`oracle:…`)
    pub kind: String,
    /// classifier for known-findings matching; empty when the failure belongs to no known class
    pub class: String,
    pub case_id: String,
    pub detail: String,
    /// everything needed to reproduce: map text, settings, operations
    pub repro: String,
}

/// Everything a property run produces.
#[derive(Default)]
pub struct Run {
    pub cases: Vec<String>,
    pub impl_lines: Vec<String>,
    /// id of the case each `cases` line belongs to (same length as `cases`)
    pub case_ids: Vec<String>,
    /// repro text per case id (kept only for lines; cheap strings)
    pub repro: BTreeMap<String, String>,
    pub failures: Vec<Failure>,
    pub evaluations: u64,
    pub nontrivial: BTreeSet<u64>,
    pub samples: Vec<String>,
    pub dist: BTreeMap<String, u64>,
    pub notes: Vec<String>,
}

pub fn hash64(s: &str) -> u64 {
    // FNV-1a
    let mut h: u64 = 0xcbf2_9ce4_8422_2325;
    for b in s.bytes() {
        h ^= u64::from(b);
        h = h.wrapping_mul(0x0000_0100_0000_01b3);
    }
    h
}

impl Run {
    pub fn count(&mut self, key: &str) {
        *self.dist.entry(key.to_owned()).or_insert(0) += 1;
    }

    pub fn count_n(&mut self, key: &str, n: u64) {
        *self.dist.entry(key.to_owned()).or_insert(0) += n;
    }

    /// Register a model/implementation correspondence line.
    pub fn line(&mut self, case_id: &str, case: String, observed: String) {
        self.cases.push(case);
        self.impl_lines.push(observed);
        self.case_ids.push(case_id.to_owned());
    }

    pub fn eval(&mut self, nontrivial_key: Option<&str>) {
        self.evaluations += 1;
        if let Some(k) = nontrivial_key {
            self.nontrivial.insert(hash64(k));
        }
    }

    pub fn sample(&mut self, s: String) {
        if self.samples.len() < 6 {
            self.samples.push(s);
        }
    }

    pub fn fail(&mut self, kind: &str, class: &str, case_id: &str, detail: String, repro: String) {
        let seen = self.dist.get(&format!("fail:{kind}:{class}")).copied().unwrap_or(0);
        if seen < 25 {
            self.failures.push(Failure {
                kind: kind.to_owned(),
                class: class.to_owned(),
                case_id: case_id.to_owned(),
                detail,
                repro,
            });
        }
        self.count(&format!("fail:{kind}:{class}"));
    }

    pub fn write(&self, dir: &Path) -> std::io::Result<()> {
        fs::create_dir_all(dir)?;
        fs::write(dir.join("cases.txt"), self.cases.join("\n") + if self.cases.is_empty() { "" } else { "\n" })?;
        fs::write(
            dir.join("impl.txt"),
            self.impl_lines.join("\n") + if self.impl_lines.is_empty() { "" } else { "\n" },
        )?;
        fs::write(dir.join("case_ids.txt"), self.case_ids.join("\n") + "\n")?;
        let mut f = String::new();
        for x in &self.failures {
            let _ = writeln!(
                f,
                "{{\"kind\":\"{}\",\"class\":\"{}\",\"case_id\":\"{}\",\"detail\":\"{}\",\"repro\":\"{}\"}}",
                json_escape(&x.kind),
                json_escape(&x.class),
                json_escape(&x.case_id),
                json_escape(&x.detail),
                json_escape(&x.repro)
            );
        }
        fs::write(dir.join("failures.jsonl"), f)?;
        let mut r = String::new();
        for (k, v) in &self.repro {
            let _ = writeln!(r, "{{\"case_id\":\"{}\",\"repro\":\"{}\"}}", json_escape(k), json_escape(v));
        }
        fs::write(dir.join("repro.jsonl"), r)?;
        let mut s = String::from("{");
        let _ = write!(s, "\"evaluations\":{},", self.evaluations);
        let _ = write!(s, "\"distinct_nontrivial\":{},", self.nontrivial.len());
        let _ = write!(s, "\"lines\":{},", self.cases.len());
        let _ = write!(s, "\"failures\":{},", self.failures.len());
        s.push_str("\"samples\":[");
        for (i, x) in self.samples.iter().enumerate() {
            if i > 0 {
                s.push(',');
            }
            let _ = write!(s, "\"{}\"", json_escape(x));
        }
        s.push_str("],\"notes\":[");
        for (i, x) in self.notes.iter().enumerate() {
            if i > 0 {
                s.push(',');
            }
            let _ = write!(s, "\"{}\"", json_escape(x));
        }
        s.push_str("],\"distribution\":{");
        for (i, (k, v)) in self.dist.iter().enumerate() {
            if i > 0 {
                s.push(',');
            }
            let _ = write!(s, "\"{}\":{}", json_escape(k), v);
        }
        s.push_str("}}");
        fs::write(dir.join("stats.json"), s)?;
        Ok(())
    }
}

pub fn resource_maps() -> Vec<(u8, String)> {
    let mut v = Vec::new();
    for (mode, name) in [(0u8, "2785319"), (1, "1028484"), (2, "2118524"), (3, "1638954")] {
        if let Ok(s) = fs::read_to_string(format!("/repo/resources/{name}.osu")) {
            v.push((mode, s));
        }
    }
    v
}

/// Keeps only the first `n` hit-object lines of a `.osu` text.
pub fn truncate_objects(text: &str, n: usize) -> String {
    let mut out = String::new();
    let mut in_objects = false;
    let mut kept = 0;
    for line in text.lines() {
        if line.trim() == "[HitObjects]" {
            in_objects = true;
            out.push_str(line);
            out.push('\n');
            continue;
        }
        if in_objects {
            if line.trim().is_empty() {
                continue;
            }
            if kept < n {
                out.push_str(line);
                out.push('\n');
                kept += 1;
            }
        } else {
            out.push_str(line);
            out.push('\n');
        }
    }
    out
}

fn fnv1a(mut h: u64, s: &str) -> u64 {
    for b in s.bytes() {
        h ^= u64::from(b);
        h = h.wrapping_mul(0x0000_0100_0000_01b3);
    }
    h
}

/// Count, order-sensitive checksum over all items, the items (first and last 24 beyond 48) — the
/// same rendering as `showLong` in Model/SliderEventsWire.lean.
pub fn show_long(l: &[String]) -> String {
    let mut h: u64 = 0xcbf2_9ce4_8422_2325;
    for s in l {
        h = fnv1a(fnv1a(h, s), ";");
    }
    let n = l.len();
    let shown: Vec<&str> = if n <= 48 {
        l.iter().map(String::as_str).collect()
    } else {
        l[..24].iter().map(String::as_str).chain(std::iter::once("...")).chain(l[n - 24..].iter().map(String::as_str)).collect()
    };
    format!("{n}#{h}#{}", if shown.is_empty() { "-".to_owned() } else { shown.join(";") })
}

/// Does rosu-map's curve of some slider of the map, computed for the given curve mode (`osu = true`:
/// `GameMode::Osu`, which runs the catmull optimisation pass; otherwise catch), contain a NaN /
/// infinite vertex or cumulative length? The narrow classifier of the known finding
/// `curve-nan-vertex` (docs/delivery-CURVE.md O2 / O3).
pub fn map_has_nonfinite_curve(map: &Beatmap, osu: bool) -> bool {
    use rosu_map::section::{
        general::GameMode as MapMode,
        hit_objects::{Curve, CurveBuffers},
    };
    use rosu_pp::model::hit_object::HitObjectKind;
    let mut bufs = CurveBuffers::default();
    map.hit_objects.iter().any(|h| match &h.kind {
        HitObjectKind::Slider(s) => {
            let c = Curve::new(if osu { MapMode::Osu } else { MapMode::Catch }, &s.control_points, s.expected_dist, &mut bufs);
            c.path().iter().any(|p| !p.x.is_finite() || !p.y.is_finite()) || c.lengths().iter().any(|l| !l.is_finite())
        }
        _ => false,
    })
}
