//! C12 — generated score states are consistent, stable and what `calculate()` uses.
//!
//! Cases are hand-made attribute structs (all public) fed to the four real builders; every case
//! is (a) sent to the Lean driver (`GS …`, exact comparison of the generated state with the
//! `Float` instance of `Model/GenState.lean`) and (b) checked against every clause directly.

use crate::{
    common::Run,
    genstate::{
        check_c12, corr_line, derived_of, describe, fp_line, observe, pick_value, request_line,
        uses_search, Case, ACCS, CATCH, MANIA, MODE_NAMES, N_FIELDS, OSU, TAIKO,
    },
    rng::Rng,
};

struct Ctx<'a> {
    run: Run,
    only: Option<&'a str>,
    counter: [u64; 4],
    /// `FP` lines still to emit per mode, and one in how many cases gets one
    fp_budget: [usize; 4],
    /// separate budget for the large random shapes (generated last)
    fp_budget_large: [usize; 4],
    fp_every: u64,
}

impl Ctx<'_> {
    fn case(&mut self, c: Case, tag: &str) {
        let mode = c.mode as usize;
        self.counter[mode] += 1;
        let id = format!("{}{}", &MODE_NAMES[mode][..1], self.counter[mode]);
        if self.only.is_some_and(|o| o != id) {
            return;
        }
        let d = derived_of(&c);
        let o = observe(&c, true);
        let run = &mut self.run;
        run.count(&format!("mode:{}", MODE_NAMES[mode]));
        run.count(&format!("gen:{tag}"));
        let n_given = c.fields.iter().filter(|f| f.is_some()).count();
        run.count(&format!("provided-fields:{}", n_given.min(6)));
        run.count(if c.acc.is_some() { "accuracy:given" } else { "accuracy:none" });
        if uses_search(&c) {
            run.count(&format!("search-arm:{}", MODE_NAMES[mode]));
        }
        if c.passed.is_some() {
            run.count("passed_objects:given");
        }
        run.count(&format!(
            "origin:lazer={} no_slider_head_acc={} cl={}",
            u8::from(d.lazer),
            u8::from(d.nsha),
            u8::from(d.cl)
        ));
        if c.worst {
            run.count("priority:worst");
        }
        let trivial = c.attrs[..[4, 1, 3, 2][mode]].iter().all(|&a| a == 0);
        let line = request_line(&c, d);
        run.eval((!trivial).then_some(line.as_str()));
        if !trivial && n_given >= 2 && c.acc.is_some() {
            run.sample(format!("{id}: {}", describe(&c, d)));
        }
        corr_line(run, &id, &c, d, &o);
        // builder inputs -> pp (Model/FullPerf.lean): hand-picked cases, every `fp_every`-th enumerated one,
        // every large random one, within the per-mode budget
        let large = tag == "random-large";
        let sampled = tag == "regression" || tag == "witness" || large || self.counter[mode] % self.fp_every == 0;
        let budget = if large { &mut self.fp_budget_large[mode] } else { &mut self.fp_budget[mode] };
        if sampled && *budget > 0 {
            *budget -= 1;
            fp_line(run, &id, &c, d, &o);
        }
        check_c12(run, &id, &c, d, &o);
    }
}

fn acc_choice(rng: &mut Rng, i: usize) -> Option<f64> {
    // i in 0..=9: none, the eight listed values, then one of NaN / +inf / a random value
    match i {
        0 => None,
        1..=8 => Some(ACCS[i - 1]),
        _ => Some(match rng.below(4) {
            0 => f64::NAN,
            1 => f64::INFINITY,
            _ => (rng.unit() * 100.0 * 8.0).round() / 8.0,
        }),
    }
}

fn origins_for(rng: &mut Rng, mode: u8) -> Vec<u8> {
    match mode {
        OSU => vec![0, 2, 3, *rng.pick(&[1u8, 4, 5, 6, 7])],
        MANIA => vec![0, 2, *rng.pick(&[1u8, 3, 4, 5, 7])],
        _ => vec![*rng.pick(&[0u8, 1, 2, 3])],
    }
}

fn passed_choice(rng: &mut Rng, n: u32) -> Option<u32> {
    if rng.chance(1, 2) {
        None
    } else {
        Some(rng.below(u64::from(n) + 2) as u32)
    }
}

/// (attrs, spinners, n used for value ranges)
fn shapes(mode: u8, big: bool) -> Vec<([u32; 4], u32)> {
    let mut v = Vec::new();
    match mode {
        OSU => {
            for no in 0..=6u32 {
                for ns in 0..=no.min(3) {
                    for nlt in 0..=(if ns == 0 { 0 } else { 2 }) {
                        v.push(([no + ns + nlt, no, ns, nlt], no));
                    }
                }
            }
        }
        TAIKO => {
            for mc in 0..=8u32 {
                v.push(([mc, 0, 0, 0], mc));
            }
        }
        CATCH => {
            for f in 0..=5u32 {
                for d in 0..=3u32 {
                    for t in 0..=4u32 {
                        v.push(([f, d, t, 0], f + d));
                    }
                }
            }
        }
        _ => {
            for no in 0..=6u32 {
                for nh in 0..=no.min(3) {
                    v.push(([no, nh, 0, 0], no + nh));
                }
            }
        }
    }
    let _ = big;
    v
}

/// Indices of the fields whose subsets are enumerated; the others are provided at random.
fn core_fields(mode: u8) -> &'static [usize] {
    match mode {
        OSU => &[4, 5, 6, 7],
        TAIKO => &[1, 2, 3],
        CATCH => &[1, 2, 3, 4, 5],
        _ => &[0, 1, 2, 3, 4, 5],
    }
}

fn aux_cap(mode: u8, attrs: &[u32; 4], idx: usize) -> u32 {
    match (mode, idx) {
        (OSU, 0) | (TAIKO, 0) => attrs[0],
        (CATCH, 0) => attrs[0] + attrs[1],
        (OSU, 1) => attrs[2] + attrs[3],
        (OSU, 2) | (OSU, 3) => attrs[2],
        _ => attrs[0],
    }
}

fn fill_aux(rng: &mut Rng, mode: u8, attrs: &[u32; 4], fields: &mut [Option<u32>]) {
    let core = core_fields(mode);
    for i in 0..fields.len() {
        if !core.contains(&i) && rng.chance(1, 3) {
            fields[i] = Some(pick_value(rng, aux_cap(mode, attrs, i)));
        }
    }
}

pub fn run(tier: &str, seed: u64, only: Option<&str>) -> Run {
    let thorough = tier == "thorough";
    let fp = if thorough { 10_000 } else { 2_000 };
    let mut cx = Ctx { run: Run::default(), only, counter: [0; 4], fp_budget: [fp; 4], fp_budget_large: [fp / 2; 4], fp_every: if thorough { 23 } else { 17 } };
    let mut rng = Rng::new(seed ^ 0xC12);

    // 0. the two defects fixed earlier (must stay fixed) and hand-picked corners
    cx.case(
        Case { mode: CATCH, attrs: [5, 3, 4, 0], spinners: 0, passed: None, origin: 1, worst: false, acc: None,
               fields: vec![Some(999_999), None, None, None, None, Some(2)] },
        "regression",
    );
    cx.case(
        Case { mode: MANIA, attrs: [10, 0, 0, 0], spinners: 0, passed: None, origin: 0, worst: false, acc: Some(90.0),
               fields: vec![None, Some(2), Some(0), Some(0), Some(0), Some(0)] },
        "regression",
    );

    // regression (fixed in 9eb418a): n_fruits + n_droplets + misses used to overflow u32 here
    // (debug panic / release wrap, state droplets = 4294967295); must now satisfy every clause
    cx.case(
        Case { mode: CATCH, attrs: [599, 1802, 0, 0], spinners: 0, passed: None, origin: 1, worst: false, acc: None,
               fields: vec![None, Some(1200), Some(u32::MAX), None, None, Some(833)] },
        "regression",
    );
    // replay of `taiko_idempotence_needs_accepted` / `osu_idempotence_needs_accepted` (NaN accuracy)
    cx.case(
        Case { mode: TAIKO, attrs: [3, 0, 0, 0], spinners: 0, passed: None, origin: 1, worst: false, acc: Some(f64::NAN),
               fields: vec![None, None, None, None] },
        "witness",
    );
    cx.case(
        Case { mode: OSU, attrs: [3, 3, 0, 0], spinners: 0, passed: None, origin: 0, worst: false, acc: Some(f64::NAN),
               fields: vec![None; 8] },
        "witness",
    );

    // replay of `mania_n50_kept_needs_accepted` (NaN accuracy: the initial `best` overwrites a provided
    // n50 with the remainder; sum clause and idempotence still hold)
    cx.case(
        Case { mode: MANIA, attrs: [3, 0, 0, 0], spinners: 0, passed: None, origin: 0, worst: false, acc: Some(f64::NAN),
               fields: vec![None, None, None, None, Some(1), None] },
        "witness",
    );

    // 1. structured enumeration: every small shape x every subset of the core fields x accuracy
    //    x priority x origin, values drawn from 0..=n+2 (edges favoured)
    let reps = if thorough { 6 } else { 2 };
    for mode in [OSU, TAIKO, CATCH, MANIA] {
        let nf = N_FIELDS[mode as usize];
        let core = core_fields(mode);
        for (attrs, n) in shapes(mode, thorough) {
            for mask in 0u32..(1 << core.len()) {
                for ai in 0..=9usize {
                    for worst in [false, true] {
                        if mode == CATCH && worst {
                            continue;
                        }
                        for origin in origins_for(&mut rng, mode) {
                            let r = if mode == TAIKO { reps * 4 } else { reps };
                            for _ in 0..r {
                                let mut fields = vec![None; nf];
                                for (b, &i) in core.iter().enumerate() {
                                    if mask >> b & 1 == 1 {
                                        let cap = if mode == CATCH {
                                            match i {
                                                1 => attrs[0],
                                                2 => attrs[1],
                                                3 | 4 => attrs[2],
                                                _ => n,
                                            }
                                        } else {
                                            n
                                        };
                                        fields[i] = Some(pick_value(&mut rng, cap));
                                    }
                                }
                                fill_aux(&mut rng, mode, &attrs, &mut fields);
                                let mut a = attrs;
                                let mut spinners = 0;
                                if mode == OSU {
                                    spinners = rng.below(2) as u32;
                                    // mostly the consistent max combo, sometimes anything
                                    if rng.chance(1, 8) {
                                        a[0] = rng.below(u64::from(a[0]) + 3) as u32;
                                    }
                                }
                                let c = Case {
                                    mode,
                                    attrs: a,
                                    spinners,
                                    passed: passed_choice(&mut rng, n),
                                    origin,
                                    worst,
                                    acc: acc_choice(&mut rng, ai),
                                    fields,
                                };
                                cx.case(c, "structured-small");
                            }
                        }
                    }
                }
            }
        }
    }

    // 2. fully exhaustive values on the tiniest shapes (every field None or 0..=n+2)
    let exh_n = if thorough { 2 } else { 1 };
    for mode in [OSU, TAIKO, CATCH, MANIA] {
        let nf = N_FIELDS[mode as usize];
        let core = core_fields(mode);
        for (attrs, n) in shapes(mode, thorough) {
            let small = match mode {
                CATCH => attrs[0] + attrs[1] <= exh_n && attrs[2] <= 1,
                TAIKO => n <= exh_n + 1,
                _ => n <= exh_n,
            };
            if !small {
                continue;
            }
            let opts = n + 4; // None, 0..=n+2
            let total = u64::from(opts).pow(core.len() as u32);
            for code in 0..total {
                let mut fields = vec![None; nf];
                let mut x = code;
                for &i in core {
                    let v = (x % u64::from(opts)) as u32;
                    x /= u64::from(opts);
                    if v > 0 {
                        fields[i] = Some(v - 1);
                    }
                }
                for ai in [0usize, 1, 3, 4, 6] {
                    for worst in [false, true] {
                        if mode == CATCH && worst {
                            continue;
                        }
                        let origin = match mode {
                            OSU => *rng.pick(&[0u8, 2, 3]),
                            MANIA => *rng.pick(&[0u8, 2]),
                            _ => 1,
                        };
                        let mut f = fields.clone();
                        fill_aux(&mut rng, mode, &attrs, &mut f);
                        let c = Case {
                            mode,
                            attrs,
                            spinners: 0,
                            passed: passed_choice(&mut rng, n),
                            origin,
                            worst,
                            acc: acc_choice(&mut rng, ai),
                            fields: f,
                        };
                        cx.case(c, "exhaustive-tiny");
                    }
                }
            }
        }
    }

    // 3. random large shapes (counts to 10^6; mania capped because its nested search is cubic)
    let n_large = if thorough { 40_000 } else { 4_000 };
    for k in 0..n_large {
        let mode = (k % 4) as u8;
        let nf = N_FIELDS[mode as usize];
        let scale = *rng.pick(&[10u64, 100, 1000, 30_000, 1_000_000]);
        let big = |rng: &mut Rng| rng.below(scale + 1) as u32;
        let (attrs, n): ([u32; 4], u32) = match mode {
            OSU => {
                let no = big(&mut rng);
                let ns = rng.below(u64::from(no) + 1) as u32;
                let nlt = if ns == 0 { 0 } else { big(&mut rng) };
                ([no + ns + nlt, no, ns, nlt], no)
            }
            TAIKO => {
                let mc = big(&mut rng);
                ([mc, 0, 0, 0], mc)
            }
            CATCH => {
                let f = big(&mut rng);
                let d = big(&mut rng);
                let t = big(&mut rng);
                ([f, d, t, 0], f + d)
            }
            _ => {
                let no = big(&mut rng).min(if thorough { 220 } else { 150 });
                let nh = rng.below(u64::from(no) + 1) as u32;
                ([no, nh, 0, 0], no + nh)
            }
        };
        let mut fields = vec![None; nf];
        for f in fields.iter_mut() {
            if rng.chance(1, 3) {
                *f = Some(match rng.below(12) {
                    0 => u32::MAX,
                    1 => 1 << 31,
                    2 => (1 << 30) - 1,
                    3 => 0,
                    4 => n,
                    5 => n / 2,
                    _ => rng.below(u64::from(n) + 3) as u32,
                });
            }
        }
        let acc = match rng.below(4) {
            0 => None,
            1 => Some(*rng.pick(&ACCS[..8])),
            _ => Some((rng.unit() * 10000.0).round() / 100.0),
        };
        let c = Case {
            mode,
            attrs,
            spinners: rng.below(2) as u32,
            passed: if rng.chance(2, 3) { None } else { Some(rng.below(u64::from(n) + 2) as u32) },
            origin: rng.below(8) as u8,
            worst: rng.chance(1, 2),
            acc,
            fields,
        };
        cx.case(c, "random-large");
    }
    cx.run
}
