//! SplitMix64: every random choice of the harness derives from one seed.

#[derive(Clone)]
pub struct Rng(pub u64);

impl Rng {
    pub fn new(seed: u64) -> Self {
        Rng(seed ^ 0x9E37_79B9_7F4A_7C15)
    }

    pub fn next(&mut self) -> u64 {
        self.0 = self.0.wrapping_add(0x9E37_79B9_7F4A_7C15);
        let mut z = self.0;
        z = (z ^ (z >> 30)).wrapping_mul(0xBF58_476D_1CE4_E5B9);
        z = (z ^ (z >> 27)).wrapping_mul(0x94D0_49BB_1331_11EB);
        z ^ (z >> 31)
    }

    /// Uniform in `0..n` (n > 0).
    pub fn below(&mut self, n: u64) -> u64 {
        self.next() % n
    }

    pub fn range(&mut self, lo: i64, hi_incl: i64) -> i64 {
        lo + self.below((hi_incl - lo + 1) as u64) as i64
    }

    pub fn chance(&mut self, num: u64, den: u64) -> bool {
        self.below(den) < num
    }

    pub fn unit(&mut self) -> f64 {
        (self.next() >> 11) as f64 / (1u64 << 53) as f64
    }

    pub fn pick<'a, T>(&mut self, xs: &'a [T]) -> &'a T {
        &xs[self.below(xs.len() as u64) as usize]
    }

    pub fn fork(&mut self) -> Rng {
        Rng(self.next())
    }
}
