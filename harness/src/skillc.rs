//! C16 — the osu!mania and osu!catch skills inside the model (`MSKILL` / `CSKILL` lines).
//!
//! For every generated (map, settings, prefix) the hook `mania::verif::skill_trace` /
//! `catch::verif::skill_trace` reports what the skill consumes (mania: `(start, end, column)` of
//! every `ManiaObject`, `total_columns`, clock rate; catch: `(x, x_offset, start_time)` of every
//! palpable object after conversion / HR offsets, `cs`, clock rate) — that is the request.  The
//! response is what the real code produces: the per-object strains (hook), the peaks returned by the
//! public `strains()` API, the difficulty value (hook), `stars` (public `calculate`), and for catch
//! the hyper-dash flags / `dist_to_hyper_dash` of every palpable object and the catcher half-width.
//! The driver runs `Model/ManiaSkill.lean` / `Model/CatchSkill.lean` with IEEE instances and must
//! print the same line, bit for bit.
//!
//! Direct oracles on the implementation: peaks and object strains finite and non-negative; catch:
//! the palpable objects (incl. hyper-dash fields) do not depend on `passed_objects` and are the
//! same on the gradual path (`catch::verif::gradual_palpables`).

use rosu_pp::{
    catch::{verif as cverif, Catch},
    mania::{verif as mverif, Mania},
    taiko::{verif as tverif, Taiko},
    verif::mods_snapshot,
    Beatmap,
};

use crate::{
    common::{decode, guarded, random_settings, resource_maps, truncate_objects, LazerTag, ModsSpec, Run, Settings},
    mapgen::{random_map, random_slider, GenCfg, MapSpec, ObjKind, ObjSpec, TimingSpec},
    rng::Rng,
    svops::{self, hex, hex_list},
};

fn show_z(f: f64) -> String {
    if f == 0.0 {
        hex(0)
    } else if f.is_nan() {
        "nan".to_owned()
    } else {
        hex(f.to_bits())
    }
}

fn bits_list(v: &[f64]) -> String {
    hex_list(&v.iter().map(|x| x.to_bits()).collect::<Vec<_>>())
}

fn hex32(x: f32) -> String {
    if x.is_nan() {
        "nan".to_owned()
    } else {
        format!("{:08x}", x.to_bits())
    }
}

fn take_str(passed: Option<usize>) -> String {
    passed.map_or("-".to_owned(), |n| n.to_string())
}

fn check_values(run: &mut Run, id: &str, what: &str, v: &[f64], repro: &str) {
    if let Some((i, x)) = v.iter().enumerate().find(|(_, x)| !x.is_finite() || **x < 0.0) {
        run.fail("oracle:skill-value-not-finite-nonnegative", "", id, format!("{what}[{i}] = {x}"), repro.to_owned());
    }
}

/// One mania case.
fn check_mania(run: &mut Run, id: &str, map: &Beatmap, settings: &Settings, passed: Option<usize>, repro: &str) {
    let mut d = settings.build(3);
    if let Some(n) = passed {
        d = d.passed_objects(n as u32);
    }
    let trace = match guarded(|| mverif::skill_trace(&d, map)) {
        Ok(Ok(t)) => t,
        Ok(Err(_)) => {
            run.count("skipped:not-convertible");
            return;
        }
        Err(e) => {
            run.fail("oracle:skill-trace-panic", "", id, e, repro.to_owned());
            return;
        }
    };
    let (strains, attrs) = match (guarded(|| d.strains_for_mode::<Mania>(map)), guarded(|| d.calculate_for_mode::<Mania>(map))) {
        (Ok(Ok(s)), Ok(Ok(a))) => (s, a),
        _ => {
            run.fail("oracle:skill-public-api-failed", "", id, "strains()/calculate() failed although the hook succeeded".to_owned(), repro.to_owned());
            return;
        }
    };
    let cols = trace.total_columns as usize;
    run.count(&format!("mskill:columns:{}", cols.min(19)));
    let n = trace.objects.len().min(passed.unwrap_or(usize::MAX));
    run.count(match n {
        0 => "mskill:objects:0",
        1 => "mskill:objects:1",
        2..=10 => "mskill:objects:2-10",
        11..=100 => "mskill:objects:11-100",
        _ => "mskill:objects:100+",
    });
    let objs = &trace.objects[..n];
    let holds = objs.iter().filter(|o| o.1 > o.0).count();
    if holds > 0 {
        run.count("mskill:has-hold");
    }
    let mut chords = 0;
    let mut overlaps = 0;
    let mut near_release = 0;
    for (i, o) in objs.iter().enumerate() {
        if i > 0 && (o.0 - objs[i - 1].0).abs() <= 1.0 {
            chords += 1;
        }
        for p in &objs[..i] {
            if p.1 > o.0 + 1.0 && o.1 > p.1 + 1.0 && o.0 > p.0 + 1.0 {
                overlaps += 1;
                if (o.1 - p.1).abs() < 60.0 {
                    near_release += 1;
                }
                break;
            }
        }
    }
    if chords > 0 {
        run.count("mskill:has-chord");
    }
    if overlaps > 0 {
        run.count("mskill:has-overlapped-hold");
    }
    if near_release > 0 {
        run.count("mskill:release-within-60ms");
    }
    if objs.iter().any(|o| o.2 >= cols) {
        run.fail("oracle:mania-column-out-of-range", "", id, format!("columns {:?} total {cols}", objs.iter().map(|o| o.2).collect::<Vec<_>>()), repro.to_owned());
    }
    check_values(run, id, "strains", &strains.strains, repro);
    check_values(run, id, "object_strains", &trace.object_strains, repro);
    let objs_s: Vec<String> = trace.objects.iter().map(|o| format!("{}:{}:{}", hex(o.0.to_bits()), hex(o.1.to_bits()), o.2)).collect();
    let req = format!(
        "MSKILL {} {} {} {}",
        hex(trace.clock_rate.to_bits()),
        cols,
        take_str(passed),
        if objs_s.is_empty() { "-".to_owned() } else { objs_s.join(";") }
    );
    let resp = format!(
        "O{} P{} D{} S{} X1",
        bits_list(&trace.object_strains),
        bits_list(&strains.strains),
        show_z(trace.difficulty_value),
        show_z(attrs.stars)
    );
    run.line(id, req, resp);
    run.count("mskill:lines");
}

/// One catch case.
fn check_catch(run: &mut Run, id: &str, map: &Beatmap, settings: &Settings, passed: Option<usize>, repro: &str) {
    let mut d = settings.build(2);
    if let Some(n) = passed {
        d = d.passed_objects(n as u32);
    }
    let trace = match guarded(|| cverif::skill_trace(&d, map)) {
        Ok(Ok(t)) => t,
        Ok(Err(_)) => {
            run.count("skipped:not-convertible");
            return;
        }
        Err(e) => {
            run.fail("oracle:skill-trace-panic", "", id, e, repro.to_owned());
            return;
        }
    };
    let (strains, attrs) = match (guarded(|| d.strains_for_mode::<Catch>(map)), guarded(|| d.calculate_for_mode::<Catch>(map))) {
        (Ok(Ok(s)), Ok(Ok(a))) => (s, a),
        _ => {
            run.fail("oracle:skill-public-api-failed", "", id, "strains()/calculate() failed although the hook succeeded".to_owned(), repro.to_owned());
            return;
        }
    };
    // (d) the hyper-dash fields are computed on the full list on both paths
    if passed.is_some() {
        let full = settings.build(2);
        match (guarded(|| cverif::skill_trace(&full, map)), guarded(|| cverif::gradual_palpables(&full, map))) {
            (Ok(Ok(f)), Ok(Ok(g))) => {
                if f.objects != trace.objects {
                    run.fail("oracle:catch-palpables-depend-on-passed-objects", "", id, "palpable objects differ between passed_objects(n) and the full map".to_owned(), repro.to_owned());
                }
                if g != f.objects {
                    run.fail("oracle:catch-gradual-palpables-differ", "", id, "palpable objects of the gradual path differ from the one-shot path".to_owned(), repro.to_owned());
                }
                run.count("cskill:prefix-palpables-compared");
            }
            _ => run.fail("oracle:skill-trace-panic", "", id, "full-map trace failed".to_owned(), repro.to_owned()),
        }
    }
    let n = trace.objects.len().min(passed.unwrap_or(usize::MAX));
    run.count(match n {
        0 => "cskill:objects:0",
        1 => "cskill:objects:1",
        2..=10 => "cskill:objects:2-10",
        11..=100 => "cskill:objects:11-100",
        _ => "cskill:objects:100+",
    });
    let objs = &trace.objects[..n];
    let hypers = objs.iter().filter(|o| o.hyper_dash).count();
    if hypers > 0 {
        run.count("cskill:has-hyperdash");
    }
    if objs.windows(2).any(|w| w[0].hyper_dash && w[1].hyper_dash) {
        run.count("cskill:hyperdash-chain");
    }
    if objs.iter().any(|o| !o.hyper_dash && o.dist_to_hyper_dash > 0.0 && o.dist_to_hyper_dash <= 20.0) {
        run.count("cskill:has-edge-dash");
    }
    if objs.iter().any(|o| o.x_offset != 0.0) {
        run.count("cskill:has-hr-offset");
    }
    if objs.windows(2).any(|w| w[0].x == w[1].x) {
        run.count("cskill:stacked-fruits");
    }
    if objs.windows(3).any(|w| (w[1].x - w[0].x) * (w[2].x - w[1].x) < 0.0) {
        run.count("cskill:direction-change");
    }
    if trace.object_strains.iter().any(|s| *s > 0.0) {
        run.count("cskill:positive-strain");
    }
    check_values(run, id, "movement", &strains.movement, repro);
    check_values(run, id, "object_strains", &trace.object_strains, repro);
    let objs_s: Vec<String> = trace
        .objects
        .iter()
        .map(|o| format!("{}:{}:{}", hex32(o.x), hex32(o.x_offset), hex(o.start_time.to_bits())))
        .collect();
    let req = format!(
        "CSKILL {} {} {} {}",
        hex(trace.clock_rate.to_bits()),
        hex32(trace.cs),
        take_str(passed),
        if objs_s.is_empty() { "-".to_owned() } else { objs_s.join(";") }
    );
    let hyper: String = trace.objects.iter().map(|o| if o.hyper_dash { '1' } else { '0' }).collect();
    let dists: Vec<String> = trace.objects.iter().map(|o| hex32(o.dist_to_hyper_dash)).collect();
    let resp = format!(
        "W{} H{} G{} O{} P{} D{} S{} X1",
        hex32(trace.half_catcher_width),
        if hyper.is_empty() { "-".to_owned() } else { hyper },
        if dists.is_empty() { "-".to_owned() } else { dists.join(";") },
        bits_list(&trace.object_strains),
        bits_list(&strains.movement),
        show_z(trace.difficulty_value),
        show_z(attrs.stars)
    );
    run.line(id, req, resp);
    run.count("cskill:lines");
}

fn opt_f(x: Option<f64>) -> String {
    x.map_or("-".to_owned(), |v| hex(v.to_bits()))
}

fn opt_n(x: Option<usize>) -> String {
    x.map_or("-".to_owned(), |v| v.to_string())
}

/// One taiko case.
fn check_taiko(run: &mut Run, id: &str, map: &Beatmap, settings: &Settings, passed: Option<usize>, repro: &str) {
    let mut d = settings.build(1);
    if let Some(n) = passed {
        d = d.passed_objects(n as u32);
    }
    let trace = match guarded(|| tverif::skill_trace(&d, map)) {
        Ok(Ok(t)) => t,
        Ok(Err(_)) => {
            run.count("skipped:not-convertible");
            return;
        }
        Err(e) => {
            run.fail("oracle:skill-trace-panic", "", id, e, repro.to_owned());
            return;
        }
    };
    let (strains, attrs) = match (guarded(|| d.strains_for_mode::<Taiko>(map)), guarded(|| d.calculate_for_mode::<Taiko>(map))) {
        (Ok(Ok(s)), Ok(Ok(a))) => (s, a),
        _ => {
            run.fail("oracle:skill-public-api-failed", "", id, "strains()/calculate() failed although the hook succeeded".to_owned(), repro.to_owned());
            return;
        }
    };
    let n = trace.n_processed.min(trace.records.len());
    run.count(match n {
        0 => "tskill:objects:0",
        1 => "tskill:objects:1",
        2..=10 => "tskill:objects:2-10",
        11..=100 => "tskill:objects:11-100",
        _ => "tskill:objects:100+",
    });
    let recs = &trace.records[..n];
    if recs.iter().any(|r| !r.is_hit) {
        run.count("tskill:has-nonhit");
    }
    if recs.iter().any(|r| r.delta_time == 0.0) {
        run.count("tskill:equal-start-times");
    }
    if recs.iter().any(|r| r.mono_index >= 5) {
        run.count("tskill:mono-run-6+");
    }
    if recs.iter().any(|r| r.rep_first.is_some_and(|i| i <= 16)) {
        run.count("tskill:repeating-pattern-found");
    }
    if recs.iter().any(|r| r.rhythm_first.as_ref().is_some_and(|g| g.interval_chain.len() >= 3)) {
        run.count("tskill:rhythm-chain-3+");
    }
    if recs.iter().any(|r| r.rhythm_first.as_ref().is_some_and(|g| !g.interval_ratio.is_normal())) {
        run.count("tskill:abnormal-interval-ratio");
    }
    if recs.iter().any(|r| r.pattern_first_ratio.is_some_and(|x| !x.is_normal())) {
        run.count("tskill:abnormal-pattern-ratio");
    }
    if recs.windows(2).any(|w| w[0].effective_bpm != w[1].effective_bpm) {
        run.count("tskill:effective-bpm-changes");
    }
    if trace.color.iter().any(|x| *x < 0.0) {
        run.count("tskill:negative-color-object-strain");
    }
    // strain_value_of < 0  <=>  the object strain falls below the decayed previous one
    let negative_eval = (1..trace.color.len().min(n)).any(|i| {
        trace.color[i] < trace.color[i - 1] * 0.8f64.powf(trace.records[i].delta_time / 1000.0) - 1e-6
    });
    if negative_eval {
        run.count("tskill:negative-color-evaluator-output");
    } else if id == "tk-negative-color-witness" {
        run.fail("oracle:color-negative-witness-not-reproduced", "", id, "the map of C16d.color_eval_nonneg_fails no longer yields a negative colour object strain".to_owned(), repro.to_owned());
    }
    if trace.single_color_stamina.iter().zip(trace.stamina.iter()).any(|(m, s)| m > s) {
        run.fail("oracle:taiko-mono-strain-exceeds-stamina", "", id, "single-colour object strain above the stamina object strain".to_owned(), repro.to_owned());
    }
    // colour may legitimately be negative (consistent ratio 3); every other value must be finite >= 0
    for (what, v) in [("rhythm", &trace.rhythm), ("reading", &trace.reading), ("stamina", &trace.stamina), ("single_color_stamina", &trace.single_color_stamina)] {
        check_values(run, id, what, v, repro);
    }
    if let Some((i, x)) = trace.color.iter().enumerate().find(|(_, x)| !x.is_finite()) {
        run.fail("oracle:skill-value-not-finite-nonnegative", "", id, format!("color[{i}] = {x}"), repro.to_owned());
    }
    for (what, v) in [("rhythm", &strains.rhythm), ("reading", &strains.reading), ("color", &strains.color), ("stamina", &strains.stamina), ("single_color_stamina", &strains.single_color_stamina)] {
        check_values(run, id, what, v, repro);
    }
    let recs_s: Vec<String> = trace
        .records
        .iter()
        .map(|r| {
            let mf = match r.mono_first {
                None => "-:-:-".to_owned(),
                Some((m, None)) => format!("{m}:-:-"),
                Some((m, Some((a, rep)))) => format!("{m}:{a}:{}", opt_n(rep)),
            };
            let af = match r.alt_first {
                None => "-:-".to_owned(),
                Some((a, rep)) => format!("{a}:{}", opt_n(rep)),
            };
            let rh = match &r.rhythm_first {
                None => "-".to_owned(),
                Some(g) => {
                    let chain: Vec<String> = g.interval_chain.iter().map(|x| x.map_or("n".to_owned(), |v| hex(v.to_bits()))).collect();
                    format!("{}:{}:{}:{}", hex(g.interval_ratio.to_bits()), g.len, opt_f(g.duration), if chain.is_empty() { "e".to_owned() } else { chain.join("/") })
                }
            };
            format!(
                "{},{},{},{},{},{},{},{},{},{},{},{},{mf},{af},{},{rh},{}",
                hex(r.start_time.to_bits()),
                hex(r.delta_time.to_bits()),
                u8::from(r.is_hit),
                hex(r.effective_bpm.to_bits()),
                hex(r.ratio.to_bits()),
                opt_f(r.prev_start),
                opt_f(r.prev2_start),
                r.mono_index,
                opt_f(r.prev_mono_start_2),
                opt_f(r.prev_mono_start_8),
                opt_f(r.prev_color_change_start),
                opt_f(r.next_color_change_start),
                opt_n(r.rep_first),
                opt_f(r.pattern_first_ratio),
            )
        })
        .collect();
    let snap = mods_snapshot(&settings.mods.build(1));
    let rx = snap.flags[5];
    let flags: String = [rx, trace.is_convert].iter().map(|b| if *b { '1' } else { '0' }).collect();
    let req = format!(
        "TSKILL {} {} {flags} {} {}",
        hex(svops::sum_identity().to_bits()),
        hex(trace.great_hit_window.to_bits()),
        trace.n_processed,
        if recs_s.is_empty() { "-".to_owned() } else { recs_s.join(";") }
    );
    let resp = format!(
        "R{} D{} C{} T{} M{} PR{} PD{} PC{} PT{} PM{} R{} D{} C{} T{} M{} S{}",
        bits_list(&trace.rhythm),
        bits_list(&trace.reading),
        bits_list(&trace.color),
        bits_list(&trace.stamina),
        bits_list(&trace.single_color_stamina),
        bits_list(&strains.rhythm),
        bits_list(&strains.reading),
        bits_list(&strains.color),
        bits_list(&strains.stamina),
        bits_list(&strains.single_color_stamina),
        show_z(attrs.rhythm),
        show_z(attrs.reading),
        show_z(attrs.color),
        show_z(attrs.stamina),
        show_z(attrs.mono_stamina_factor),
        show_z(attrs.stars)
    );
    run.line(id, req, resp);
    run.count("tskill:lines");
    // the interface check: TAIKO's preprocessing model on the real TaikoObjects, mapped through
    // `trecOfPre`, must give exactly the records the hook dumped from the real object graph
    if let Ok(Ok(pre)) = guarded(|| tverif::pre_dump(&d, map)) {
        let hn = |v: f64| if v.is_nan() { "nan".to_owned() } else { hex(v.to_bits()) };
        let on = |v: Option<f64>| v.map_or("-".to_owned(), hn);
        let objs: Vec<String> = pre.objects.iter().map(|(k, t)| format!("{}:{}", ["c", "r", "n"][usize::from((*k).min(2))], t.to_bits())).collect();
        let bpms: Vec<String> = trace.records.iter().map(|r| hex(r.effective_bpm.to_bits())).collect();
        let recs: Vec<String> = trace
            .records
            .iter()
            .map(|r| {
                let mf = match r.mono_first {
                    None => "-:-:-".to_owned(),
                    Some((m, None)) => format!("{m}:-:-"),
                    Some((m, Some((a, rep)))) => format!("{m}:{a}:{}", opt_n(rep)),
                };
                let af = match r.alt_first {
                    None => "-:-".to_owned(),
                    Some((a, rep)) => format!("{a}:{}", opt_n(rep)),
                };
                let rh = match &r.rhythm_first {
                    None => "-".to_owned(),
                    Some(g) => {
                        let chain: Vec<String> = g.interval_chain.iter().map(|x| x.map_or("n".to_owned(), hn)).collect();
                        format!("{}:{}:{}:{}", hn(g.interval_ratio), g.len, on(g.duration), if chain.is_empty() { "e".to_owned() } else { chain.join("/") })
                    }
                };
                format!(
                    "{},{},{},{},{},{},{},{},{},{},{},{},{mf},{af},{},{rh},{}",
                    hn(r.start_time),
                    hn(r.delta_time),
                    u8::from(r.is_hit),
                    hn(r.effective_bpm),
                    hn(r.ratio),
                    on(r.prev_start),
                    on(r.prev2_start),
                    r.mono_index,
                    on(r.prev_mono_start_2),
                    on(r.prev_mono_start_8),
                    on(r.prev_color_change_start),
                    on(r.next_color_change_start),
                    opt_n(r.rep_first),
                    on(r.pattern_first_ratio),
                )
            })
            .collect();
        run.line(
            &format!("{id}#trec"),
            format!(
                "TREC {} {} {}",
                pre.clock_rate.to_bits(),
                if objs.is_empty() { "-".to_owned() } else { objs.join(";") },
                if bpms.is_empty() { "-".to_owned() } else { bpms.join(";") }
            ),
            crate::common::show_long(&recs),
        );
        run.count("trec:lines");
    }
}

/// A taiko map from a colour pattern (bit i of `pattern` = rim) and a timing style.
fn taiko_pattern_map(pattern: u32, len: u32, timing: u32) -> MapSpec {
    let mut m = MapSpec { mode: 1, ..Default::default() };
    let mut t = 1000.0;
    for i in 0..len {
        let rim = pattern >> i & 1 == 1;
        m.objects.push(ObjSpec { x: 256, y: 192, time: t, sound: if rim { 8 } else { 0 }, kind: ObjKind::Circle });
        t += match timing {
            0 => 125.0,                                         // 1/4 at 120 bpm
            1 => if i % 2 == 0 { 125.0 } else { 250.0 },        // swing
            2 => [62.5, 62.5, 125.0, 250.0, 83.0][i as usize % 5], // mixed 1/8, 1/4, 1/2, 1/6
            _ => if i == 3 { 0.0 } else { 100.0 },              // two notes at the same time
        };
    }
    m
}

/// A random taiko map: streams at 1/4-1/8, mono runs, rhythm changes, SV changes, drum rolls,
/// swells, huge gaps, equal times.
fn taiko_map(rng: &mut Rng, n: usize) -> MapSpec {
    let mut m = MapSpec { mode: 1, ..Default::default() };
    m.od = *rng.pick(&[0.0, 3.0, 5.0, 7.5, 10.0]);
    m.slider_multiplier = *rng.pick(&[1.0, 1.4, 2.0, 3.2]);
    let beat = *rng.pick(&[250.0, 300.0, 333.33, 400.0, 500.0, 600.0]);
    m.timing[0].beat_len = beat;
    for k in 0..rng.below(4) {
        m.timing.push(TimingSpec {
            time: 1500.0 + 2500.0 * k as f64 + rng.range(0, 800) as f64,
            beat_len: -(*rng.pick(&[25.0, 50.0, 66.67, 100.0, 133.33, 200.0, 400.0])),
            uninherited: false,
            kiai: false,
        });
    }
    if rng.chance(1, 4) {
        m.timing.push(TimingSpec { time: rng.range(3000, 8000) as f64, beat_len: *rng.pick(&[200.0, 375.0, 750.0, 30.0, 6000.0]), uninherited: true, kiai: false });
    }
    let mut t = rng.range(-300, 1500) as f64;
    let mut rim = rng.chance(1, 2);
    let mut run_left = 0;
    let mut div = *rng.pick(&[1.0, 2.0, 4.0, 8.0]);
    let frac = rng.chance(1, 5);
    for _ in 0..n {
        if run_left == 0 {
            rim = !rim;
            run_left = *rng.pick(&[1, 1, 1, 2, 2, 3, 4, 7, 12]);
            if rng.chance(1, 3) {
                div = *rng.pick(&[1.0, 2.0, 3.0, 4.0, 6.0, 8.0]);
            }
        }
        run_left -= 1;
        let r = rng.below(24);
        let kind = if r < 21 {
            ObjKind::Circle
        } else if r < 23 {
            random_slider(rng, 256, 192, 2)
        } else {
            ObjKind::Spinner { end: t + *rng.pick(&[50.0, 400.0, 2000.0]) }
        };
        let sound = if rim { *rng.pick(&[2u8, 8, 10]) } else { *rng.pick(&[0u8, 4]) };
        m.objects.push(ObjSpec { x: 256, y: 192, time: t, sound, kind });
        let gap = match rng.below(40) {
            0 => 0.0,
            1 => *rng.pick(&[1.0, 2.0, 5.0]),
            2 => *rng.pick(&[3000.0, 20000.0, 200000.0]),
            _ => beat / div,
        };
        t += if frac { gap + 0.25 * rng.below(3) as f64 } else { gap };
    }
    m
}

/// A mania map with `keys` columns: chords, long holds overlapping several notes, releases close
/// to other releases, dense and sparse stretches.
fn mania_map(rng: &mut Rng, keys: u32, n: usize) -> MapSpec {
    let mut m = MapSpec { mode: 3, cs: keys as f32, ..Default::default() };
    m.od = rng.range(0, 10) as f32;
    let mut t = rng.range(-500, 2000) as f64;
    let dense = rng.chance(1, 3);
    let frac = rng.chance(1, 4);
    // per column: time until which it is occupied
    let mut busy = vec![f64::NEG_INFINITY; keys as usize];
    let mut recent_end: Option<f64> = None;
    for _ in 0..n {
        let col = rng.below(u64::from(keys)) as usize;
        let x = ((col as i32) * 512 + 256) / keys as i32;
        let kind = if rng.chance(2, 5) {
            // hold: sometimes ends near the end of a hold still held
            let end = match recent_end {
                Some(e) if e > t + 2.0 && rng.chance(1, 2) => e + *rng.pick(&[-45.0, -31.0, -30.0, -29.0, -10.0, -1.0, 0.0, 0.5, 1.0, 2.0, 15.0, 30.0, 31.0, 60.0]),
                _ => t + *rng.pick(&[1.0, 30.0, 100.0, 250.0, 600.0, 1500.0, 5000.0]),
            };
            let end = end.max(t);
            recent_end = Some(end);
            ObjKind::Hold { end }
        } else {
            ObjKind::Circle
        };
        if let ObjKind::Hold { end } = kind {
            busy[col] = end;
        }
        m.objects.push(ObjSpec { x, y: 192, time: t, sound: 0, kind });
        // chord (same time), 1 ms apart (still a chord for the skill), or advance
        let step = match rng.below(10) {
            0 | 1 | 2 => 0.0,
            3 => *rng.pick(&[0.5, 1.0, 1.5, 2.0]),
            _ if dense => *rng.pick(&[20.0, 45.0, 60.0, 90.0, 125.0]),
            _ => *rng.pick(&[125.0, 250.0, 333.0, 500.0, 1000.0, 3000.0, 20000.0]),
        };
        t += if frac { step + 0.25 * rng.below(4) as f64 } else { step };
    }
    let _ = busy;
    m
}

/// A catch map: fruits at chosen x positions (edge dashes, hyper-dash chains, stacks, direction
/// changes), juice streams and banana showers.
fn catch_map(rng: &mut Rng, n: usize) -> MapSpec {
    let mut m = MapSpec { mode: 2, ..Default::default() };
    m.cs = *rng.pick(&[0.0, 2.0, 3.5, 4.0, 5.0, 5.5, 6.0, 7.0, 9.0, 10.0]);
    m.ar = rng.range(0, 10) as f32;
    m.slider_multiplier = *rng.pick(&[1.0, 1.4, 2.2]);
    let mut t = rng.range(-200, 1500) as f64;
    let mut x = rng.range(0, 512) as i32;
    let style = rng.below(5);
    let frac = rng.chance(1, 4);
    for i in 0..n {
        let r = rng.below(20);
        let kind = if r < 14 {
            ObjKind::Circle
        } else if r < 18 {
            random_slider(rng, x, 192, 3)
        } else {
            ObjKind::Spinner { end: t + *rng.pick(&[1.0, 100.0, 400.0, 1500.0]) }
        };
        let dur = match &kind {
            ObjKind::Spinner { end } => end - t,
            ObjKind::Slider { slides, length, .. } => (*slides as f64) * length / (100.0 * m.slider_multiplier) * 500.0,
            _ => 0.0,
        };
        m.objects.push(ObjSpec { x, y: 192, time: t, sound: 0, kind });
        // next position
        let jump: i32 = match style {
            0 => *rng.pick(&[0, 0, 10, 30, 60, 100]),                         // stacks and small moves
            1 => *rng.pick(&[80, 120, 160, 200, 260, 320, 400, 511]),         // big jumps: hyper dashes
            2 => if i % 2 == 0 { *rng.pick(&[60, 90, 120, 150]) } else { -*rng.pick(&[60, 90, 120, 150]) }, // back and forth
            3 => rng.range(-200, 200) as i32,
            _ => *rng.pick(&[-300, -150, -40, -5, 0, 5, 40, 150, 300]),
        };
        let dir = if style == 1 && rng.chance(1, 2) { -1 } else { 1 };
        let mut nx = x + dir * jump;
        if !(0..=512).contains(&nx) {
            nx = x - dir * jump;
        }
        x = nx.clamp(0, 512);
        let gap = match style {
            1 => *rng.pick(&[20.0, 50.0, 80.0, 120.0, 180.0, 250.0, 400.0]),
            2 => *rng.pick(&[100.0, 100.0, 100.0, 150.0]),
            _ => *rng.pick(&[0.0, 1.0, 16.0, 40.0, 41.0, 90.0, 160.0, 250.0, 300.0, 500.0, 1001.0, 4000.0]),
        };
        t += dur.floor() + gap + if frac { 0.5 * rng.below(2) as f64 } else { 0.0 };
    }
    m
}

pub fn run(run: &mut Run, tier: &str, seed: u64, only: Option<&str>) {
    let thorough = tier == "thorough";
    let mut rng = Rng::new(seed ^ 0x5C11);
    // (id, mode (2 | 3), text, settings)
    let mut cases: Vec<(String, u8, String, Settings)> = Vec::new();

    // --- mania: every column count, several shapes
    let reps = if thorough { 40 } else { 4 };
    for keys in 1..=10u32 {
        for r in 0..reps {
            let n = *rng.pick(&[0usize, 1, 2, 3, 6, 12, 25, 60]);
            let spec = mania_map(&mut rng, keys, n);
            let settings = match r % 4 {
                0 => Settings::default(),
                1 => Settings { clock_rate: Some(*rng.pick(&[0.5, 0.75, 1.25, 1.5, 2.0, 1.3333, 0.9])), ..Settings::default() },
                2 => {
                    let tag = match rng.below(3) {
                        0 => LazerTag::HoldOff,
                        1 => LazerTag::Invert,
                        _ => LazerTag::RandomSeed(rng.range(0, 5000) as i32),
                    };
                    Settings { mods: ModsSpec::Lazer(vec![tag]), ..Settings::default() }
                }
                _ => random_settings(&mut rng, 3),
            };
            cases.push((format!("mk{keys}-{r}"), 3, spec.render(), settings));
        }
    }
    // --- catch
    let n_catch = if thorough { 1500 } else { 120 };
    for i in 0..n_catch {
        let n = *rng.pick(&[0usize, 1, 2, 3, 5, 9, 20, 45]);
        let spec = catch_map(&mut rng, n);
        let settings = match i % 5 {
            0 => Settings::default(),
            1 => Settings { mods: ModsSpec::Bits(16), ..Settings::default() },                          // HR: offsets + CS
            2 => Settings { mods: ModsSpec::Bits(*rng.pick(&[64, 256, 16 + 64, 2])), ..Settings::default() },
            3 => Settings { clock_rate: Some(*rng.pick(&[0.5, 0.75, 1.25, 1.5, 2.0, 1.1])), hardrock_offsets: Some(rng.chance(1, 2)), ..Settings::default() },
            _ => random_settings(&mut rng, 2),
        };
        cases.push((format!("ck-{i}"), 2, spec.render(), settings));
    }
    // --- taiko: colour patterns exhaustively, random maps
    let max_len = if thorough { 10 } else { 6 };
    for len in 1..=max_len {
        for pattern in 0..(1u32 << len) {
            for timing in 0..4u32 {
                if !thorough && timing >= 2 && pattern % 3 != 0 {
                    continue;
                }
                let settings = match (pattern + timing) % 7 {
                    0 => Settings { mods: ModsSpec::Bits(16), ..Settings::default() },
                    1 => Settings { mods: ModsSpec::Bits(64), ..Settings::default() },
                    2 => Settings { mods: ModsSpec::Bits(2), ..Settings::default() },
                    _ => Settings::default(),
                };
                cases.push((format!("tp-{len}-{pattern}-{timing}"), 1, taiko_pattern_map(pattern, len, timing).render(), settings));
            }
        }
    }
    // the Lean counter-witness `C16d.color_eval_nonneg_fails` on the real code: alternating 100 / 300 ms
    // gaps give a consistent rhythm ratio of 3, for which `consistent_ratio_penalty` is -0.2
    {
        let mut m = MapSpec { mode: 1, ..Default::default() };
        let mut t = 1000.0;
        for i in 0..14 {
            m.objects.push(ObjSpec { x: 256, y: 192, time: t, sound: if i % 3 == 0 { 8 } else { 0 }, kind: ObjKind::Circle });
            t += if i % 2 == 0 { 100.0 } else { 300.0 };
        }
        cases.push(("tk-negative-color-witness".to_owned(), 1, m.render(), Settings::default()));
    }
    let n_taiko = if thorough { 1500 } else { 150 };
    for i in 0..n_taiko {
        let n = *rng.pick(&[0usize, 1, 2, 3, 4, 8, 16, 40, 90]);
        let spec = taiko_map(&mut rng, n);
        let settings = match i % 6 {
            0 => Settings::default(),
            1 => Settings { mods: ModsSpec::Bits(*rng.pick(&[16, 2, 16 + 64, 2 + 256, 128])), ..Settings::default() },
            2 => Settings { clock_rate: Some(*rng.pick(&[0.5, 0.75, 1.25, 1.5, 2.0, 1.17])), ..Settings::default() },
            3 => Settings { od: Some((*rng.pick(&[0.0, 4.0, 8.0, 10.0, 11.0]), rng.chance(1, 2))), ..Settings::default() },
            _ => random_settings(&mut rng, 1),
        };
        cases.push((format!("tk-{i}"), 1, spec.render(), settings));
    }
    // --- osu! maps converted to both modes, generic random maps
    let n_conv = if thorough { 1500 } else { 120 };
    for i in 0..n_conv {
        let target = [2u8, 3, 1][i % 3];
        let native = rng.chance(1, 3);
        let mut cfg = GenCfg::small(if native { target } else { 0 });
        cfg.max_objects = *rng.pick(&[3, 8, 20, 50]);
        cfg.allow_negative_start = rng.chance(1, 4);
        cfg.long_gaps = rng.chance(1, 3);
        cfg.dense = rng.chance(1, 6);
        let spec = random_map(&mut rng, &cfg);
        let settings = if rng.chance(1, 3) { Settings::default() } else { random_settings(&mut rng, target) };
        cases.push((format!("rnd-{i}-{}{}", ["", "taiko", "catch", "mania"][target as usize], if native { "" } else { "-conv" }), target, spec.render(), settings));
    }
    // --- resource maps (native and osu! converted), truncated and full
    for (mode, text) in resource_maps() {
        for target in [1u8, 2u8, 3u8] {
            if mode != target && mode != 0 {
                continue;
            }
            let ks: &[usize] = if thorough { &[60, 300, usize::MAX] } else { &[150, usize::MAX] };
            for &k in ks {
                let text_k = if k == usize::MAX { text.clone() } else { truncate_objects(&text, k) };
                let n_set = if thorough { 4 } else { 2 };
                for s in 0..n_set {
                    let settings = if s == 0 { Settings::default() } else { random_settings(&mut rng, target) };
                    cases.push((format!("res-{mode}-to-{target}-first{k}-s{s}"), target, text_k.clone(), settings));
                }
            }
        }
    }

    for (id, mode, text, settings) in cases {
        if only.is_some_and(|o| o != id && !o.starts_with(&format!("{id}#"))) {
            continue;
        }
        let map = match decode(&text) {
            Ok(m) => m,
            Err(e) => {
                run.fail("oracle:prepare", "", &id, e, text.clone());
                continue;
            }
        };
        let repro = format!("mode={mode} settings={} map=<<\n{}>>", settings.describe(), if text.len() > 20000 { "(resource map)".to_owned() } else { text.clone() });
        run.repro.insert(id.clone(), repro.clone());
        let n = map.hit_objects.len();
        run.eval((n >= 2).then_some(format!("skill|{mode}|{}|{}", settings.describe(), hex(crate::common::hash64(&text))).as_str()));
        if settings.clock_rate.is_some() {
            run.count("skill:custom-clock-rate");
        }
        let mut prefixes: Vec<Option<usize>> = vec![None];
        if n <= 400 || thorough {
            for p in [0usize, 1, 2, 3, n / 2, n.saturating_sub(1), n + 1] {
                if !prefixes.contains(&Some(p)) {
                    prefixes.push(Some(p));
                }
            }
        } else {
            prefixes.push(Some(n / 3));
        }
        for p in prefixes {
            let cid = match p {
                None => id.clone(),
                Some(p) => format!("{id}#p{p}"),
            };
            let rp = match p {
                None => repro.clone(),
                Some(p) => format!("passed_objects={p} {repro}"),
            };
            if mode == 3 {
                check_mania(run, &cid, &map, &settings, p, &rp);
            } else if mode == 1 {
                check_taiko(run, &cid, &map, &settings, p, &rp);
            } else {
                check_catch(run, &cid, &map, &settings, p, &rp);
            }
        }
    }
}
