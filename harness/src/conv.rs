//! C14 / C09 — `convert_objects` of osu! (and catch, see `run_catch`) against
//! `lean/RosuModel/Model/ConvOsu.lean` / `ConvCatch.lean`: OCONV / LTT / CCONV lines.
use rosu_pp::{model::mode::GameMode, osu::verif as ov, Beatmap};

use crate::{
    common::{decode, guarded, hash64, random_settings, resource_maps, truncate_objects, Run, Settings},
    mapgen::{random_map, GenCfg, ObjKind},
    rng::Rng,
};

fn h32(x: f32) -> String {
    format!("{:x}", x.to_bits())
}

fn h64(x: f64) -> String {
    format!("{:x}", x.to_bits())
}

fn raw_str(o: &ov::ConvObject) -> String {
    match o.kind {
        0 => format!("c:{}:{}:{}", h32(o.pos.x), h32(o.pos.y), h64(o.start_time)),
        2 => format!("p:{}:{}:{}:{}", h32(o.pos.x), h32(o.pos.y), h64(o.start_time), h64(o.duration)),
        _ => {
            let ns = if o.nested.is_empty() {
                "-".to_owned()
            } else {
                o.nested.iter().map(|n| format!("{},{},{},{}", n.kind, h32(n.pos.x), h32(n.pos.y), h64(n.start_time))).collect::<Vec<_>>().join("/")
            };
            format!(
                "s:{}:{}:{}:{}:{}:{}:{}:{ns}",
                h32(o.pos.x),
                h32(o.pos.y),
                h64(o.start_time),
                h64(o.end_time),
                h32(o.lazy_end_pos.x),
                h32(o.lazy_end_pos.y),
                h64(o.lazy_travel_time)
            )
        }
    }
}

fn out_str(o: &ov::ConvObject) -> String {
    let base = format!("{}:{}:{}:{}:{}", h32(o.pos.x), h32(o.pos.y), o.stack_height, h32(o.stack_offset.x), h32(o.stack_offset.y));
    if o.kind != 1 {
        return base;
    }
    let ns = if o.nested.is_empty() { "-".to_owned() } else { o.nested.iter().map(|n| format!("{},{}", h32(n.pos.x), h32(n.pos.y))).collect::<Vec<_>>().join("/") };
    format!("{base}:{}:{}:{}:{}:{ns}", h32(o.lazy_end_pos.x), h32(o.lazy_end_pos.y), h32(o.lazy_travel_dist), h64(o.lazy_travel_time))
}

/// One OCONV line + oracles for a decoded osu! map and settings.
fn osu_case(run: &mut Run, id: &str, map: &Beatmap, settings: &Settings, passed: Option<u32>, repro: &str) {
    let mut d = settings.build(0);
    if let Some(k) = passed {
        d = d.passed_objects(k);
    }
    let (m2, d2) = (map.clone(), d.clone());
    let p = match guarded(move || ov::conv_probe(&d2, &m2)) {
        Ok(p) => p,
        Err(e) => {
            run.fail("oracle:osu-conv-probe-panic", "", id, e, repro.to_owned());
            return;
        }
    };
    let n = map.hit_objects.len();
    // structure: all objects are converted, in input order, kind-preserving (hold -> spinner)
    if p.raw.len() != n || p.out.len() != n {
        run.fail("oracle:osu-convert-length", "", id, format!("{} decoded, {} raw, {} converted", n, p.raw.len(), p.out.len()), repro.to_owned());
        return;
    }
    for (i, h) in map.hit_objects.iter().enumerate() {
        let want = if h.is_circle() {
            0
        } else if h.is_slider() {
            1
        } else {
            2
        };
        if p.raw[i].kind != want || p.out[i].kind != want || p.raw[i].start_time.to_bits() != h.start_time.to_bits() || p.out[i].start_time.to_bits() != h.start_time.to_bits() {
            run.fail("oracle:osu-convert-kind-order", "", id, format!("object {i}: decoded {:?} -> raw kind {} / converted kind {}", h.kind, p.raw[i].kind, p.out[i].kind), repro.to_owned());
        }
        if h.is_hold_note() {
            run.count("oconv:hold->spinner");
        }
        // ranges (C09 clause): lazy travel values are finite and non-negative
        let o = &p.out[i];
        if !(o.lazy_travel_dist >= 0.0 && o.lazy_travel_dist.is_finite()) || (o.kind == 1 && !(o.lazy_travel_time >= 0.0)) {
            if o.end_time >= o.start_time {
                run.fail("oracle:osu-lazy-travel-range", "", id, format!("object {i}: lazy_travel_dist {} lazy_travel_time {}", o.lazy_travel_dist, o.lazy_travel_time), repro.to_owned());
            } else {
                run.count("oconv:note:slider-ends-before-start");
            }
        }
        if o.kind == 1 {
            run.count(&format!("oconv:nested:{}", o.nested.len().min(9)));
            if p.raw[i].nested.iter().map(|n| n.start_time.to_bits()).ne(o.nested.iter().map(|n| n.start_time.to_bits())) {
                run.fail("oracle:osu-convert-nested-order", "", id, format!("object {i}: nested times changed"), repro.to_owned());
            }
        }
        if o.stack_height != 0 {
            run.count(&format!("oconv:stack-height:{}", o.stack_height.clamp(-3, 3)));
        }
    }
    if !(p.scale > 0.0 && p.radius > 0.0 && p.time_preempt > 0.0) {
        run.count("oconv:note:non-positive-scale-or-preempt");
    }
    run.count(&format!("oconv:reflection:{}", p.reflection));
    run.count(&format!("oconv:version:{}", if map.version >= 6 { ">=6" } else { "<6" }));
    run.count(&format!("oconv:take:{}", if p.take >= n { ">=len" } else if p.take == 0 { "0" } else { "<len" }));
    run.count("oconv:lines");
    run.repro.insert(id.to_owned(), repro.to_owned());
    let objs = if p.raw.is_empty() { "-".to_owned() } else { p.raw.iter().map(raw_str).collect::<Vec<_>>().join(";") };
    let outs = if p.out.is_empty() { "-".to_owned() } else { p.out.iter().map(out_str).collect::<Vec<_>>().join(";") };
    run.line(
        id,
        format!(
            "OCONV {} {} {} {} {} {} {} {objs}",
            p.reflection,
            map.version,
            p.take,
            h64(p.cs),
            h64(p.ar_window),
            h64(p.clock_rate),
            h64(f64::from(map.stack_leniency))
        ),
        format!(
            "{} {} {} {}|{},{},{},{},{}|{outs}",
            h32(p.scale),
            h64(p.radius),
            h32(p.factor),
            h64(p.time_preempt),
            p.counts[0],
            p.counts[1],
            p.counts[2],
            p.counts[3],
            p.counts[4]
        ),
    );
    run.eval((n > 0).then_some(id));
}

pub fn run_osu(run: &mut Run, tier: &str, seed: u64, only: Option<&str>) {
    let thorough = tier == "thorough";
    let n = if thorough { 30_000 } else { 2_500 };
    for ci in 0..n {
        let id = format!("oconv-{ci}");
        if only.is_some_and(|o| o != id) {
            continue;
        }
        let mut rng = Rng::new(seed ^ hash64(&id));
        let mut cfg = GenCfg::small(0);
        cfg.max_objects = *rng.pick(&[3, 6, 10, 16]);
        cfg.weights = *rng.pick(&[[10, 6, 2, 1], [4, 10, 1, 1], [10, 2, 1, 0]]);
        cfg.max_slides = *rng.pick(&[1, 3, 6]);
        cfg.dense = rng.chance(1, 2);
        let mut spec = random_map(&mut rng, &cfg);
        spec.version = *rng.pick(&[14, 14, 128, 9, 7, 5, 4, 3]);
        // stacked patterns: snap the objects (and some slider end points) to a few anchors, close in time
        if rng.chance(2, 3) && !spec.objects.is_empty() {
            let anchors: Vec<(i32, i32)> = (0..1 + rng.below(3)).map(|_| (rng.range(40, 470) as i32, rng.range(40, 340) as i32)).collect();
            let step = *rng.pick(&[40.0, 90.0, 150.0, 400.0]);
            let t0 = spec.objects[0].time;
            for (k, o) in spec.objects.iter_mut().enumerate() {
                let a = *rng.pick(&anchors);
                let jitter = if rng.chance(1, 3) { rng.range(-2, 2) as i32 } else { 0 };
                o.x = a.0 + jitter;
                o.y = a.1;
                o.time = t0 + step * k as f64;
                if let ObjKind::Slider { points, .. } = &mut o.kind {
                    if rng.chance(1, 2) {
                        if let Some(last) = points.last_mut() {
                            *last = *rng.pick(&anchors);
                        }
                    }
                }
                if let ObjKind::Spinner { end } | ObjKind::Hold { end } = &mut o.kind {
                    *end = o.time + 30.0;
                }
            }
        }
        let text = spec.render();
        let Ok(map) = decode(&text) else {
            run.count("oconv:skipped:decode");
            continue;
        };
        let settings = if rng.chance(1, 4) { Settings::default() } else { random_settings(&mut rng, 0) };
        let passed = match rng.below(4) {
            0 => None,
            1 => Some(0),
            _ => Some(rng.below(map.hit_objects.len() as u64 + 2) as u32),
        };
        let repro = format!("{text}\n# settings: {} passed_objects: {passed:?}", settings.describe());
        osu_case(run, &id, &map, &settings, passed, &repro);
        // `lazy_travel_time` on its own: synthetic nested lists (tick after the tracking end, equal times)
        if ci % 4 == 0 {
            let start = rng.range(-100, 100_000) as f64;
            let dur = *rng.pick(&[0.0, 10.0, 36.0, 72.0, 73.0, 200.0, 1000.0]) + if rng.chance(1, 3) { 0.5 } else { 0.0 };
            let k = rng.below(6) as usize;
            let mut times: Vec<(u8, f64)> = (0..k).map(|_| (*rng.pick(&[0u8, 1, 2, 2]), start + dur * (rng.below(9) as f64) / 8.0)).collect();
            times.sort_by(|a, b| a.1.total_cmp(&b.1));
            let ns = if times.is_empty() { "-".to_owned() } else { times.iter().map(|(kd, t)| format!("{kd},0,0,{}", h64(*t))).collect::<Vec<_>>().join("/") };
            let t2 = times.clone();
            if let Ok((ltt, order)) = guarded(move || ov::lazy_travel_time_probe(start, dur, &t2)) {
                run.count("oconv:LTT lines");
                if order.iter().enumerate().any(|(i, j)| i != *j) {
                    run.count("oconv:LTT rotated");
                }
                run.line(
                    &format!("{id}/ltt"),
                    format!("LTT {} {} {ns}", h64(start), h64(dur)),
                    format!("{} {}", h64(ltt), if order.is_empty() { "-".to_owned() } else { order.iter().map(|j| j.to_string()).collect::<Vec<_>>().join(",") }),
                );
            }
        }
    }
    // the ranked osu! resource map (truncated), all reflections
    for (i, (mode, text)) in resource_maps().into_iter().enumerate() {
        if mode != 0 {
            continue;
        }
        for (k, n_obj) in [60usize, 300].into_iter().enumerate() {
            let id = format!("oconv-res-{i}-{k}");
            if only.is_some_and(|o| !o.starts_with(&id)) {
                continue;
            }
            let Ok(map) = decode(&truncate_objects(&text, n_obj)) else { continue };
            for (j, bits) in [0u32, 16, 2, 64 | 16, 1 << 30].into_iter().enumerate() {
                let settings = Settings { mods: crate::common::ModsSpec::Bits(bits), ..Settings::default() };
                osu_case(run, &format!("{id}-{j}"), &map, &settings, None, &format!("resource osu! map truncated to {n_obj} objects, mods bits {bits}"));
            }
        }
    }
    let _ = GameMode::Osu;
}

fn palp_str(l: &[(f32, f32, f64)]) -> String {
    if l.is_empty() {
        "-".to_owned()
    } else {
        l.iter().map(|(x, o, t)| format!("{},{},{}", h32(*x), h32(*o), h64(*t))).collect::<Vec<_>>().join("/")
    }
}

/// One CCONV line + oracles: the per-object loop of catch `convert_objects` (positions, hard-rock
/// offsets, PRNG state after every object) and its sorted output.
fn catch_case(run: &mut Run, id: &str, map: &Beatmap, hr: bool, reflect: bool, repro: &str) {
    use rosu_pp::catch::verif as cv;
    let m2 = map.clone();
    let Ok(steps) = guarded(move || cv::convert_steps(&m2, hr)) else {
        run.fail("oracle:catch-convert-steps-panic", "", id, "panic".into(), repro.to_owned());
        return;
    };
    let m3 = map.clone();
    let Ok(real) = guarded(move || cv::converted(&m3, reflect, hr, 4.0)) else {
        run.fail("oracle:catch-convert-panic", "", id, "panic".into(), repro.to_owned());
        return;
    };
    // the copy of the loop in the hook and the real convert_objects agree (multiset of palpables)
    let mut a: Vec<(u32, u32, u64)> = steps
        .iter()
        .flat_map(|s| s.palpables.iter())
        .map(|(x, o, t)| if reflect { ((512.0 - x).to_bits(), (-o).to_bits(), t.to_bits()) } else { (x.to_bits(), o.to_bits(), t.to_bits()) })
        .collect();
    let mut b: Vec<(u32, u32, u64)> = real.iter().map(|(x, o, t)| (x.to_bits(), o.to_bits(), t.to_bits())).collect();
    a.sort_unstable();
    b.sort_unstable();
    if a != b {
        run.fail("oracle:catch-convert-steps-differ", "", id, format!("{} step palpables vs {} real", a.len(), b.len()), repro.to_owned());
        return;
    }
    if steps.len() != map.hit_objects.len() {
        run.fail("oracle:catch-convert-steps-differ", "", id, "one step per hit object expected".into(), repro.to_owned());
    }
    let mut decoded_in_range = true;
    for (s, h) in steps.iter().zip(map.hit_objects.iter()) {
        let want = if h.is_circle() {
            0
        } else if h.is_slider() {
            1
        } else {
            2
        };
        if s.kind != want {
            run.fail("oracle:catch-convert-kind", "", id, format!("{:?} became kind {}", h.kind, s.kind), repro.to_owned());
        }
        decoded_in_range &= (0.0..=512.0).contains(&s.x);
        run.count(&format!("cconv:kind:{}", s.kind));
        if s.kind == 0 && s.palpables.iter().any(|p| p.1 != 0.0) {
            run.count("cconv:fruit-with-hr-offset");
        }
    }
    // C09 clause: after the hard-rock offsets every FRUIT's x + x_offset lies in [0, 512] when its decoded x
    // does (juice-stream positions follow the slider path and may leave the playfield; `effective_x` clamps)
    for s in steps.iter().filter(|s| s.kind == 0) {
        for (x, o, _) in &s.palpables {
            let ex = x + o;
            if (0.0..=512.0).contains(x) && !(0.0..=512.0).contains(&ex) {
                run.fail("oracle:catch-hr-offset-range", "", id, format!("x {x} + offset {o} = {ex}"), repro.to_owned());
            }
        }
    }
    let _ = &real;
    if !decoded_in_range {
        run.count("cconv:decoded-x-outside-[0,512]");
    }
    run.count(&format!("cconv:hr={hr}:reflect={reflect}"));
    run.count("cconv:lines");
    let objs: Vec<String> = steps
        .iter()
        .map(|s| match s.kind {
            0 => format!("f:{}:{}", h32(s.x), h64(s.start_time)),
            1 => format!(
                "s:{}:{}:{}:{}",
                h32(s.x),
                h64(s.start_time),
                h32(s.last_control_x),
                if s.nested.is_empty() { "-".to_owned() } else { s.nested.iter().map(|(k, x, t)| format!("{k},{},{}", h32(*x), h64(*t))).collect::<Vec<_>>().join("/") }
            ),
            _ => format!("b:{}", s.n_bananas),
        })
        .collect();
    let outs: Vec<String> = steps
        .iter()
        .map(|s| {
            format!(
                "{}@{}@{}@{}:{}:{}:{}:{}:{}",
                palp_str(&s.palpables),
                s.last_pos.map_or("n".to_owned(), h32),
                h64(s.last_start_time),
                s.rng[0],
                s.rng[1],
                s.rng[2],
                s.rng[3],
                s.bit_buf,
                s.bit_idx
            )
        })
        .collect();
    run.repro.insert(id.to_owned(), repro.to_owned());
    run.line(
        id,
        format!("CCONV {} {} {}", u8::from(hr), u8::from(reflect), if objs.is_empty() { "-".to_owned() } else { objs.join(";") }),
        format!("{}|{}", if outs.is_empty() { "-".to_owned() } else { outs.join(";") }, palp_str(&real)),
    );
    run.eval((!steps.is_empty()).then_some(id));
}

pub fn run_catch(run: &mut Run, tier: &str, seed: u64, only: Option<&str>) {
    let thorough = tier == "thorough";
    let n = if thorough { 30_000 } else { 2_500 };
    for ci in 0..n {
        let id = format!("cconv-{ci}");
        if only.is_some_and(|o| o != id) {
            continue;
        }
        let mut rng = Rng::new(seed ^ hash64(&id));
        let mut cfg = GenCfg::small(if rng.chance(1, 2) { 2 } else { 0 });
        cfg.max_objects = *rng.pick(&[4, 8, 14, 24]);
        cfg.weights = *rng.pick(&[[10, 3, 2, 1], [10, 0, 0, 0], [6, 6, 3, 0]]);
        cfg.long_gaps = rng.chance(1, 3);
        let mut spec = random_map(&mut rng, &cfg);
        // hard-rock offset branches: equal-x runs, small steps, > 1000 ms gaps, x at 0 and 512
        if !spec.objects.is_empty() {
            let t0 = spec.objects[0].time;
            let mut t = t0;
            let mut x = *rng.pick(&[0, 1, 100, 256, 511, 512]);
            for o in spec.objects.iter_mut() {
                t += *rng.pick(&[3.0, 40.0, 120.0, 400.0, 999.0, 1000.0, 1001.0, 1500.0]);
                match rng.below(6) {
                    0 | 1 => {}
                    2 => x += rng.range(-30, 30) as i32,
                    3 => x = *rng.pick(&[0, 512, 256]),
                    4 => x = rng.range(0, 512) as i32,
                    _ => x = rng.range(-40, 560) as i32,
                }
                if !rng.chance(1, 12) {
                    x = x.clamp(0, 512);
                }
                o.x = x;
                let dt = t - o.time;
                if let ObjKind::Spinner { end } | ObjKind::Hold { end } = &mut o.kind {
                    *end += dt;
                }
                o.time = t;
            }
        }
        let text = spec.render();
        let Ok(map) = decode(&text) else {
            run.count("cconv:skipped:decode");
            continue;
        };
        let map = if map.mode == GameMode::Catch {
            map
        } else {
            match map.convert(GameMode::Catch, &rosu_pp::GameMods::from(0u32)) {
                Ok(m) => m,
                Err(_) => continue,
            }
        };
        let hr = !rng.chance(1, 4);
        let reflect = rng.chance(1, 5);
        catch_case(run, &id, &map, hr, reflect, &format!("{text}\n# hardrock_offsets={hr} mirror={reflect}"));
    }
    for (i, (mode, text)) in resource_maps().into_iter().enumerate() {
        if mode != 0 && mode != 2 {
            continue;
        }
        let id = format!("cconv-res-{i}");
        if only.is_some_and(|o| !o.starts_with(&id)) {
            continue;
        }
        let Ok(map) = decode(&truncate_objects(&text, 400)) else { continue };
        let map = if map.mode == GameMode::Catch { map } else { match map.convert(GameMode::Catch, &rosu_pp::GameMods::from(0u32)) { Ok(m) => m, Err(_) => continue } };
        for (j, (hr, rf)) in [(true, false), (false, false), (true, true)].into_iter().enumerate() {
            catch_case(run, &format!("{id}-{j}"), &map, hr, rf, &format!("resource map {i} truncated to 400 objects, hardrock_offsets={hr} mirror={rf}"));
        }
    }
}
