#!/bin/sh
# MANIFEST.setup_cmd: build the framework offline from files on disk only.
set -e
cd "$(dirname "$0")"
export CARGO_NET_OFFLINE=true
mkdir -p build evidence replays
if [ -f tools/translate.py ]; then python3 tools/translate.py; fi
(cd lean && lake build RosuModel driver)
(cd harness && cargo build --offline --release --target-dir "$(pwd)/../build/target")
echo "setup ok"
