#!/bin/sh
# MANIFEST.setup_cmd: build the framework offline from files on disk only.
set -e
cd "$(dirname "$0")"
export CARGO_NET_OFFLINE=true
mkdir -p build evidence replays
if [ -f tools/translate.py ]; then python3 tools/translate.py; fi
(cd lean && lake build RosuModel driver)
(cd harness && cargo build --offline --release --target-dir "$(pwd)/../build/target")
# feature builds used by C10 / C20 (separate target dirs, as tools/checklib.py names them)
for feats in raw_strains sync raw_strains,sync; do
  tag=$(echo "$feats" | tr ',' '-')
  (cd harness && cargo build --offline --release --features "$feats" --target-dir "$(pwd)/../build/target-$tag") || exit 1
done
echo "setup ok"
