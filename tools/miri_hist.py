#!/usr/bin/env python3
"""C11 (thorough tier): run harness/src/bin/miri_hist.rs scenario by scenario under Miri with
Tree Borrows and with Stacked Borrows, in parallel, and write one failure record per scenario
that Miri rejects to <log_dir>/miri-failures.jsonl (picked up by ./check via `extra_cmds`).

Every rejection has class "" (unlisted → VIOLATION): the two former classes miri-stacked-borrows-osu-gradual /
miri-tree-borrows-osu-gradual-by-value are fixed in /repo (OsuGradualDifficulty owns its objects through a raw
pointer), so Miri must accept every scenario under both aliasing models.
usage: miri_hist.py <log_dir> [scenario ...]"""
import json
import os
import subprocess
import sys
from concurrent.futures import ThreadPoolExecutor

VERIF = os.path.dirname(os.path.dirname(os.path.abspath(__file__)))
HARNESS = os.path.join(VERIF, "harness")
TARGET = os.path.join(VERIF, "build", "target-miri")
MODES = ["osu", "taiko", "catch", "mania"]
SCENARIOS = ["sv", "decode", "osu-perf-box", "mania-perf-box", "osu-thread", "catch-thread", "mania-thread"] + \
    [f"{m}-{k}" for m in MODES for k in ("box", "vec", "closure", "byvalue")]
MODELS = {"tree-borrows": "-Zmiri-tree-borrows -Zmiri-deterministic-floats", "stacked-borrows": "-Zmiri-deterministic-floats"}


def classify(model, scenario, text):
    return ""


def cmd(scenario):
    return ["cargo", "+nightly", "miri", "run", "--offline", "--bin", "miri_hist", "--target-dir", TARGET, "--", scenario]


def run(model, scenario):
    env = dict(os.environ)
    env["MIRIFLAGS"] = MODELS[model]
    env["CARGO_NET_OFFLINE"] = "true"
    try:
        p = subprocess.run(cmd(scenario), cwd=HARNESS, env=env, capture_output=True, text=True, timeout=900)
        rc, text = p.returncode, p.stdout + p.stderr
    except Exception as e:  # timeout
        rc, text = 124, f"{e}"
    return model, scenario, rc, text


def main():
    log_dir = sys.argv[1]
    scenarios = sys.argv[2:] or SCENARIOS
    os.makedirs(log_dir, exist_ok=True)
    # warm the build once so the parallel runs do not all compile
    first = run("tree-borrows", "sv")
    if "miri_hist ok" not in first[3] and "Undefined Behavior" not in first[3]:
        print("Miri unavailable or the history program does not build:\n" + first[3][-1500:])
        return 2
    jobs = [(m, s) for m in MODELS for s in scenarios]
    with ThreadPoolExecutor(max_workers=min(8, os.cpu_count() or 2)) as ex:
        results = list(ex.map(lambda j: run(*j), jobs))
    failures = []
    summary = {}
    for model, scenario, rc, text in results:
        ok = rc == 0 and "miri_hist ok" in text
        summary[f"{model}:{scenario}"] = "ok" if ok else "rejected"
        if not ok:
            diag = [l for l in text.splitlines() if "Undefined Behavior" in l or "panicked" in l or "error:" in l][:3]
            failures.append({
                "kind": "oracle:miri", "class": classify(model, scenario, text),
                "case_id": f"miri:{model}:{scenario}",
                "detail": (" | ".join(diag) or text[-400:])[:700],
                "repro": f"cd {HARNESS} && MIRIFLAGS='{MODELS[model]}' " + " ".join(cmd(scenario)),
            })
    with open(os.path.join(log_dir, "miri-failures.jsonl"), "w") as f:
        for x in failures:
            f.write(json.dumps(x) + "\n")
    json.dump(summary, open(os.path.join(log_dir, "miri-summary.json"), "w"), indent=1)
    n_ok = sum(1 for v in summary.values() if v == "ok")
    print(f"miri: {n_ok}/{len(summary)} (model, scenario) runs accepted; rejected: " +
          ", ".join(k for k, v in summary.items() if v != "ok"))
    return 0


if __name__ == "__main__":
    sys.exit(main())
