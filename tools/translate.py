#!/usr/bin/env python3
"""Regenerates lean/RosuModel/Gen/*.lean from /repo's current source text.

Every `tools/translate_*.py` module with a `generate(repo, out_dir)` function is run; each writes
one or more Gen files. A generator must never skip a shape it does not understand silently: it
emits an `unknown` marker (or raises, which fails the check) so that the corresponding Lean
obligation breaks.
"""
import glob
import importlib.util
import os
import sys

HERE = os.path.dirname(os.path.abspath(__file__))
VERIF = os.path.dirname(HERE)
REPO = os.environ.get("VERIF_REPO", "/repo")
OUT = os.path.join(VERIF, "lean", "RosuModel", "Gen")


def write_if_changed(path, text):
    """Avoid touching files whose content is unchanged (keeps lake builds incremental)."""
    if os.path.exists(path) and open(path).read() == text:
        return False
    os.makedirs(os.path.dirname(path), exist_ok=True)
    with open(path, "w") as f:
        f.write(text)
    return True


def lean_str(s):
    return '"' + s.replace("\\", "\\\\").replace('"', '\\"').replace("\n", "\\n") + '"'


def strip_rust_comments(src):
    """Remove // and /* */ comments (string literals are left alone; good enough for this code base)."""
    out = []
    i = 0
    n = len(src)
    while i < n:
        if src.startswith("//", i):
            j = src.find("\n", i)
            i = n if j < 0 else j
        elif src.startswith("/*", i):
            j = src.find("*/", i + 2)
            i = n if j < 0 else j + 2
        elif src[i] == '"':
            j = i + 1
            while j < n and src[j] != '"':
                j += 2 if src[j] == "\\" else 1
            out.append(src[i:j + 1])
            i = j + 1
        else:
            out.append(src[i])
            i += 1
    return "".join(out)


def strip_test_modules(src):
    """Drop `#[cfg(test)] mod … { … }` blocks."""
    out = []
    i = 0
    while True:
        j = src.find("#[cfg(test)]", i)
        if j < 0:
            out.append(src[i:])
            break
        k = src.find("{", j)
        semi = src.find(";", j)
        if k < 0 or (0 <= semi < k):
            # attribute on a single item without body
            out.append(src[i:j])
            i = (semi + 1) if semi >= 0 else len(src)
            continue
        depth = 0
        p = k
        while p < len(src):
            if src[p] == "{":
                depth += 1
            elif src[p] == "}":
                depth -= 1
                if depth == 0:
                    break
            p += 1
        out.append(src[i:j])
        i = p + 1
    return "".join(out)


def block_after(src, start):
    """Text of the `{…}` block that starts at or after `start`; returns (body, end_index)."""
    k = src.find("{", start)
    if k < 0:
        return "", len(src)
    depth = 0
    p = k
    while p < len(src):
        if src[p] == "{":
            depth += 1
        elif src[p] == "}":
            depth -= 1
            if depth == 0:
                return src[k + 1:p], p + 1
        p += 1
    return src[k + 1:], len(src)


def read_src(rel):
    return strip_test_modules(strip_rust_comments(open(os.path.join(REPO, rel)).read()))


def main():
    rc = 0
    for path in sorted(glob.glob(os.path.join(HERE, "translate_*.py"))):
        name = os.path.basename(path)[:-3]
        spec = importlib.util.spec_from_file_location(name, path)
        mod = importlib.util.module_from_spec(spec)
        try:
            spec.loader.exec_module(mod)
            mod.generate(REPO, OUT)
        except Exception as e:  # a generator that cannot parse must fail loudly
            print(f"translator {name} failed: {e!r}", file=sys.stderr)
            rc = 1
    # scripts under tools/translate.d/ are stand-alone: `script REPO OUT`
    import subprocess
    for script in sorted(glob.glob(os.path.join(HERE, "translate.d", "*.py"))):
        if os.path.basename(script).startswith("_"):
            continue
        p = subprocess.run([sys.executable, script, REPO, OUT], capture_output=True, text=True)
        sys.stderr.write(p.stderr)
        if p.returncode != 0:
            print(f"translator {os.path.basename(script)} failed ({p.returncode})", file=sys.stderr)
            rc = 1
    return rc


if __name__ == "__main__":
    sys.exit(main())
