#!/usr/bin/env python3
"""Translator plugin (T) for C08 and C17: run by tools/translate.py through `generate(repo, out_dir)`.

  src/model/mods.rs (+ src/{osu,taiko,catch,mania}/**)  ->  Gen/Mods.lean        (C08)
  src/model/beatmap/attributes.rs                       ->  Gen/AttrConsts.lean  (C17, C08)

Each `gen_*` function is independent and writes exactly one Gen/*.lean file.  The extractors are
line/brace level and understand a few very regular shapes only.  Whenever a shape is not
understood the generated file says so (`shapeOk := false` plus the list `unknownShapes`), and
the property theorem `…shape_ok` in Props/ fails: an unknown rewrite breaks the proof obligation
instead of being skipped.

"""
import os
import re
import sys

VERIF = os.path.dirname(os.path.dirname(os.path.abspath(__file__)))
REPO = os.environ.get("VERIF_REPO", "/repo")
GEN = os.path.join(VERIF, "lean", "RosuModel", "Gen")


# ---------------------------------------------------------------- helpers


def read(rel):
    with open(os.path.join(REPO, rel)) as f:
        return f.read()


def strip_comments(src):
    """Removes // line comments (incl. doc comments) and /* */ blocks; keeps string literals."""
    out = []
    i = 0
    n = len(src)
    while i < n:
        c = src[i]
        if c == '"':
            j = i + 1
            while j < n and src[j] != '"':
                j += 2 if src[j] == "\\" else 1
            out.append(src[i:j + 1])
            i = j + 1
        elif src.startswith("//", i):
            j = src.find("\n", i)
            i = n if j < 0 else j
        elif src.startswith("/*", i):
            j = src.find("*/", i + 2)
            i = n if j < 0 else j + 2
        else:
            out.append(c)
            i += 1
    return "".join(out)


def balanced(src, start, open_ch="{", close_ch="}"):
    """src[start] must be open_ch; returns the index just after the matching close_ch."""
    assert src[start] == open_ch, (src[start:start + 20], open_ch)
    depth = 0
    i = start
    while i < len(src):
        if src[i] == open_ch:
            depth += 1
        elif src[i] == close_ch:
            depth -= 1
            if depth == 0:
                return i + 1
        i += 1
    raise ValueError("unbalanced")


def fn_body(src, name):
    """Body text (between the outermost braces) of `fn <name>(`; None when absent."""
    m = re.search(r"\bfn\s+" + re.escape(name) + r"\s*\(", src)
    if not m:
        return None
    i = src.find("{", m.end())
    # skip the parameter list / return type: first `{` after the signature's closing paren
    j = balanced(src, src.find("(", m.start()), "(", ")")
    i = src.find("{", j)
    return src[i + 1:balanced(src, i) - 1]


def norm(s):
    return re.sub(r"\s+", " ", s).strip()


def lstr(s):
    return '"' + s.replace("\\", "\\\\").replace('"', '\\"') + '"'


def llist(items):
    return "[" + ", ".join(items) + "]"


def write_if_changed(path, text):
    os.makedirs(os.path.dirname(path), exist_ok=True)
    if os.path.exists(path) and open(path).read() == text:
        return
    with open(path, "w") as f:
        f.write(text)


def match_arms(body):
    """Splits the text of a `match x { … }` body (without the braces) into (pattern, expr)."""
    arms = []
    i = 0
    n = len(body)
    while i < n:
        while i < n and body[i] in " \n\t,":
            i += 1
        if i >= n:
            break
        j = body.find("=>", i)
        if j < 0:
            arms.append((norm(body[i:]), None))
            break
        pat = norm(body[i:j])
        k = j + 2
        while k < n and body[k] in " \n\t":
            k += 1
        if k < n and body[k] == "{":
            e = balanced(body, k)
            expr = body[k:e]
            # a block may be followed by a method chain only in shapes we do not accept
            i = e
        else:
            depth = 0
            e = k
            while e < n:
                ch = body[e]
                if ch in "({[":
                    depth += 1
                elif ch in ")}]":
                    depth -= 1
                elif ch == "," and depth == 0:
                    break
                e += 1
            expr = body[k:e]
            i = e
        arms.append((pat, norm(expr)))
    return arms


def top_match(body, scrutinee="self"):
    """Finds `match <scrutinee> {` at the start of an expression and returns its arms."""
    m = re.search(r"\bmatch\s+" + re.escape(scrutinee) + r"\s*\{", body)
    if not m:
        return None
    i = body.find("{", m.start())
    return match_arms(body[i + 1:balanced(body, i) - 1])


def if_chain(expr):
    """`if C1 { E1 } else if C2 { E2 } … else { En }` → ([(C1,E1),…], En) or None."""
    s = expr.strip()
    if s.startswith("{") and balanced(s, 0) == len(s):
        s = s[1:-1].strip()
    out = []
    while True:
        m = re.match(r"if\s+(.*?)\s*\{", s, re.S)
        if not m:
            return None
        i = m.end() - 1
        e = balanced(s, i)
        out.append((norm(m.group(1)), norm(s[i + 1:e - 1])))
        rest = s[e:].strip()
        if not rest.startswith("else"):
            return None
        rest = rest[4:].strip()
        if rest.startswith("if"):
            s = rest
            continue
        if rest.startswith("{") and balanced(rest, 0) == len(rest):
            return out, norm(rest[1:-1])
        return None


# ---------------------------------------------------------------- Gen/Mods.lean (C08)


def macro_invocation(src, name):
    """Text between the braces of the *invocation* `name! { … }` (not the macro_rules body)."""
    for m in re.finditer(re.escape(name) + r"!\s*\{", src):
        # skip `macro_rules! name {`
        before = src[max(0, m.start() - 20):m.start()]
        if "macro_rules!" in before:
            continue
        i = src.find("{", m.start())
        return src[i + 1:balanced(src, i) - 1]
    return None


def gen_mods():
    unknown = []
    src = strip_comments(read("src/model/mods.rs"))

    # impl_has_mod! rows:   nf: + NoFail ["NoFail"],
    rows = []
    inv = macro_invocation(src, "impl_has_mod")
    if inv is None:
        unknown.append("impl_has_mod! invocation not found")
    else:
        for part in [p for p in (norm(x) for x in inv.split("],")) if p]:
            m = re.fullmatch(r"(\w+)\s*:\s*([+-])\s*(\w+)\s*\[\s*\"(\w+)\"", part)
            if not m:
                unknown.append("impl_has_mod row: " + part)
                continue
            rows.append((m.group(1), m.group(2) == "+", m.group(3)))
    # the macro body itself: three fixed arms
    mr = re.search(r"macro_rules!\s*impl_has_mod\s*\{", src)
    if mr:
        i = src.find("{", mr.start())
        body = norm(src[i:balanced(src, i)])
        for needle in [
            "Self::Lazer(ref mods) => { mods.contains_intermode(GameModIntermode::$name) }",
            "Self::Intermode(ref mods) => { mods.contains(GameModIntermode::$name) }",
            "Self::Legacy(_mods) => { impl_has_mod!(LEGACY $is_legacy $name _mods) }",
            "( LEGACY + $name:ident $mods:ident ) => { $mods.contains(GameModsLegacy::$name) };",
            "( LEGACY - $name:ident $mods:ident ) => { false };",
        ]:
            if needle not in body:
                unknown.append("impl_has_mod macro body lacks: " + needle)
    else:
        unknown.append("macro_rules! impl_has_mod not found")

    # impl_map_attr! rows:   ar: approach_rate [Osu, Catch] ["ar"];
    attr_rows = []
    inv = macro_invocation(src, "impl_map_attr")
    if inv is None:
        unknown.append("impl_map_attr! invocation not found")
    else:
        for part in [p for p in (norm(x) for x in inv.split(";")) if p]:
            m = re.fullmatch(r"(\w+)\s*:\s*(\w+)\s*\[([\w\s,]*)\]\s*\[\s*\"(\w+)\"\s*\]", part)
            if not m:
                unknown.append("impl_map_attr row: " + part)
                continue
            attr_rows.append((m.group(1), m.group(2), [x.strip() for x in m.group(3).split(",") if x.strip()]))
    mr = re.search(r"macro_rules!\s*impl_map_attr\s*\{", src)
    if mr:
        i = src.find("{", mr.start())
        body = norm(src[i:balanced(src, i)])
        for needle in [
            "Self::Lazer(ref mods) => mods.iter().find_map(|gamemod| match gamemod { $( impl_map_attr!( @ $mode $field) => *$field, )* _ => None, }),",
            "Self::Intermode(_) | Self::Legacy(_) => None,",
        ]:
            if needle not in body:
                unknown.append("impl_map_attr macro body lacks: " + needle)
    else:
        unknown.append("macro_rules! impl_map_attr not found")

    # mania_keys: three if-chains
    keys = {"Lazer": [], "Intermode": [], "Legacy": []}
    body = fn_body(src, "mania_keys")
    arms = top_match(body) if body else None
    if not arms:
        unknown.append("mania_keys: no `match self`")
    else:
        shapes = {
            "Lazer": (r"Self::Lazer\(ref mods\)", r"mods\.contains_intermode\(GameModIntermode::(\w+)\)"),
            "Intermode": (r"Self::Intermode\(ref mods\)", r"mods\.contains\(GameModIntermode::(\w+)\)"),
            "Legacy": (r"Self::Legacy\(ref mods\)", r"mods\.contains\(GameModsLegacy::(\w+)\)"),
        }
        seen = set()
        for pat, expr in arms:
            rep = next((k for k, (p, _) in shapes.items() if re.fullmatch(p, pat)), None)
            if rep is None or expr is None:
                unknown.append("mania_keys arm: " + pat)
                continue
            seen.add(rep)
            ch = if_chain(expr)
            if ch is None or ch[1] != "None":
                unknown.append(f"mania_keys {rep}: not an if-chain ending in None")
                continue
            for cond, val in ch[0]:
                mc = re.fullmatch(shapes[rep][1], cond)
                mv = re.fullmatch(r"Some\(([\d.]+)\)", val)
                if not mc or not mv:
                    unknown.append(f"mania_keys {rep}: `{cond}` => `{val}`")
                    continue
                keys[rep].append((mc.group(1), mv.group(1)))
        for k in shapes:
            if k not in seen:
                unknown.append("mania_keys: no arm for " + k)

    # clock_rate
    lazer_arms = []
    clock_im = clock_legacy = "?"
    clock_fallback = "?"
    body = fn_body(src, "clock_rate")
    arms = top_match(body) if body else None
    if not arms:
        unknown.append("clock_rate: no `match self`")
    else:
        for pat, expr in arms:
            if pat == "Self::Intermode(ref mods)":
                m = re.fullmatch(r"mods\.(\w+)\(\)", expr or "")
                clock_im = m.group(1) if m else "?"
                if not m:
                    unknown.append("clock_rate Intermode: " + str(expr))
            elif pat == "Self::Legacy(mods)":
                m = re.fullmatch(r"mods\.(\w+)\(\)", expr or "")
                clock_legacy = m.group(1) if m else "?"
                if not m:
                    unknown.append("clock_rate Legacy: " + str(expr))
            elif pat == "Self::Lazer(ref mods)":
                e = norm(expr or "")
                m = re.fullmatch(
                    r"mods \.iter\(\) \.find_map\(\|m\| \{ let default = match m\.intermode\(\) \{(.*)\}; "
                    r"Some\(default \* \(m\.clock_rate\(\)\? / default\)\) \}\) \.unwrap_or\(([\d.]+)\)",
                    e,
                )
                if not m:
                    unknown.append("clock_rate Lazer: " + e)
                    continue
                clock_fallback = m.group(2)
                for p2, e2 in match_arms(m.group(1)):
                    names = [x.strip() for x in p2.split("|")]
                    e2n = norm(e2 or "")
                    if p2 == "_":
                        if e2n != "return None":
                            unknown.append("clock_rate Lazer default arm: " + e2n)
                        continue
                    ok = all(re.fullmatch(r"GameModIntermode::\w+", x) for x in names)
                    names = [x.split("::")[1] for x in names if "::" in x]
                    if ok and e2n in ("{ return m.clock_rate() }", "return m.clock_rate()"):
                        lazer_arms.append((names, "direct"))
                    elif ok and re.fullmatch(r"[\d.]+", e2n):
                        lazer_arms.append((names, "scaled:" + e2n))
                    else:
                        unknown.append(f"clock_rate Lazer arm: {p2} => {e2n}")
            else:
                unknown.append("clock_rate arm: " + pat)

    # od_ar_hp_multiplier: if self.hr() { 1.4 } else if self.ez() { 0.5 } else { 1.0 }
    mult_chain, mult_else = [], "?"
    body = fn_body(src, "od_ar_hp_multiplier")
    ch = if_chain(body) if body else None
    if not ch:
        unknown.append("od_ar_hp_multiplier: not an if-chain")
    else:
        mult_else = ch[1]
        for cond, val in ch[0]:
            m = re.fullmatch(r"self\.(\w+)\(\)", cond)
            if not m or not re.fullmatch(r"[\d.]+", val):
                unknown.append(f"od_ar_hp_multiplier: `{cond}` => `{val}`")
                continue
            mult_chain.append((m.group(1), val))
        if not re.fullmatch(r"[\d.]+", mult_else):
            unknown.append("od_ar_hp_multiplier else: " + mult_else)

    # reflection: Intermode / Legacy arms (the Lazer arm is hand-modelled, checked by correspondence)
    refl = {"Intermode": ([], "?"), "Legacy": ([], "?")}
    body = fn_body(src, "reflection")
    arms = top_match(body) if body else None
    if not arms:
        unknown.append("reflection: no `match self`")
    else:
        for pat, expr in arms:
            if pat == "Self::Lazer(ref mods)":
                continue
            rep = {"Self::Intermode(ref mods)": "Intermode", "Self::Legacy(mods)": "Legacy"}.get(pat)
            if rep is None:
                unknown.append("reflection arm: " + pat)
                continue
            ch = if_chain(expr or "")
            if not ch:
                unknown.append(f"reflection {rep}: not an if-chain")
                continue
            rows_r = []
            for cond, val in ch[0]:
                m = re.fullmatch(r"mods\.contains\((?:GameModIntermode|GameModsLegacy)::(\w+)\)", cond)
                v = re.fullmatch(r"Reflection::(\w+)", val)
                if not m or not v:
                    unknown.append(f"reflection {rep}: `{cond}` => `{val}`")
                    continue
                rows_r.append((m.group(1), v.group(1)))
            v = re.fullmatch(r"Reflection::(\w+)", ch[1])
            refl[rep] = (rows_r, v.group(1) if v else "?")
            if not v:
                unknown.append(f"reflection {rep} else: {ch[1]}")

    # which flag accessors each mode's code consumes (src/<mode>/**, outside verif.rs)
    uses = []
    fnames = [r[0] for r in rows] + ["mania_keys"]
    for mode in ["osu", "taiko", "catch", "mania"]:
        found = set()
        for root, _, files in os.walk(os.path.join(REPO, "src", mode)):
            for f in files:
                if not f.endswith(".rs") or f == "verif.rs":
                    continue
                text = strip_comments(open(os.path.join(root, f)).read())
                for fn in fnames:
                    if re.search(r"mods(?:\(\))?\s*\.\s*" + fn + r"\(\)", text):
                        found.add(fn)
        uses += [(mode, fn) for fn in sorted(found)]

    # names known to the hand-written enumerations of Model/ModNames.lean
    names_src = open(os.path.join(VERIF, "lean", "RosuModel", "Model", "ModNames.lean")).read()

    def ctors(ind):
        m = re.search(r"inductive " + ind + r"\b(.*?)deriving", names_src, re.S)
        return set(re.findall(r"\|\s*(\w+)", m.group(1))) if m else set()

    imods, lnames = ctors("IMod"), ctors("LName")

    def imod(n):
        if n in imods and n != "Unknown":
            return ".{}".format(n)
        unknown.append("GameModIntermode name not in ModNames.lean: " + n)
        return ".Unknown"

    def lname(n):
        if n in lnames:
            return ".{}".format(n)
        unknown.append("GameModsLegacy name not in ModNames.lean: " + n)
        return ".NoMod"

    def lit(s):
        r = rat_lit(s)
        if r is None or not re.fullmatch(r"\d+\.\d+", s):
            unknown.append("literal: " + s)
            return '{ q := 0, f := 0.0, s := "?" }'
        return "{ q := %s, f := %s, s := %s }" % (r, s, lstr(s))

    fn_index = {r[0]: i for i, r in enumerate(rows)}

    def fidx(fn, where):
        if fn in fn_index:
            return str(fn_index[fn])
        unknown.append(f"{where}: accessor `{fn}` is not an impl_has_mod row")
        return "0"

    mode_ctor = {"Osu": ".osu", "Taiko": ".taiko", "Catch": ".catch", "Mania": ".mania",
                 "osu": ".osu", "taiko": ".taiko", "catch": ".catch", "mania": ".mania"}

    def mode(n):
        if n in mode_ctor:
            return mode_ctor[n]
        unknown.append("mode: " + n)
        return ".osu"

    refl_ctor = {"None": ".none", "Vertical": ".vertical", "Horizontal": ".horizontal", "Both": ".both"}

    def reflv(n):
        if n in refl_ctor:
            return refl_ctor[n]
        unknown.append("Reflection variant: " + n)
        return ".none"

    attr_fields = {"ar": "approach_rate", "cs": "circle_size", "hp": "drain_rate", "od": "overall_difficulty"}
    for fn, field, _ in attr_rows:
        if attr_fields.get(fn) != field:
            unknown.append(f"impl_map_attr row {fn}: unexpected field {field}")
    for fn in attr_fields:
        if fn not in [r[0] for r in attr_rows]:
            unknown.append("impl_map_attr row missing: " + fn)

    def arm(kind):
        if kind == "direct":
            return ".direct"
        return ".scaled " + lit(kind.split(":", 1)[1])

    out = []
    out.append("import RosuModel.Model.ModNames\n")
    out.append("/- GENERATED by tools/translate.py from src/model/mods.rs (and src/{osu,taiko,catch,mania}/**) — do not edit. -/")
    out.append("namespace Rosu.Gen.Mods")
    out.append("open Rosu.Mods\n")
    out.append("/-- `impl_has_mod!` rows: (fn, `GameModIntermode::$name`, `Some(GameModsLegacy::$name)` for `+` rows). -/")
    out.append("def hasModRows : List (String × IMod × Option LName) := " + llist(
        [f"({lstr(a)}, {imod(c)}, {('some ' + lname(c)) if b else 'none'})" for a, b, c in rows]) + "\n")
    out.append("/-- rows of the accessors the attribute builder calls by name -/")
    out.append("def rowHr : Nat := " + fidx("hr", "hr()"))
    out.append("def rowEz : Nat := " + fidx("ez", "ez()") + "\n")
    out.append("/-- `impl_map_attr!` rows: (fn, modes whose DifficultyAdjust has the field). -/")
    out.append("def mapAttrRows : List (String × List Mode) := " + llist(
        [f"({lstr(a)}, {llist([mode(x) for x in c])})" for a, _, c in attr_rows]))
    for fn in ["ar", "cs", "hp", "od"]:
        ms = next((c for a, _, c in attr_rows if a == fn), [])
        out.append(f"def {fn}Modes : List Mode := " + llist([mode(x) for x in ms]))
    out.append("")
    out.append("/-- `mania_keys` if-chains: (mod tested, literal returned), in source order. -/")
    out.append("def maniaKeysLazer : List (IMod × Lit) := " + llist([f"({imod(a)}, {lit(b)})" for a, b in keys["Lazer"]]))
    out.append("def maniaKeysIntermode : List (IMod × Lit) := " + llist([f"({imod(a)}, {lit(b)})" for a, b in keys["Intermode"]]))
    out.append("def maniaKeysLegacy : List (LName × Lit) := " + llist([f"({lname(a)}, {lit(b)})" for a, b in keys["Legacy"]]) + "\n")
    out.append("/-- `clock_rate`, Lazer arm: per `m.intermode()` kind the closure's arm; kinds not listed: `return None`. -/")
    out.append("def clockLazerArms : List (IMod × RateArm) := " + llist(
        [f"({imod(x)}, {arm(k)})" for n, k in lazer_arms for x in n]))
    out.append("def clockLazerFallback : Lit := " + lit(clock_fallback))
    out.append("/-- methods of rosu-mods the other two arms delegate to (`true` = the expected one) -/")
    out.append("def clockIntermodeIsLegacyClockRate : Bool := " + ("true" if clock_im == "legacy_clock_rate" else "false"))
    out.append("def clockLegacyIsClockRate : Bool := " + ("true" if clock_legacy == "clock_rate" else "false") + "\n")
    if clock_im != "legacy_clock_rate":
        unknown.append("clock_rate Intermode delegates to " + clock_im)
    if clock_legacy != "clock_rate":
        unknown.append("clock_rate Legacy delegates to " + clock_legacy)
    out.append("/-- `od_ar_hp_multiplier`: (index of the flag accessor in `hasModRows`, literal) chain and the else literal -/")
    out.append("def multChain : List (Nat × Lit) := " + llist([f"({fidx(a, 'od_ar_hp_multiplier')}, {lit(b)})" for a, b in mult_chain]))
    out.append("def multElse : Lit := " + lit(mult_else) + "\n")
    out.append("/-- `reflection`, Intermode and Legacy arms: (mod, Reflection variant) chain + else -/")
    out.append("def reflIntermode : List (IMod × Reflection) := " + llist([f"({imod(a)}, {reflv(b)})" for a, b in refl["Intermode"][0]]))
    out.append("def reflIntermodeElse : Reflection := " + reflv(refl["Intermode"][1]))
    out.append("def reflLegacy : List (LName × Reflection) := " + llist([f"({lname(a)}, {reflv(b)})" for a, b in refl["Legacy"][0]]))
    out.append("def reflLegacyElse : Reflection := " + reflv(refl["Legacy"][1]) + "\n")
    out.append("/-- (mode directory, index into `hasModRows`) for every flag accessor called on mods under src/<mode>/ -/")
    out.append("def flagUses : List (Mode × Nat) := " + llist(
        [f"({mode(m)}, {fidx(fn, 'flagUses')})" for m, fn in uses if fn != "mania_keys"]))
    out.append("/-- mode directories whose code calls `mania_keys()` -/")
    out.append("def maniaKeysUses : List Mode := " + llist([mode(m) for m, fn in uses if fn == "mania_keys"]) + "\n")
    out.append("/-- shapes the translator did not understand (must be empty) -/")
    out.append("def unknownShapes : List String := " + llist([lstr(u) for u in unknown]))
    out.append("def shapeOk : Bool := " + ("true" if not unknown else "false"))
    out.append("\nend Rosu.Gen.Mods\n")
    write_if_changed(os.path.join(GEN, "Mods.lean"), "\n".join(out))
    return unknown


# ---------------------------------------------------------------- Gen/AttrConsts.lean (C17)


def rat_lit(s):
    """Decimal literal → Lean `Rat` term."""
    s = s.strip()
    m = re.fullmatch(r"(-?)(\d+)(?:\.(\d+))?(?:_?f(?:32|64))?", s)
    if not m:
        return None
    sign, ip, fp = m.group(1), m.group(2), m.group(3) or ""
    fp = fp.rstrip("0")
    num = int(ip + fp)
    den = 10 ** len(fp)
    return f"({sign}{num} / {den} : Rat)" if den != 1 else f"({sign}{num} : Rat)"


def gen_attr_consts():
    unknown = []
    src = strip_comments(read("src/model/beatmap/attributes.rs"))
    consts = {}
    for m in re.finditer(
            r"const\s+(\w+)\s*:\s*GameModeHitWindows\s*=\s*GameModeHitWindows\s*\{\s*min:\s*([\d.]+),\s*avg:\s*([\d.]+),\s*max:\s*([\d.]+),?\s*\}",
            src):
        consts[m.group(1)] = (m.group(2), m.group(3), m.group(4))
    wanted = ["OSU_GREAT", "OSU_OK", "OSU_MEH", "TAIKO_GREAT", "TAIKO_OK", "AR_WINDOWS"]
    for w in wanted:
        if w not in consts:
            unknown.append("constant not found: " + w)
            consts[w] = ("0", "0", "0")
    for k in consts:
        if k not in wanted:
            unknown.append("unexpected GameModeHitWindows constant: " + k)

    # the literal-bearing expressions of hit_windows()/build(), as normalised text → named literals
    hw = fn_body(src, "hit_windows") or ""
    bd = fn_body(src, "build") or ""
    hwn, bdn = norm(hw), norm(bd)
    lits = {}

    def grab(name, text, pattern):
        m = re.search(pattern, text)
        if not m:
            unknown.append(f"{name}: pattern not found")
            lits[name] = "0"
        else:
            lits[name] = m.group(1)

    grab("hrMult", hwn, r"if mods\.hr\(\) \{ \(val \* ([\d.]+)\)\.min\([\d.]+\) \}")
    grab("hrCap", hwn, r"if mods\.hr\(\) \{ \(val \* [\d.]+\)\.min\(([\d.]+)\) \}")
    grab("ezMult", hwn, r"else if mods\.ez\(\) \{ val \* ([\d.]+) \}")
    grab("maniaBase", hwn, r"if !self\.is_convert \{ ([\d.]+) \+ [\d.]+ \* \([\d.]+ - self\.od\.value\(mods, GameMods::od\)\)\.clamp\(0\.0, 10\.0\)")
    grab("maniaSlope", hwn, r"if !self\.is_convert \{ [\d.]+ \+ ([\d.]+) \* \(")
    grab("maniaTen", hwn, r"if !self\.is_convert \{ [\d.]+ \+ [\d.]+ \* \(([\d.]+) - self\.od")
    grab("maniaConvThreshold", hwn, r"\.round_ties_even\(\) > ([\d.]+) \{")
    grab("maniaConvHard", hwn, r"\.round_ties_even\(\) > [\d.]+ \{ ([\d.]+) \}")
    grab("maniaConvEasy", hwn, r"\.round_ties_even\(\) > [\d.]+ \{ [\d.]+ \} else \{ ([\d.]+) \}")
    grab("maniaHrDiv", hwn, r"if mods\.hr\(\) \{ value /= ([\d.]+); \}")
    grab("maniaEzMult", hwn, r"else if mods\.ez\(\) \{ value \*= ([\d.]+); \}")
    grab("hpCap", bdn, r"hp = hp\.min\(([\d.]+)\);")
    grab("csHrMult", bdn, r"cs = \(cs \* ([\d.]+)\)\.min\([\d.]+\);")
    grab("csHrCap", bdn, r"cs = \(cs \* [\d.]+\)\.min\(([\d.]+)\);")
    grab("csEzMult", bdn, r"else if mods\.ez\(\) \{ cs \*= ([\d.]+); \}")
    # inverse functions in build(): exact text
    for needle, what in [
        ("let ar = if ar > 1200.0 { (1800.0 - ar) / 120.0 } else { (1200.0 - ar) / 150.0 + 5.0 };", "AR inverse"),
        ("GameMode::Osu => Self::osu_great_hit_window_to_od(od_great),", "osu OD inverse call"),
        ("GameMode::Taiko => { (TAIKO_GREAT.min - od_great) / (TAIKO_GREAT.min - TAIKO_GREAT.avg) * 5.0 }", "taiko OD inverse"),
        ("GameMode::Catch | GameMode::Mania => f64::from(self.od.value(mods, GameMods::od)),", "catch/mania OD"),
        ("if !self.hp.with_mods() { hp *= mods.od_ar_hp_multiplier() as f32; }", "hp multiplier"),
        ("let hit_windows = self.hit_windows();", "build calls hit_windows"),
    ]:
        if needle not in bdn:
            unknown.append("build(): expected text missing: " + what)
    inv = norm(fn_body(src, "osu_great_hit_window_to_od") or "")
    if inv != "(OSU_GREAT.min - hit_window) / 6.0":
        unknown.append("osu_great_hit_window_to_od: " + inv)
    dr = norm(fn_body(src, "difficulty_range") or "")
    want_dr = ("let GameModeHitWindows { min, avg: mid, max } = windows; if difficulty > 5.0 { mid + (max - mid) * (difficulty - 5.0) / 5.0 } "
               "else if difficulty < 5.0 { mid - (mid - min) * (5.0 - difficulty) / 5.0 } else { mid }")
    if dr != want_dr:
        unknown.append("difficulty_range: " + dr)
    if "let great = ((f64::from(value) * od_clock_rate).floor() / od_clock_rate).ceil();" not in hwn:
        unknown.append("mania great formula")
    for needle, what in [
        ("let ar_clock_rate = if self.ar.with_mods() { 1.0 } else { clock_rate };", "ar_clock_rate"),
        ("let od_clock_rate = if self.od.with_mods() { 1.0 } else { clock_rate };", "od_clock_rate"),
        ("let clock_rate = self.clock_rate.unwrap_or_else(|| mods.clock_rate());", "clock_rate fallback"),
        ("let preempt = difficulty_range(f64::from(raw_ar), AR_WINDOWS) / ar_clock_rate;", "preempt"),
    ]:
        if needle not in hwn:
            unknown.append("hit_windows(): expected text missing: " + what)

    out = []
    out.append("/- GENERATED by tools/translate.py from src/model/beatmap/attributes.rs — do not edit. -/")
    out.append("namespace Rosu.Gen.AttrConsts\n")
    out.append("/-- `GameModeHitWindows` constants as (min, avg, max) -/")
    for w in wanted:
        a, b, c = (rat_lit(x) or "(0 : Rat)" for x in consts[w])
        out.append(f"def {w} : Rat × Rat × Rat := ({a}, {b}, {c})")
    out.append("")
    for k, v in lits.items():
        r = rat_lit(v)
        if r is None:
            unknown.append(f"literal {k}: {v}")
            r = "(0 : Rat)"
        out.append(f"def {k} : Rat := {r}")
    out.append("\n/-- shapes the translator did not understand (must be empty) -/")
    out.append("def unknownShapes : List String := " + llist([lstr(u) for u in unknown]))
    out.append("def shapeOk : Bool := " + ("true" if not unknown else "false"))
    out.append("\nend Rosu.Gen.AttrConsts\n")
    write_if_changed(os.path.join(GEN, "AttrConsts.lean"), "\n".join(out))
    return unknown


GENERATORS = [gen_mods, gen_attr_consts]


def generate(repo, out_dir):
    """Entry point used by tools/translate.py."""
    global REPO, GEN, VERIF
    REPO, GEN = repo, out_dir
    VERIF = os.path.dirname(os.path.dirname(os.path.dirname(os.path.abspath(out_dir))))
    for g in GENERATORS:
        u = g()
        if u:
            print(f"translate: {g.__name__}: {len(u)} unknown shape(s): " + "; ".join(u[:5]))


if __name__ == "__main__":
    generate(REPO, GEN)
