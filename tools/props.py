"""Per-property configuration of ./check: one JSON file per property under tools/props/."""
import glob
import json
import os

_DIR = os.path.join(os.path.dirname(os.path.abspath(__file__)), "props")

PROPS = {}
for _p in sorted(glob.glob(os.path.join(_DIR, "C*.json"))):
    PROPS[os.path.basename(_p)[:-5]] = json.load(open(_p))
