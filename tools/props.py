"""Per-property configuration of ./check."""

TB_COMMON = [
    "Lean 4.33 kernel; axioms limited to propext, Classical.choice, Quot.sound (audited per theorem with #print axioms)",
    "hand-written Lean model (lean/RosuModel/Model/*.lean), tied to /repo by the correspondence run: same case lines through the harness (real API, in-process) and the compiled model driver, outputs diffed",
    "harness (harness/src), canonicalisation and diff (tools/checklib.py); rustc/LLVM/std; rosu-map and rosu-mods are exercised, not modelled",
    "strain skills, evaluators, curve/slider maths and pp formulas are NOT modelled: they are an abstract state S with process : S -> Nat -> S",
]

GRAD_RULE = ("corner maps for every mode (0-5 objects, every object kind first), structured-random small maps (native and converted, "
             "random mods/clock rate/attribute overrides), truncated resource maps; non-trivial = at least one unit (and >= 2 ops for C15); "
             "distinct = distinct (mode, object descriptor, settings/op sequence) hashes")

PROPS = {
    "C02": {
        "lean_files": ["RosuModel/Props/C02.lean"],
        "level": "proof",
        "trusted_base": TB_COMMON,
        "rule": GRAD_RULE,
        "correspondence": "GRAD lines (len/next walk: integer attribute fields + skill-signature class per value) vs Model/Gradual.lean",
        "partial": ["taiko: theorem holds under 'first two objects are hits, >= 3 objects' (and 'last object is a hit' for the final-value clause); the code violates the full statement (known findings)",
                    "mania: theorem needs incGrad = incOne; the code recomputes hold-note combo from scaled times (known finding)"],
        "assumptions": ["Difficulty handed to the gradual constructor carries no passed_objects"],
    },
    "C14": {
        "lean_files": ["RosuModel/Props/C14.lean"],
        "level": "proof",
        "trusted_base": TB_COMMON,
        "rule": GRAD_RULE,
        "correspondence": "ONE lines (integer attribute fields for every passed_objects n in 0..total+1 and u32::MAX) vs Model/Gradual.lean one-shot functions",
        "partial": [],
    },
    "C15": {
        "lean_files": ["RosuModel/Props/C15.lean"],
        "level": "proof",
        "trusted_base": TB_COMMON,
        "rule": GRAD_RULE + "; op sequences: exhaustive length 2-3 over {next, nth 0,1,2,3,100,usize::MAX, len} on maps with <= 4 units, random up to length 12 (quick) / 30 (thorough)",
        "correspondence": "GRAD lines (arbitrary next/nth/len sequences) vs Model/Gradual.lean machines",
        "partial": ["Iterator::nth contract is false of the code for n >= remaining >= 1 (theorem osu_nth_contract_fails; known finding); proved: nth processes min(n+1, remaining)",
                    "taiko: protocol theorems hold under 'first two objects are hits, >= 3 objects' (known finding)"],
    },
}
