#!/bin/bash
# confirm_seed.sh <Cxx> <name>: confirms a seeded change in /tmp/seed-Cxx (+ /tmp/seed-Cxx-out) and files it under /verif/seeded/<name>
set -u
P=$1; NAME=$2; W=/tmp/seed-$P; O=/tmp/seed-$P-out
cd $W || exit 2
git checkout -q -- . 2>/dev/null
git apply $O/patch.diff || { echo "patch does not apply"; exit 2; }
mkdir -p examples; [ -f examples/demo.rs ] || cp $O/demo.rs examples/demo.rs
echo "--- demo WITH change (expect failure)"; cargo run -q --offline --example demo >/tmp/seed_with.log 2>&1; RC_WITH=$?; tail -3 /tmp/seed_with.log
git apply -R $O/patch.diff
echo "--- demo WITHOUT change (expect success)"; cargo run -q --offline --example demo >/tmp/seed_without.log 2>&1; RC_WITHOUT=$?; tail -3 /tmp/seed_without.log
git apply $O/patch.diff
echo "--- test suite with change"; cargo test --offline --no-fail-fast >/tmp/seed_tests.log 2>&1; grep -E "^test result|FAILED|failed" /tmp/seed_tests.log | grep -v "^test result: ok" | head
FAILS=$(grep -E "^test [A-Za-z0-9_:]+ \.\.\. FAILED" /tmp/seed_tests.log | grep -v basic_osu | wc -l)
echo "demo rc with=$RC_WITH without=$RC_WITHOUT; unexpected failing tests=$FAILS"
if [ $RC_WITH -ne 0 ] && [ $RC_WITHOUT -eq 0 ] && [ $FAILS -eq 0 ]; then
  D=/verif/seeded/$NAME; mkdir -p $D; cp $O/patch.diff $D/; cp examples/demo.rs $D/demo.rs; cp $O/meta.json $D/meta.json
  echo "CONFIRMED -> $D"
else
  echo "NOT CONFIRMED"
fi
