#!/usr/bin/env python3
"""Orchestration for ./check: builds, correspondence diff, known findings, evidence."""
import fcntl
import json
import os
import re
import subprocess
import sys
import time

VERIF = os.path.dirname(os.path.dirname(os.path.abspath(__file__)))
LEAN = os.path.join(VERIF, "lean")
HARNESS = os.path.join(VERIF, "harness")
BUILD = os.path.join(VERIF, "build")
DRIVER = os.path.join(LEAN, ".lake", "build", "bin", "driver")
ALLOWED_AXIOMS = {"propext", "Classical.choice", "Quot.sound"}
FORBIDDEN = re.compile(r"\b(sorry|admit|native_decide|bv_decide|implemented_by|maxHeartbeats\s+0)\b|^\s*axiom\s|\bunsafe\s", re.M)

ENV = dict(os.environ)
ENV["CARGO_NET_OFFLINE"] = "true"


def sh(cmd, cwd=None, timeout=None, env=None, input=None):
    p = subprocess.run(cmd, cwd=cwd, env=env or ENV, capture_output=True, text=True, timeout=timeout, input=input)
    return p.returncode, p.stdout, p.stderr


class Lock:
    def __init__(self, name):
        os.makedirs(BUILD, exist_ok=True)
        self.path = os.path.join(BUILD, name + ".lock")

    def __enter__(self):
        self.f = open(self.path, "w")
        fcntl.flock(self.f, fcntl.LOCK_EX)
        return self

    def __exit__(self, *a):
        fcntl.flock(self.f, fcntl.LOCK_UN)
        self.f.close()


def strip_comments(src):
    # remove /- ... -/ (nested not handled beyond one level, good enough for our files) and -- lines
    out = []
    depth = 0
    i = 0
    while i < len(src):
        if src.startswith("/-", i):
            depth += 1
            i += 2
        elif src.startswith("-/", i) and depth > 0:
            depth -= 1
            i += 2
        elif depth == 0:
            if src.startswith("--", i):
                j = src.find("\n", i)
                i = len(src) if j < 0 else j
            else:
                out.append(src[i])
                i += 1
        else:
            i += 1
    return "".join(out)


def theorem_names(path):
    src = strip_comments(open(path).read())
    ns = []
    names = []
    for line in src.splitlines():
        m = re.match(r"\s*namespace\s+(\S+)", line)
        if m:
            ns.append(m.group(1))
            continue
        m = re.match(r"\s*end\s+(\S+)", line)
        if m and ns and ns[-1] == m.group(1):
            ns.pop()
            continue
        m = re.match(r"\s*(?:private\s+|protected\s+)?theorem\s+([^\s:({\[]+)", line)
        if m:
            names.append(".".join(ns + [m.group(1)]))
    return names


def translate():
    """Regenerate Gen/*.lean from /repo's current source."""
    rc, out, err = sh([sys.executable, os.path.join(VERIF, "tools", "translate.py")], cwd=VERIF, timeout=120)
    return rc, out + err


def lean_build(modules, want_driver=True):
    """lake build of the given modules (+ driver). Returns (ok, log)."""
    targets = list(modules)
    if want_driver:
        targets.append("driver")
    with Lock("lake"):
        rc, out, err = sh(["lake", "build"] + targets, cwd=LEAN, timeout=3000)
    return rc == 0, out + err


def lean_audit(prop, module_files):
    """#print axioms for every theorem of the property's Props module(s).
    Returns (obligations, discharged, details, problems)."""
    names = []
    imports = []
    problems = []
    for f in module_files:
        path = os.path.join(LEAN, f)
        names += theorem_names(path)
        imports.append(f[:-5].replace("/", "."))
        src = strip_comments(open(path).read())
        m = FORBIDDEN.search(src)
        if m:
            problems.append(f"forbidden token {m.group(0)!r} in {f}")
    os.makedirs(os.path.join(BUILD, "audit"), exist_ok=True)
    apath = os.path.join(BUILD, "audit", f"Audit{prop}.lean")
    with open(apath, "w") as fh:
        for imp in imports:
            fh.write(f"import {imp}\n")
        for n in names:
            fh.write(f"#print axioms {n}\n")
    with Lock("lake"):
        rc, out, err = sh(["lake", "env", "lean", apath], cwd=LEAN, timeout=1200)
    text = out + err
    details = {}
    for m in re.finditer(r"'([^']+)' depends on axioms: \[([^\]]*)\]", text, re.S):
        details[m.group(1)] = [a.strip() for a in m.group(2).replace("\n", " ").split(",") if a.strip()]
    for m in re.finditer(r"'([^']+)' does not depend on any axioms", text):
        details[m.group(1)] = []
    discharged = 0
    for n in names:
        ax = details.get(n)
        if ax is None:
            problems.append(f"theorem {n}: no axiom report (does it compile?)")
        elif not set(ax) <= ALLOWED_AXIOMS:
            problems.append(f"theorem {n}: axioms {ax}")
        else:
            discharged += 1
    if rc != 0 and not problems:
        problems.append("audit file failed: " + text[-400:])
    return len(names), discharged, details, problems



def transitive_modules(lean_files):
    """RosuModel.* modules reachable through `import` from the given project files."""
    seen, todo = [], [f[:-5].replace("/", ".") for f in lean_files]
    while todo:
        m = todo.pop()
        if m in seen:
            continue
        path = os.path.join(LEAN, m.replace(".", "/") + ".lean")
        if not os.path.exists(path):
            continue
        seen.append(m)
        for line in open(path):
            mm = re.match(r"\s*import\s+(RosuModel\.\S+)", line)
            if mm:
                todo.append(mm.group(1))
    return sorted(seen)


def leanchecker(lean_files):
    """Independent re-check (Lean's `leanchecker`) of the compiled .olean files of the property's
    modules and of every project module they import. Returns (info, problem)."""
    mods = transitive_modules(lean_files)
    t0 = time.time()
    with Lock("lake"):
        try:
            rc, out, err = sh(["lake", "env", "leanchecker"] + mods, cwd=LEAN, timeout=2400)
        except Exception as e:
            rc, out, err = 124, "", str(e)
    info = {"modules": len(mods), "exit": rc, "wall_s": round(time.time() - t0, 1)}
    if rc != 0:
        return info, "leanchecker rejected the compiled modules: " + (out + err)[-400:]
    return info, None



def failing_declarations(lake_log):
    """Maps `error: <file>:<line>:<col>` entries of a lake log to the enclosing declaration
    (last `theorem|lemma|def|example|instance` at or before that line)."""
    out = []
    for m in re.finditer(r"error: (?:\./)?(\S+?\.lean):(\d+):(\d+)", lake_log):
        f, line = m.group(1), int(m.group(2))
        path = f if os.path.isabs(f) else os.path.join(LEAN, f)
        name = "?"
        try:
            src = open(path).read().splitlines()
            for i in range(min(line, len(src)) - 1, -1, -1):
                mm = re.match(r"\s*(?:private\s+|protected\s+|@\[[^\]]*\]\s*)*(theorem|lemma|def|example|instance|abbrev)\s+([^\s:({\[]+)?", src[i])
                if mm:
                    name = f"{mm.group(1)} {mm.group(2) or ''}".strip()
                    break
        except OSError:
            pass
        entry = f"{os.path.relpath(path, LEAN)}:{line} ({name})"
        if entry not in out:
            out.append(entry)
    return out


def forbidden_scan():
    """Scan every Lean source of the project (outside comments)."""
    hits = []
    for root, _, files in os.walk(LEAN):
        if ".lake" in root:
            continue
        for f in files:
            if f.endswith(".lean"):
                p = os.path.join(root, f)
                m = FORBIDDEN.search(strip_comments(open(p).read()))
                if m:
                    hits.append(f"{os.path.relpath(p, LEAN)}: {m.group(0)!r}")
    return hits


def cargo_build(profile="release", features=None, prop=None, fallbacks=None):
    """Builds the harness against /repo's working tree. Returns (ok, log, binary).
    With `prop`, a failed build of the whole harness is retried with only the modules that property
    needs (cargo features pNN, see harness/src/lib.rs): a crate-private signature change that stops
    another property's module from compiling must not take this property's check down with it.
    `fallbacks` = list of feature lists tried in order (default [[pNN]]).  LAST_BUILD records which
    feature set was used and the first error of the full build."""
    global LAST_BUILD
    base = ["cargo", "build", "--offline", "--profile", profile]
    tdir = os.path.join(BUILD, "target")
    if features:
        tdir = os.path.join(BUILD, "target-" + "-".join(features))
    sub = "release" if profile == "release" else profile
    cmd = base + (["--features", ",".join(features)] if features else []) + ["--target-dir", tdir]
    with Lock("cargo-" + os.path.basename(tdir)):
        rc, out, err = sh(cmd, cwd=HARNESS, timeout=3000)
    LAST_BUILD = {"reduced": None, "full_build_error": None}
    if rc == 0 or not prop:
        return rc == 0, out + err, os.path.join(tdir, sub, "rosu_verif")
    full_log = out + err
    first_err = next((l for l in full_log.splitlines() if l.startswith("error")), "build failed")
    where = next((l.strip() for l in full_log.splitlines() if l.strip().startswith("-->")), "")
    pfeat = "p" + prop[1:]
    for fb in (fallbacks or [[pfeat]]):
        feats = list(fb) + list(features or [])
        tdir2 = tdir + "-" + "-".join(fb)
        cmd = base + ["--bin", "rosu_verif", "--no-default-features", "--features", ",".join(feats), "--target-dir", tdir2]
        with Lock("cargo-" + os.path.basename(tdir2)):
            rc2, out2, err2 = sh(cmd, cwd=HARNESS, timeout=3000)
        if rc2 == 0:
            LAST_BUILD = {"reduced": fb, "full_build_error": f"{first_err} {where}"}
            return True, full_log + "\n--- reduced build " + ",".join(fb) + " ok ---\n" + out2 + err2, os.path.join(tdir2, sub, "rosu_verif")
    return False, full_log, os.path.join(tdir, sub, "rosu_verif")


LAST_BUILD = {"reduced": None, "full_build_error": None}


def cargo_build_tsan(features=None):
    """Nightly build of the harness (and std, -Zbuild-std) with ThreadSanitizer. Returns
    (ok, log, binary); ok=False when the nightly toolchain / rust-src is not usable offline."""
    tdir = os.path.join(BUILD, "target-tsan")
    cmd = ["cargo", "+nightly", "build", "--offline", "--release", "-Zbuild-std", "--target", "x86_64-unknown-linux-gnu",
           "--target-dir", tdir]
    if features:
        cmd += ["--features", ",".join(features)]
    env = dict(ENV)
    env["RUSTFLAGS"] = "--cfg rosu_pp_verif -Aunexpected_cfgs -Zsanitizer=thread"
    with Lock("cargo-target-tsan"):
        try:
            rc, out, err = sh(cmd, cwd=HARNESS, timeout=3000, env=env)
        except Exception as e:
            return False, f"{e}", ""
    return rc == 0, out + err, os.path.join(tdir, "x86_64-unknown-linux-gnu", "release", "rosu_verif")


def run_driver(cases_path, out_path):
    with open(cases_path) as fin, open(out_path, "w") as fout:
        p = subprocess.run([DRIVER], stdin=fin, stdout=fout, stderr=subprocess.PIPE, timeout=3000)
    return p.returncode


def diff_model(out_dir, tag=""):
    """Runs the driver on out_dir/cases.txt and diffs with out_dir/impl.txt.
    Returns (lines_compared, n_differ, first disagreements)."""
    cases = os.path.join(out_dir, "cases.txt")
    if not os.path.exists(cases) or os.path.getsize(cases) == 0:
        return 0, 0, []
    run_driver(cases, os.path.join(out_dir, "model.txt"))
    impl = open(os.path.join(out_dir, "impl.txt")).read().splitlines()
    model = open(os.path.join(out_dir, "model.txt")).read().splitlines()
    case_lines = open(cases).read().splitlines()
    ids = open(os.path.join(out_dir, "case_ids.txt")).read().splitlines()
    dis = []
    if len(model) != len(impl):
        dis.append({"case_id": tag, "case": "", "impl": f"{len(impl)} lines", "model": f"{len(model)} lines"})
    n = 0
    for i, (a, b) in enumerate(zip(impl, model)):
        if a != b:
            n += 1
            if len(dis) < 50:
                dis.append({"case_id": (tag + ":" if tag else "") + (ids[i] if i < len(ids) else ""), "case": case_lines[i], "impl": a, "model": b})
    return min(len(impl), len(model)), n, dis


def feature_matrix(prop, spec, tier, seed, log_dir, only=None):
    """Generic per-property hook (`"feature_matrix"` in tools/props/Cxx.json):
    {"sets": [[...features...], ...], "dump_cmd": "<harness sub-command writing dump.txt>"}.
    Builds the harness once per feature set (separate target dirs, in parallel), runs the
    property's harness + driver diff for every non-default set and the dump command for all sets
    (default features included); the dumps must be identical.
    Returns (failures, disagreements, info, problem)."""
    import threading
    sets = [[]] + [list(x) for x in spec.get("sets", [])]
    builds = {}

    def build(feats):
        builds[",".join(feats)] = cargo_build("release", features=feats or None, prop=prop, fallbacks=spec.get("fallbacks"))

    threads = [threading.Thread(target=build, args=(f,)) for f in sets]
    for t in threads:
        t.start()
    for t in threads:
        t.join()
    failures, disagreements = [], []
    info = {"builds": [], "dump_lines": 0, "dumps_identical": None}
    dumps = {}
    for feats in sets:
        name = ",".join(feats)
        label = name or "default"
        ok, clog, binpath = builds[name]
        if not ok:
            return failures, disagreements, info, f"harness does not build with features [{name}]: " + clog[-500:]
        out_dir = os.path.join(log_dir, "features-" + (label.replace(",", "+")))
        os.makedirs(out_dir, exist_ok=True)
        entry = {"features": label}
        if feats:
            cmd = [binpath, prop, tier, str(seed), out_dir] + ([only] if only else [])
            try:
                rc, out, err = sh(cmd, cwd=VERIF, timeout=3000)
            except Exception as e:
                rc, out, err = 124, "", str(e)
            if rc != 0:
                return failures, disagreements, info, f"harness [{name}] exited with {rc}: {(out + err)[-300:]}"
            for f in read_jsonl(os.path.join(out_dir, "failures.jsonl")):
                f["case_id"] = label + ":" + f.get("case_id", "")
                failures.append(f)
            n, nd, dis = diff_model(out_dir, label)
            disagreements += dis
            entry.update({"model_vs_impl_lines": n, "differ": nd})
        dump_cmd = spec.get("dump_cmd")
        if dump_cmd and not only:
            try:
                rc, out, err = sh([binpath, dump_cmd, tier, str(seed), out_dir], cwd=VERIF, timeout=3000)
            except Exception as e:
                rc, out, err = 124, "", str(e)
            if rc != 0:
                return failures, disagreements, info, f"dump [{name}] exited with {rc}: {(out + err)[-300:]}"
            dumps[label] = open(os.path.join(out_dir, "dump.txt")).read().splitlines()
            entry["dump_lines"] = len(dumps[label])
        info["builds"].append(entry)
    if dumps:
        base = dumps["default"]
        info["dump_lines"] = len(base)
        info["dumps_identical"] = True
        # per-case notes written next to the dumps (any build) classify known differences:
        # spec["known_diff_classes"] = [{"note": <note>, "class": <known-finding class>}]
        notes = {}
        for feats in sets:
            label = ",".join(feats) or "default"
            np_ = os.path.join(log_dir, "features-" + label.replace(",", "+"), "dump-notes.txt")
            if os.path.exists(np_):
                for line in open(np_):
                    parts = line.split()
                    if len(parts) >= 2:
                        notes.setdefault(parts[0], set()).update(parts[1:])
        note_class = {k["note"]: k["class"] for k in spec.get("known_diff_classes", [])}
        for label, lines in dumps.items():
            if lines == base:
                continue
            info["dumps_identical"] = False
            n_lines = max(len(base), len(lines))
            reported = set()
            info.setdefault("differing_cases", {})[label] = 0
            for i in range(n_lines):
                a = base[i] if i < len(base) else "<missing>"
                b = lines[i] if i < len(lines) else "<missing>"
                if a == b:
                    continue
                cid = (a if a != "<missing>" else b).split(" ")[0]
                if cid in reported:
                    continue
                reported.add(cid)
                info["differing_cases"][label] += 1
                cls = next((note_class[n] for n in sorted(notes.get(cid, ())) if n in note_class), "")
                failures.append({
                    "kind": "oracle:feature-build-differs", "class": cls, "case_id": f"{label}:{cid}",
                    "detail": f"default build: `{a[:260]}` vs [{label}] build: `{b[:260]}` (dump line {i + 1})",
                    "repro": f"rosu_verif {dump_cmd} {tier} {seed} <dir> built with --features {label}; compare dump.txt with the default build (case {cid})",
                })
    return failures, disagreements, info, None


def extra_cmds(cmds, tier, log_dir):
    """Generic per-property hook (`"extra_cmds"`): shell commands run from /verif; a non-zero exit
    (or a missing `expect` substring) is an oracle failure of kind `kind` / class `class_on_fail`.
    Entry: {"name", "tiers": [...], "cmd": [...], "cwd"?, "env"?, "timeout"?, "expect"?, "kind"?,
            "class_on_fail"?, "failures_jsonl"?}; `{LOG}`, `{BUILD}`, `{VERIF}` are substituted in
    `cmd` and `failures_jsonl`; records of the latter file (kind/class/case_id/detail/repro) are
    added to the run's oracle failures."""
    failures, info = [], []
    for c in cmds:
        if tier not in c.get("tiers", ["quick", "thorough"]):
            continue
        env = dict(ENV)
        env.update(c.get("env", {}))
        cwd = os.path.join(VERIF, c.get("cwd", ""))
        sub = lambda x: x.replace("{BUILD}", BUILD).replace("{VERIF}", VERIF).replace("{LOG}", log_dir)  # noqa: E731
        cmd = [sub(x) for x in c["cmd"]]
        fj = sub(c["failures_jsonl"]) if c.get("failures_jsonl") else None
        if fj and os.path.exists(fj):
            os.remove(fj)
        t0 = time.time()
        try:
            rc, out, err = sh(cmd, cwd=cwd, timeout=c.get("timeout", 1200), env=env)
        except Exception as e:
            rc, out, err = 124, "", f"timeout/exception: {e}"
        text = out + err
        open(os.path.join(log_dir, f"extra-{c['name']}.log"), "w").write(text)
        ok = rc == 0 and (c.get("expect", "") in text)
        entry = {"name": c["name"], "ok": ok, "exit": rc, "wall_s": round(time.time() - t0, 1)}
        if fj and os.path.exists(fj):
            recs = read_jsonl(fj)
            failures += recs
            entry["failure_records"] = len(recs)
            entry["summary"] = [l for l in text.splitlines() if l.strip()][-1:][0][:600] if text.strip() else ""
        info.append(entry)
        if not ok:
            tail = [l for l in text.splitlines() if l.strip()][-12:]
            failures.append({"kind": c.get("kind", "oracle:extra-cmd"), "class": c.get("class_on_fail", ""),
                             "case_id": c["name"], "detail": f"exit {rc}: " + " | ".join(tail)[-700:],
                             "repro": " ".join(f"{k}={v}" for k, v in c.get("env", {}).items()) + " " + " ".join(cmd) + f"  (cwd {cwd})"})
    return failures, info


def run_driver(cases_path, out_path):
    with open(cases_path) as fin, open(out_path, "w") as fout:
        p = subprocess.run([DRIVER], stdin=fin, stdout=fout, stderr=subprocess.PIPE, timeout=3000)
    return p.returncode


def _num(tok):
    """Fraction for `123`, `-1.5e3`, `7/2`; None when the token is not a finite number."""
    from fractions import Fraction
    import math
    try:
        if tok.startswith("b:"):
            # IEEE-754 binary64 bit pattern (16 hex digits)
            import struct
            f = struct.unpack(">d", bytes.fromhex(tok[2:].rjust(16, "0")))[0]
            if math.isnan(f) or math.isinf(f):
                return None
            return Fraction(f)
        if "/" in tok:
            return Fraction(tok)
        f = float(tok)
        if math.isnan(f) or math.isinf(f):
            return None
        # decimal text written by the implementation denotes the f64 it round-trips to
        return Fraction(f) if any(c in tok for c in ".eE") else Fraction(int(tok))
    except (ValueError, ZeroDivisionError):
        return None


def numeric_equal(impl_line, model_line, tol):
    """Token-wise comparison for `"compare": "numeric"` properties.  Tokens are separated by blanks and
    may carry a `key=` prefix (keys must match exactly).  A model value is a number (`a/b` allowed)
    or an interval `lo..hi`; the implementation value must lie within it, widened by
    `abs + rel * max(|lo|, |hi|)`.  Everything that does not parse as a number is compared as text."""
    rel = float(tol.get("rel", 0.0))
    ab = float(tol.get("abs", 0.0))
    from fractions import Fraction
    # tokens starting with `~` are annotations of the model (not compared)
    a = [t for t in impl_line.split() if not t.startswith("~")]
    b = [t for t in model_line.split() if not t.startswith("~")]
    if len(a) != len(b):
        return False
    for x, y in zip(a, b):
        if x == y:
            continue
        kx, _, vx = x.rpartition("=")
        ky, _, vy = y.rpartition("=")
        if kx != ky:
            return False
        lo_s, sep, hi_s = vy.partition("..")
        lo = _num(lo_s)
        hi = _num(hi_s) if sep else lo
        v = _num(vx)
        if lo is None or hi is None or v is None:
            return False
        slack = Fraction(ab) + Fraction(rel) * max(abs(lo), abs(hi))
        if not (lo - slack <= v <= hi + slack):
            return False
    return True


def numeric_stats(impl, model, differs, ids=None, annotation_keys=("fin",), case_lines=None):
    """Statistics of a numeric comparison: how many lines are textually identical once annotations are
    dropped (bit patterns `b:…` equal = bit-exact), how many agree only within the tolerance, and a
    histogram of the model's `~key=value` annotations against the implementation's tokens named in
    `annotation_keys` (e.g. `~dom=1 | fin=0`), per class of case id (`pp-<mode>-<tag>` for generated
    attribute lines, `real-map` otherwise)."""
    exact = within = 0
    hist = {}
    by_kind = {}
    for i, (a, b, d) in enumerate(zip(impl, model, differs)):
        ann = [t for t in b.split() if t.startswith("~")]
        core = " ".join(t for t in b.split() if not t.startswith("~"))
        if d:
            continue
        if a == core:
            exact += 1
        else:
            within += 1
        if case_lines and i < len(case_lines):
            kind = " ".join(case_lines[i].split()[:2])
            if kind.startswith(("PP ", "OSK ")):
                e = by_kind.setdefault(kind, [0, 0])
                e[0 if a == core else 1] += 1
        if ann:
            keep = [t for t in a.split() if t.partition("=")[0] in annotation_keys]
            cid = ids[i] if ids and i < len(ids) else ""
            cls = "-".join(cid.split("-")[:3]) if cid.startswith("pp-") else "real-map"
            k = cls + ": " + " ".join(ann) + " | " + " ".join(keep)
            hist[k] = hist.get(k, 0) + 1
    return {"bit_exact_lines": exact, "within_tolerance_only": within, "annotations": hist,
            "bit_exact_vs_within_tolerance_by_kind": {k: {"bit_exact": v[0], "within_tolerance_only": v[1]} for k, v in sorted(by_kind.items())}}


def load_known():
    p = os.path.join(VERIF, "known_findings.json")
    if not os.path.exists(p):
        return {"findings": [], "fixed": []}
    return json.load(open(p))


def read_jsonl(path):
    out = []
    if os.path.exists(path):
        for line in open(path):
            line = line.strip()
            if line:
                out.append(json.loads(line))
    return out


def write_json(path, obj):
    os.makedirs(os.path.dirname(path), exist_ok=True)
    tmp = path + ".tmp"
    with open(tmp, "w") as f:
        json.dump(obj, f, indent=1, sort_keys=False)
        f.write("\n")
    os.replace(tmp, path)
