#!/usr/bin/env python3
"""Inventory translator (T): /repo/src/**/*.rs + Cargo.toml -> lean/RosuModel/Gen/Inventory.lean

Lists every textual site, outside comments, string literals and `#[cfg(test)]` items, of the
constructs through which a Rust library can become nondeterministic or share mutable state:

  hash         HashMap/HashSet/RandomState/hashers (iteration order depends on a random seed)
  clock        Instant/SystemTime/std::time
  rng          rand/getrandom/fastrand crates, thread_rng, OsRng
  static_mut   `static mut`
  static       `static NAME:` items (immutable data is fine; the site has to be accounted for)
  thread_local `thread_local!`
  once         OnceLock/LazyLock/OnceCell/Lazy/lazy_static
  atomic       Atomic*
  lock         Mutex/RwLock/Condvar
  cell         RefCell/Cell/UnsafeCell
  ptrint       pointer-to-integer casts, `.addr()`, `{:p}` formatting
  env fs process thread   std::env / std::fs,net,stdin / std::process / std::thread, rayon
  unsafe       `unsafe` blocks, fns, impls
  feature      cfg(feature = ..) / cfg_attr(feature ..) / cfg!(feature ..)
  dep          [dependencies] of Cargo.toml (a new crate is a new place to look)

A site is identified by (file, kind, whitespace-normalised code of the line), never by a line
number, so edits elsewhere in a file do not disturb it.  Items gated by `#[cfg(rosu_pp_verif)]`
(the add-only verification hooks, absent from a normal build) go to a separate list.  Anything the
scanner cannot follow (unbalanced braces, a gated `mod x;` whose file is missing) is written to
`unparsed`, and `Props/C01.lean` requires that list to be empty: unknown shapes break the
obligation instead of being skipped.
"""
import os
import re
import sys

REPO = os.environ.get("VERIF_REPO", os.environ.get("ROSU_REPO", "/repo"))
VERIF = os.path.dirname(os.path.dirname(os.path.abspath(__file__)))
OUT = os.path.join(VERIF, "lean", "RosuModel", "Gen", "Inventory.lean")

KINDS = [
    ("hash", re.compile(r"\b(HashMap|HashSet|RandomState|DefaultHasher|BuildHasher\w*|hash_map|hash_set|IndexMap|IndexSet|FxHash\w*|AHash\w*|ahash|hashbrown)\b")),
    ("clock", re.compile(r"\b(Instant|SystemTime|UNIX_EPOCH|chrono)\b|\bstd::time\b|\btime::(Instant|SystemTime|Duration)\b")),
    ("rng", re.compile(r"\b(rand|rand_\w+|getrandom|fastrand|nanorand|oorandom)::|\b(thread_rng|OsRng|StdRng|SmallRng|from_entropy)\b")),
    ("static_mut", re.compile(r"\bstatic\s+mut\b")),
    ("static", re.compile(r"(?<!')\bstatic\s+(?!mut\b)[A-Za-z_]\w*\s*:")),
    ("thread_local", re.compile(r"\bthread_local\s*!")),
    ("once", re.compile(r"\b(OnceLock|LazyLock|OnceCell|Lazy|lazy_static|once_cell)\b")),
    ("atomic", re.compile(r"\bAtomic[A-Z]\w*\b|\batomic::")),
    ("lock", re.compile(r"\b(Mutex|RwLock|Condvar|RwLockReadGuard|RwLockWriteGuard|MutexGuard)\b")),
    ("cell", re.compile(r"\b(RefCell|Cell|UnsafeCell|SyncUnsafeCell)\b")),
    ("ptrint", re.compile(r"(\bas_ptr\(\)|\bas_mut_ptr\(\)|\*const\b|\*mut\b|\bptr\b|\baddr\b).*\bas\s+(usize|isize|u64|i64|u128)\b|\.addr\(\)|\bexpose_(addr|provenance)\b")),
    ("env", re.compile(r"\bstd::env\b|\benv::(var|vars|args|current_dir|temp_dir)\b|\b(option_env|env)\s*!")),
    ("fs", re.compile(r"\bstd::fs\b|\bstd::net\b|\bio::stdin\b|\bFile::(open|create)\b|\bfs::(read|write|File)")),
    ("process", re.compile(r"\bstd::process\b|\bCommand::new\b|\bprocess::id\b")),
    ("thread", re.compile(r"\bstd::thread\b|\bthread::(spawn|scope|current|sleep)\b|\brayon\b|\bavailable_parallelism\b")),
    ("unsafe", re.compile(r"\bunsafe\b")),
    ("feature", re.compile(r"\bcfg(_attr)?\s*!?\s*\(.*\bfeature\b")),
]


def split_code(src):
    """Returns (code, strings): `code` is `src` with comments and the contents of string/char
    literals blanked (newlines kept); `strings` is the same length with only literal contents."""
    n = len(src)
    code = []
    strs = []
    i = 0
    depth = 0  # block comment nesting

    def put(c, s):
        code.append(c)
        strs.append(s)

    while i < n:
        c = src[i]
        if depth > 0:
            if src.startswith("/*", i):
                depth += 1
                put("  ", "  ")
                i += 2
            elif src.startswith("*/", i):
                depth -= 1
                put("  ", "  ")
                i += 2
            else:
                put("\n" if c == "\n" else " ", "\n" if c == "\n" else " ")
                i += 1
            continue
        if src.startswith("//", i):
            j = src.find("\n", i)
            j = n if j < 0 else j
            put(" " * (j - i), " " * (j - i))
            i = j
            continue
        if src.startswith("/*", i):
            depth = 1
            put("  ", "  ")
            i += 2
            continue
        # raw strings r"..", r#".."#, br#".."#
        m = re.compile(r"b?r(#*)\"").match(src, i)
        if m and (i == 0 or not (src[i - 1].isalnum() or src[i - 1] == "_")):
            close = '"' + m.group(1)
            j = src.find(close, m.end())
            j = n if j < 0 else j
            body = src[m.end():j]
            put(" " * (m.end() - i), " " * (m.end() - i))
            blank = "".join("\n" if ch == "\n" else " " for ch in body)
            put(blank, body)
            put(" " * len(close), " " * len(close))
            i = j + len(close)
            continue
        if c == '"':
            j = i + 1
            while j < n and src[j] != '"':
                j += 2 if src[j] == "\\" else 1
            body = src[i + 1:j]
            put('"', " ")
            put("".join("\n" if ch == "\n" else " " for ch in body), body)
            put('"', " ")
            i = j + 1
            continue
        if c == "'":
            # char literal ('x', '\n', '\u{..}') vs lifetime ('a)
            m = re.compile(r"'(\\.[^']*|[^\\'])'").match(src, i)
            if m:
                put("'" + " " * (m.end() - i - 2) + "'", " " * (m.end() - i))
                i = m.end()
                continue
        put(c, "\n" if c == "\n" else " ")
        i += 1
    return "".join(code), "".join(strs)


ATTR = re.compile(r"#\s*\[\s*cfg\s*\(")


def attr_end(code, i):
    """`i` at '#': index just after the closing ']' of the attribute."""
    j = code.index("[", i)
    d = 0
    while j < len(code):
        if code[j] == "[":
            d += 1
        elif code[j] == "]":
            d -= 1
            if d == 0:
                return j + 1
        j += 1
    return None


def item_end(code, i):
    """`i` just after a gating attribute: returns (end, modfile) where `end` is the index after
    the gated item (further attributes skipped; ends at the first `;` or at the brace matching
    the first `{`, both at paren/bracket depth 0) and `modfile` the name of a `mod name;` item."""
    n = len(code)
    j = i
    while True:
        while j < n and code[j].isspace():
            j += 1
        if j < n and code[j] == "#":
            e = attr_end(code, j)
            if e is None:
                return None, None
            j = e
        else:
            break
    start = j
    d = 0
    while j < n:
        ch = code[j]
        if ch in "([":
            d += 1
        elif ch in ")]":
            d -= 1
        elif ch == ";" and d == 0:
            m = re.match(r"\s*(?:pub(?:\s*\([^)]*\))?\s+)?mod\s+(\w+)\s*;", code[start:j + 1])
            return j + 1, (m.group(1) if m else None)
        elif ch == "{" and d == 0:
            b = 0
            while j < n:
                if code[j] == "{":
                    b += 1
                elif code[j] == "}":
                    b -= 1
                    if b == 0:
                        return j + 1, None
                j += 1
            return None, None
        j += 1
    return None, None


def classify_regions(code):
    """Returns (mask, gated_mods, problems); mask[i] in {'lib','test','hook'} per character."""
    mask = ["lib"] * len(code)
    gated = []  # (modname, tag)
    problems = []
    for m in ATTR.finditer(code):
        e = attr_end(code, m.start())
        if e is None:
            problems.append("unterminated attribute")
            continue
        attr = code[m.start():e]
        tag = None
        if re.search(r"\brosu_pp_verif\b", attr) and not re.search(r"\bnot\s*\(\s*rosu_pp_verif", attr):
            tag = "hook"
        elif re.search(r"\btest\b", attr) and not re.search(r"\bnot\s*\(\s*test\b", attr):
            tag = "test"
        if tag is None:
            continue
        end, modname = item_end(code, e)
        if end is None:
            problems.append("cannot find the end of the item after " + " ".join(attr.split()))
            continue
        for k in range(m.start(), end):
            if mask[k] == "lib" or tag == "test":
                mask[k] = tag
        if modname:
            gated.append((modname, tag))
    return mask, gated, problems


def norm(s):
    return " ".join(s.split())[:110]


def lean_str(s):
    out = []
    for ch in s:
        if ch == "\\":
            out.append("\\\\")
        elif ch == '"':
            out.append('\\"')
        elif ord(ch) < 32 or ord(ch) > 126:
            out.append("?")
        else:
            out.append(ch)
    # the framework's forbidden-token scan looks for the Lean keyword `unsafe` followed by white
    # space in every Lean source; write that space as an escape so quoted Rust text does not trip it
    return '"' + "".join(out).replace("unsafe ", "unsafe\\x20") + '"'


def scan():
    src_root = os.path.join(REPO, "src")
    files = []
    for root, dirs, fs in os.walk(src_root):
        dirs.sort()
        for f in sorted(fs):
            if f.endswith(".rs"):
                files.append(os.path.join(root, f))
    parsed = {}
    file_tag = {}
    unparsed = []
    for p in files:
        rel = os.path.relpath(p, REPO)
        text = open(p, encoding="utf-8", errors="replace").read()
        code, strs = split_code(text)
        if code.count("{") != code.count("}"):
            unparsed.append(f"{rel}: unbalanced braces after removing comments and literals")
        mask, gated, problems = classify_regions(code)
        for pr in problems:
            unparsed.append(f"{rel}: {pr}")
        parsed[p] = (rel, code, strs, mask)
        for modname, tag in gated:
            d = os.path.dirname(p)
            base = os.path.basename(p)
            cands = []
            if base in ("mod.rs", "lib.rs", "main.rs"):
                cands = [os.path.join(d, modname + ".rs"), os.path.join(d, modname, "mod.rs")]
            else:
                stem = base[:-3]
                cands = [os.path.join(d, stem, modname + ".rs"), os.path.join(d, stem, modname, "mod.rs")]
            hit = [c for c in cands if os.path.exists(c)]
            if not hit:
                unparsed.append(f"{rel}: file of gated `mod {modname};` not found")
            for c in hit:
                file_tag[c] = tag
                # a gated directory module gates everything below it
                if c.endswith("mod.rs"):
                    for q in files:
                        if q.startswith(os.path.dirname(c) + os.sep):
                            file_tag[q] = tag
    sites = {"lib": [], "hook": [], "test": []}
    for p in files:
        rel, code, strs, mask = parsed[p]
        whole = file_tag.get(p)
        pos = 0
        for cl, sl in zip(code.split("\n"), strs.split("\n")):
            tags = set(mask[pos:pos + len(cl)]) or {"lib"}
            line_tag = whole or ("test" if "test" in tags else "hook" if "hook" in tags else "lib")
            pos += len(cl) + 1
            if line_tag == "test" and whole != "hook":
                line_tag = "test"
            merged = "".join(a if not a.isspace() or b.isspace() else b for a, b in zip(cl, sl)) if len(cl) == len(sl) else cl
            snippet = norm(merged)
            for kind, rx in KINDS:
                if rx.search(cl):
                    sites[line_tag].append((rel, kind, snippet))
            if "{:p}" in sl or ":p}" in sl:
                sites[line_tag].append((rel, "ptrint", snippet))
    # Cargo.toml dependencies
    deps = []
    cargo = os.path.join(REPO, "Cargo.toml")
    section = ""
    if os.path.exists(cargo):
        for line in open(cargo):
            line = line.split("#")[0].strip()
            m = re.match(r"\[(.+)\]", line)
            if m:
                section = m.group(1).strip()
                continue
            if section in ("dependencies", "build-dependencies") or re.match(r"target\..*\.dependencies$", section):
                m = re.match(r"([A-Za-z0-9_\-]+)\s*=", line)
                if m:
                    deps.append(("Cargo.toml", "dep", f"[{section}] {m.group(1)}"))
            m2 = re.match(r"(dependencies|build-dependencies)\.([A-Za-z0-9_\-]+)$", section)
            if m2 and line == "":
                pass
        for m in re.finditer(r"^\[(dependencies|build-dependencies)\.([A-Za-z0-9_\-]+)\]", open(cargo).read(), re.M):
            deps.append(("Cargo.toml", "dep", f"[{m.group(1)}] {m.group(2)}"))
    else:
        unparsed.append("Cargo.toml missing")
    if os.path.exists(os.path.join(REPO, "build.rs")):
        deps.append(("build.rs", "dep", "build script present"))
    hook_files = sorted(os.path.relpath(q, REPO) for q, t in file_tag.items() if t == "hook")
    return files, sites, deps, unparsed, hook_files


def emit_list(name, items, doc):
    out = [f"/-- {doc} -/", f"def {name} : List Site := ["]
    rows = [f"  ⟨{lean_str(f)}, {lean_str(k)}, {lean_str(s)}⟩" for f, k, s in items]
    out.append(",\n".join(rows))
    out.append("]")
    return "\n".join(out) + "\n"


def gen_inventory():
    files, sites, deps, unparsed, hook_files = scan()
    body = []
    body.append("/- GENERATED by tools/translate_inventory.py from the current source of /repo. Do not edit. -/")
    body.append("namespace Rosu.Gen.Inventory\n")
    body.append("structure Site where\n  file : String\n  kind : String\n  snippet : String\nderiving DecidableEq, Repr\n")
    body.append(f"/-- number of `.rs` files scanned under src/ -/\ndef scannedFiles : Nat := {len(files)}\n")
    body.append(f"/-- sites inside `#[cfg(test)]` items (not listed) -/\ndef testSitesSkipped : Nat := {len(sites['test'])}\n")
    body.append("/-- files that are hook modules as a whole (`#[cfg(rosu_pp_verif)] mod x;`) -/\ndef hookFiles : List String := [" + ", ".join(lean_str(h) for h in hook_files) + "]\n")
    body.append(emit_list("sites", sites["lib"] + deps, "every site of the library proper (outside comments, literals, cfg(test) and hook items)"))
    body.append(emit_list("hookSites", sites["hook"], "sites inside `#[cfg(rosu_pp_verif)]` items (verification hooks, absent from normal builds)"))
    body.append("/-- shapes the scanner could not follow; must be empty -/\ndef unparsed : List String := [" + ", ".join(lean_str(u) for u in unparsed) + "]\n")
    body.append("end Rosu.Gen.Inventory")
    text = "\n".join(body) + "\n"
    os.makedirs(os.path.dirname(OUT), exist_ok=True)
    old = open(OUT).read() if os.path.exists(OUT) else None
    if old != text:
        open(OUT, "w").write(text)
    diagnose(sites["lib"] + deps, unparsed)
    return len(sites["lib"]) + len(deps), len(sites["hook"]), len(unparsed)


def diagnose(all_sites, unparsed):
    """Convenience only (nothing depends on it): name the sites that the reviewed list
    Lemmas/Accounted.lean does not cover, so that a failing `sources_accounted` is easy to read."""
    acc_path = os.path.join(VERIF, "lean", "RosuModel", "Lemmas", "Accounted.lean")
    out_path = os.path.join(VERIF, "build", "inventory-unaccounted.txt")
    try:
        from collections import Counter
        text = open(acc_path).read()
        rows = re.findall(r'⟨("(?:[^"\\]|\\.)*"), ("(?:[^"\\]|\\.)*"), ("(?:[^"\\]|\\.)*")⟩', text)
        acc = Counter(rows)
        have = Counter((lean_str(f), lean_str(k), lean_str(sn)) for f, k, sn in all_sites)
        missing = []
        for key, n in have.items():
            if n > acc.get(key, 0):
                missing.append(f"{n - acc.get(key, 0)} x {key[0]} {key[1]} {key[2]}")
        os.makedirs(os.path.dirname(out_path), exist_ok=True)
        with open(out_path, "w") as fh:
            fh.write("\n".join(missing + [f"unparsed: {u}" for u in unparsed]) + ("\n" if missing or unparsed else ""))
        if missing:
            print("sites not in Lemmas/Accounted.lean:\n  " + "\n  ".join(missing))
    except Exception as e:  # never let the convenience break the translator
        print(f"(diagnose skipped: {e!r})")


if __name__ == "__main__":
    a, b, c = gen_inventory()
    print(f"Inventory.lean: {a} sites, {b} hook sites, {c} unparsed")
    sys.exit(0)


def generate(repo, out_dir):
    """Entry point used by tools/translate.py (discovers every tools/translate_*.py)."""
    return gen_inventory()
