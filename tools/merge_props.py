import json,subprocess,os,re,sys,tempfile
def lines(s): return re.sub(r'([.;]) ', r'\1\n', s)+'\n'
def three(path):
    b=json.loads(subprocess.check_output(['git','show',f':1:{path}']))
    o=json.loads(subprocess.check_output(['git','show',f':2:{path}']))
    t=json.loads(subprocess.check_output(['git','show',f':3:{path}']))
    res=dict(o)
    for k in set(o)|set(t):
        bb,oo,tt=b.get(k),o.get(k),t.get(k)
        if oo==tt or tt==bb: res[k]=oo
        elif oo==bb: res[k]=tt
        elif isinstance(oo,list) and isinstance(tt,list):
            out=list(oo)
            removed=[x for x in (bb or []) if x not in tt]
            added=[x for x in tt if x not in (bb or [])]
            for x in removed:
                if x in out: out.remove(x)
                else: print(path,k,'NOTE: theirs changed an entry ours also changed:',str(x)[:80])
            for x in added:
                if x not in out: out.append(x)
            res[k]=out
        elif isinstance(oo,str) and isinstance(tt,str):
            d=tempfile.mkdtemp()
            for n,s in (('b',bb or ''),('o',oo),('t',tt)): open(f'{d}/{n}','w').write(lines(s))
            r=subprocess.run(['git','merge-file','-p',f'{d}/o',f'{d}/b',f'{d}/t'],capture_output=True,text=True)
            if r.returncode==0: res[k]=r.stdout.strip().replace('\n',' ')
            else:
                print('STRING CONFLICT',path,k,'-> union'); 
                r=subprocess.run(['git','merge-file','-p','--union',f'{d}/o',f'{d}/b',f'{d}/t'],capture_output=True,text=True)
                res[k]=r.stdout.strip().replace('\n',' ')
        else:
            print('UNRESOLVED',path,k); res[k]=oo
    json.dump(res,open(path,'w'),indent=1,ensure_ascii=False)
for p in sys.argv[1:]: three(p)
