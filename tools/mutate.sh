#!/bin/bash
# usage: mutate.sh <file> <python-regex-old> <new> <props...>   (applies to /repo, runs checks, reverts)
set -u
file=$1; old=$2; new=$3; shift 3
cd /repo
python3 - "$file" "$old" "$new" <<'PY'
import sys,re
f,old,new=sys.argv[1:4]
s=open(f).read()
n=len(re.findall(old,s,flags=re.S))
if n!=1:
    print(f"MUTATION PATTERN MATCHES {n} TIMES"); sys.exit(3)
open(f,'w').write(re.sub(old,lambda m:new,s,count=1,flags=re.S))
PY
rc=$?
if [ $rc -ne 0 ]; then git -C /repo checkout -- .; exit $rc; fi
if ! cargo build --offline 2>/dev/null >/dev/null; then echo "MUTANT DOES NOT COMPILE"; git -C /repo checkout -- .; exit 4; fi
cd /verif
for p in "$@"; do
  out=$(VERIF_NO_EVIDENCE=1 ./check $p 2>&1)
  echo "$out" | grep -E "^VIOLATION|tier=" | sed "s/^/[$p] /"
done
git -C /repo checkout -- .
