#!/usr/bin/env python3
"""C05: the realistic domain under the `checked` cargo profile (release code generation +
overflow-checks + debug-assertions, harness/Cargo.toml).  Builds the harness with
`--profile checked` into build/target-checked and runs `rosu_verif C05 <tier>:checked <seed> <out>`;
the oracle failures of that run are handed to ./check through <out>/failures.jsonl, its input
distribution is summarised on the last output line (full statistics: <out>/stats.json).

usage: c05_checked.py <tier> <log_dir>      (seed: $VERIF_SEED, default 1)
"""
import json
import os
import subprocess
import sys

HERE = os.path.dirname(os.path.abspath(__file__))
VERIF = os.path.dirname(HERE)


def main():
    tier, log_dir = sys.argv[1], sys.argv[2]
    seed = os.environ.get("VERIF_SEED", "1")
    out = os.path.join(log_dir, "checked")
    os.makedirs(out, exist_ok=True)
    fj = os.path.join(out, "failures.jsonl")
    if os.path.exists(fj):
        os.remove(fj)
    tdir = os.path.join(VERIF, "build", "target-checked")
    env = dict(os.environ)
    env["CARGO_NET_OFFLINE"] = "true"
    # whole harness first; if another property's module no longer compiles against /repo, only C05's
    # own modules (cargo features p05[,p05m], see harness/src/lib.rs)
    for extra in ([], ["--bin", "rosu_verif", "--no-default-features", "--features", "p05,p05m"],
                  ["--bin", "rosu_verif", "--no-default-features", "--features", "p05"]):
        td = tdir + ("-p05" if extra else "")
        p = subprocess.run(["cargo", "build", "--offline", "--profile", "checked", "--target-dir", td] + extra,
                           cwd=os.path.join(VERIF, "harness"), env=env, capture_output=True, text=True)
        if p.returncode == 0:
            tdir = td
            break
    open(os.path.join(out, "cargo.log"), "w").write(p.stdout + p.stderr)
    if p.returncode != 0:
        print("checked-profile build failed: " + (p.stdout + p.stderr)[-800:])
        return 1
    binary = os.path.join(tdir, "checked", "rosu_verif")
    p = subprocess.run([binary, "C05", f"{tier}:checked", seed, out], cwd=VERIF, env=env, capture_output=True, text=True)
    open(os.path.join(out, "harness.log"), "w").write(p.stdout + p.stderr)
    if p.returncode != 0:
        print(f"checked-profile harness exited with {p.returncode}: " + (p.stdout + p.stderr)[-600:])
        return 1
    st = json.load(open(os.path.join(out, "stats.json")))
    d = st.get("distribution", {})
    pick = {k.replace("[checked] ", ""): v for k, v in d.items()
            if any(k.startswith("[checked] " + p) for p in ("generated", "decoded", "stage:", "exercised:", "origin:"))}
    api_calls = sum(v for k, v in d.items() if k.startswith("[checked] api:"))
    fails = {k: v for k, v in d.items() if k.startswith("fail:")}
    print("checked profile (overflow-checks + debug-assertions), realistic domain: "
          + json.dumps({"evaluations": st.get("evaluations"), "api_calls": api_calls, **pick, "failures": fails}, sort_keys=True))
    return 0


if __name__ == "__main__":
    sys.exit(main())
