#!/usr/bin/env python3
"""Gen/ConvertWrites.lean: what the three converters (`catch::convert`, `taiko::convert`,
`mania::convert`) do to the `Beatmap` they receive, at the level of its fields.

For each `convert(map: &mut Beatmap, …)`:
* the top-level statements when there are at most four of them (catch: the whole body);
* every write to a field of `map` — `map.f = …` / `map.f op= …` (assign), `map.f[..]… = …`
  (index-assign), `&mut map.f` (borrow-mut), `map.f.<mutating method>(…)` (method:<name>) —, also
  inside same-file helpers that receive `map` as `&mut Beatmap`;
* every method called on `map` itself and every callee `map` is handed to as an argument;
* `unknown`: a method on a field that is neither in the mutating nor in the read-only list, a
  re-binding of `map`, a missing function.

Used by Props/C19.lean.
"""
import os
import re
import sys

sys.path.insert(0, os.path.dirname(os.path.abspath(__file__)))
from _rust import clean_file, find_fns, match_close, mode_files, norm, split_statements  # noqa: E402
from _util import lean_str, write_if_changed  # noqa: E402

repo, out = sys.argv[1], sys.argv[2]
FILES = [("Catch", "src/catch/convert.rs"), ("Taiko", "src/taiko/convert.rs"), ("Mania", "src/mania/convert/mod.rs")]

MUTATING = {"splice", "remove", "clear", "sort_by", "sort", "sort_unstable", "sort_unstable_by", "sort_by_key",
            "push", "insert", "drain", "retain", "retain_mut", "truncate", "extend", "extend_from_slice", "append",
            "swap", "swap_remove", "iter_mut", "get_mut", "as_mut", "as_mut_slice", "dedup", "dedup_by", "dedup_by_key",
            "pop", "reverse", "resize", "rotate_left", "rotate_right", "first_mut", "last_mut", "split_at_mut",
            "fill", "take", "replace", "set", "to_mut", "add", "push_str", "split_off", "chunks_mut", "select_nth_unstable_by"}
READONLY = {"len", "iter", "is_empty", "get", "first", "last", "round_ties_even", "clone", "copied", "as_slice",
            "binary_search_by", "partition_point", "windows", "eq", "max", "min", "clamp", "round", "floor", "ceil",
            "abs", "to_bits", "total_cmp", "partial_cmp", "cmp", "contains", "as_ref", "as_deref", "is_some",
            "is_none", "map_or", "map", "unwrap_or", "powi", "powf", "mul_add", "chunks", "split_first", "split_last",
            "into", "to_owned", "to_vec", "rev", "zip", "enumerate", "fract", "trunc", "is_nan", "copysign"}


def strs(xs):
    return "[" + ", ".join(lean_str(x) for x in xs) + "]"


def analyse(src, fn_name, param, seen, writes, calls, unknown):
    fns = {n: (sg, b) for n, sg, b in find_fns(src)}
    if fn_name not in fns:
        unknown.append("missing-fn:" + fn_name)
        return
    if fn_name in seen:
        return
    seen.add(fn_name)
    nb = norm(fns[fn_name][1])
    if re.search(r"\blet (?:mut )?" + param + r"\b", nb):
        unknown.append(f"{fn_name}:rebinds-{param}")
    for mm in re.finditer(r"(?<![.\w])" + param + r"\b", nb):
        before = nb[:mm.start()]
        after = nb[mm.end():]
        fm = re.match(r"\.(\w+)", after)
        if not fm:
            # `map` as a whole: an argument of which call?
            depth = 0
            p = mm.start() - 1
            while p >= 0:
                ch = nb[p]
                if ch == ")":
                    depth += 1
                elif ch == "(":
                    if depth == 0:
                        break
                    depth -= 1
                p -= 1
            cm = re.search(r"([\w:]+)$", nb[:p]) if p >= 0 else None
            callee = cm.group(1) if cm else "?"
            short = callee.split("::")[-1]
            if cm and short in fns and callee == short:
                sg = norm(fns[short][0])
                params = sg[sg.find("(") + 1:match_close(sg, sg.find("("), "(", ")")].split(",")
                # which parameter position?
                arg_idx = nb[p + 1:mm.start()].count(",")  # good enough for flat argument lists
                ptxt = params[arg_idx] if arg_idx < len(params) else ""
                pm = re.fullmatch(r"(\w+):&(mut )?Beatmap", ptxt)
                if pm and pm.group(2):
                    calls.add("helper-mut:" + short)
                    analyse(src, short, pm.group(1), seen, writes, calls, unknown)
                elif pm:
                    calls.add("helper-ref:" + short)
                else:
                    unknown.append(f"{fn_name}:helper-parameter:{short}:{ptxt[:30]}")
            else:
                calls.add("arg-of:" + callee)
            continue
        field = fm.group(1)
        rest = after[fm.end():]
        if rest.startswith("("):
            calls.add("method:" + field)
            continue
        if before.endswith("&mut "):
            writes.add((field, "borrow-mut"))
            continue
        if re.match(r"(?:[-+*/%|&^]|<<|>>)?=(?!=)", rest):
            writes.add((field, "assign"))
            continue
        if rest.startswith("["):
            close = match_close(rest, 0, "[", "]")
            tail = rest[close + 1:]
            tm = re.match(r"((?:\.\w+)*)(?:[-+*/%|&^]|<<|>>)?=(?!=)", tail)
            if tm:
                writes.add((field, "index-assign"))
                continue
            mm2 = re.match(r"(?:\.\w+)*\.(\w+)\(", tail)
            if mm2 and mm2.group(1) in MUTATING:
                writes.add((field, "method:" + mm2.group(1)))
            continue
        mm2 = re.match(r"\.(\w+)\(", rest)
        if mm2:
            meth = mm2.group(1)
            if meth in MUTATING:
                writes.add((field, "method:" + meth))
            elif meth not in READONLY:
                unknown.append(f"{fn_name}:method-on-field:{field}.{meth}")


rows = []
for mode, rel in FILES:
    path = os.path.join(repo, rel)
    unknown = []
    writes, calls = set(), set()
    sig = "?"
    top = []
    if not os.path.exists(path):
        unknown.append("missing-file")
    else:
        src = clean_file(path)
        fns = {n: (sg, b) for n, sg, b in find_fns(src)}
        if "convert" in fns:
            nsg = norm(fns["convert"][0])
            sig = nsg[nsg.find("("):]
            pm = re.match(r"\((\w+):&mut Beatmap", sig)
            if not pm:
                unknown.append("convert-signature:" + sig[:60])
            st = [norm(x) for x in split_statements(fns["convert"][1])]
            top = st if len(st) <= 4 else []
            analyse(src, "convert", pm.group(1) if pm else "map", set(), writes, calls, unknown)
        else:
            unknown.append("missing-fn:convert")
    rows.append((mode, sig, top, sorted(writes), sorted(calls), unknown))

mut_params = []
for mode, rel in FILES:
    found = []
    for path in mode_files(repo, mode.lower()):
        src = clean_file(path)
        for n, sg, b in find_fns(src):
            if re.search(r"&mut Beatmap\b", norm(sg)):
                found.append((os.path.relpath(path, repo), n))
        # closures / struct fields holding a `&mut Beatmap`
        body_wo_sigs = src
        if re.search(r"&\s*(?:'\w+\s+)?mut\s+Beatmap\b", re.sub(r"\bfn\s+\w+[^{;]*", "", src)):
            found.append((os.path.relpath(path, repo), "<non-parameter &mut Beatmap>"))
    mut_params.append((mode, sorted(set(found))))

wrappers = []
for mode, rel in FILES:
    path = os.path.join(repo, "src", mode.lower(), "mod.rs")
    st = ["?missing"]
    if os.path.exists(path):
        for n, sg, b in find_fns(clean_file(path), "convert"):
            st = [norm(x) for x in split_statements(b)]
            break
    wrappers.append((mode, st))

L = []
L.append("/- GENERATED by tools/translate.d/convert_writes.py from /repo/src/catch/convert.rs, /repo/src/taiko/convert.rs,")
L.append("   /repo/src/mania/convert/mod.rs — do not edit. -/")
L.append("namespace Rosu.Gen.ConvertWrites")
L.append("")
L.append("/-- parameter list of `convert` -/")
L.append("def convertSignatures : List (String × String) := [")
L.append(",\n".join(f"  ({lean_str(m)}, {lean_str(s)})" for m, s, *_ in rows))
L.append("]")
L.append("")
L.append("/-- the statements of `convert` when it has at most four (otherwise `[]`) -/")
L.append("def convertStatements : List (String × List String) := [")
L.append(",\n".join(f"  ({lean_str(m)}, {strs(t)})" for m, _, t, *_ in rows))
L.append("]")
L.append("")
L.append("/-- writes to fields of the map: (field, assign | index-assign | borrow-mut | method:<name>) -/")
L.append("def convertWrites : List (String × List (String × String)) := [")
L.append(",\n".join(f"  ({lean_str(m)}, [" + ", ".join(f"({lean_str(a)}, {lean_str(b)})" for a, b in w) + "])" for m, _, _, w, _, _ in rows))
L.append("]")
L.append("")
L.append("/-- methods called on the map itself (`method:`), callees it is handed to (`arg-of:`), same-file helpers")
L.append("receiving it by shared (`helper-ref:`) or mutable (`helper-mut:`, analysed recursively) reference -/")
L.append("def convertMapCalls : List (String × List String) := [")
L.append(",\n".join(f"  ({lean_str(m)}, {strs(c)})" for m, _, _, _, c, _ in rows))
L.append("]")
L.append("")
L.append("/-- statements of the wrapper `<Mode>::convert` in src/<mode>/mod.rs (what `Beatmap::convert_*` calls) -/")
L.append("def convertWrappers : List (String × List String) := [")
L.append(",\n".join(f"  ({lean_str(m)}, {strs(t)})" for m, t in wrappers))
L.append("]")
L.append("")
L.append("/-- every function under src/<mode>/ with a `&mut Beatmap` parameter: (file, fn) -/")
L.append("def mutBeatmapFns : List (String × List (String × String)) := [")
L.append(",\n".join(f"  ({lean_str(m)}, [" + ", ".join(f"({lean_str(a)}, {lean_str(b)})" for a, b in w) + "])" for m, w in mut_params))
L.append("]")
L.append("")
L.append("/-- shapes the extractor did not understand (must all be empty) -/")
L.append("def convertUnknown : List (String × List String) := [")
L.append(",\n".join(f"  ({lean_str(m)}, {strs(u)})" for m, *_, u in rows))
L.append("]")
L.append("")
L.append("end Rosu.Gen.ConvertWrites")
write_if_changed(os.path.join(out, "ConvertWrites.lean"), "\n".join(L) + "\n")
