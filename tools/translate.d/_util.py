"""Helpers shared by the translator scripts."""
import os


def lean_str(s):
    return '"' + s.replace("\\", "\\\\").replace('"', '\\"') + '"'


def write_if_changed(path, text):
    if os.path.exists(path) and open(path).read() == text:
        return False
    with open(path, "w") as f:
        f.write(text)
    return True


def strip_rust_comments(src):
    """Blank out // and /* */ comments and string literal contents are kept (cfg predicates
    contain string literals). Line structure is preserved."""
    out = []
    i = 0
    n = len(src)
    in_str = False
    while i < n:
        c = src[i]
        if in_str:
            out.append(c)
            if c == "\\" and i + 1 < n:
                out.append(src[i + 1])
                i += 2
                continue
            if c == '"':
                in_str = False
            i += 1
        elif c == '"':
            in_str = True
            out.append(c)
            i += 1
        elif src.startswith("//", i):
            j = src.find("\n", i)
            j = n if j < 0 else j
            i = j
        elif src.startswith("/*", i):
            j = src.find("*/", i + 2)
            j = n if j < 0 else j + 2
            out.append("".join(ch if ch == "\n" else " " for ch in src[i:j]))
            i = j
        elif c == "'" and i + 2 < n and (src[i + 2] == "'" or (src[i + 1] == "\\" and i + 3 < n and src[i + 3] == "'")):
            # char literal such as '"' or '\''
            k = i + 3 if src[i + 2] == "'" else i + 4
            out.append(src[i:k])
            i = k
        else:
            out.append(c)
            i += 1
    return "".join(out)


def rust_files(repo):
    res = []
    for root, _, files in os.walk(os.path.join(repo, "src")):
        for f in sorted(files):
            if f.endswith(".rs"):
                res.append(os.path.join(root, f))
    return sorted(res)
