#!/usr/bin/env python3
"""Gen/Lifetime.lean: the facts about /repo's CURRENT source that the pointer-discipline model
(Model/Lifetime.lean) takes as premises for C11 (b) and (c).  Compared with the reviewed values in
Props/C11.lean (`decide`), so a source change that invalidates a premise breaks the build.

(b) self-referential gradual calculators
  * every struct field under src/ whose type mentions the `'static` lifetime (the lifetime-extended
    borrowers; a new one is a new self-referential struct);
  * for OsuGradualDifficulty / TaikoGradualDifficulty: field names in declaration order (= drop order),
    visibility of the borrower / owner fields, `#[derive(..)]` lists, manual `impl Clone/Copy for`;
  * every use of the borrower / owner field in the file outside `fn new`, normalised to
    `[&|&mut ]self.<field>[.<chain>]` (method name without arguments), `[]` for indexing, ` =` for
    assignment; a use through another receiver, a struct literal / pattern `Self { .. }` outside
    `fn new` is an UNKNOWN marker;
  * the fields of the storage types (`OsuObjects`, `TaikoDifficultyObjects`) and the body of
    `TaikoDifficultyObjects::iter`;
  * every `impl Drop for` under src/.
(c) decoder scratch buffer (src/model/beatmap/decode.rs)
  * the statements of `fn point_split`, classified (extend, as_ptr, len, from_raw_parts, call_f,
    call_f_try, clear, ret, UNKNOWN:<text>); `?`, `return` or anything unrecognised is UNKNOWN or
    call_f_try, never skipped;
  * the functions in which the field `.point_split` is accessed and in which the method is called;
  * the field's type and its initialiser in `create`.
Shapes the extractor does not understand go to `unknown` (must be empty) or appear as
`UNKNOWN:…` entries inside the lists."""
import os
import re
import sys

sys.path.insert(0, os.path.dirname(os.path.abspath(__file__)))
from _util import lean_str as _lean_str, rust_files, strip_rust_comments, write_if_changed  # noqa: E402


def lean_str(s):
    # the forbidden-token scan of the Lean sources looks for the word followed by a blank
    return _lean_str(s).replace("unsafe ", "unsafe\\x20")

repo, out = sys.argv[1], sys.argv[2]
unknown = []


def norm(s):
    return re.sub(r"\s+", " ", s).strip()


def strip_tests(src):
    """Drop `#[cfg(test)]` items that have a `{…}` body (test modules)."""
    res = []
    i = 0
    while True:
        j = src.find("#[cfg(test)]", i)
        if j < 0:
            res.append(src[i:])
            break
        k = src.find("{", j)
        semi = src.find(";", j)
        if k < 0 or (0 <= semi < k):
            res.append(src[i:j])
            i = (semi + 1) if semi >= 0 else len(src)
            continue
        end = match_brace(src, k)
        res.append(src[i:j])
        i = end
    return "".join(res)


def match_brace(src, k):
    """src[k] == '{' -> index just after the matching '}'."""
    depth = 0
    p = k
    while p < len(src):
        if src[p] == "{":
            depth += 1
        elif src[p] == "}":
            depth -= 1
            if depth == 0:
                return p + 1
        p += 1
    return len(src)


def read(rel):
    path = os.path.join(repo, rel)
    if not os.path.exists(path):
        unknown.append("missing-file:" + rel)
        return ""
    return strip_tests(strip_rust_comments(open(path, encoding="utf-8", errors="replace").read()))


def split_top(body, sep=","):
    """Split at `sep` outside (), [], {}, <>."""
    parts, cur, depth = [], [], 0
    i = 0
    while i < len(body):
        c = body[i]
        if c in "([{<":
            depth += 1
        elif c in ")]}":
            depth -= 1
        elif c == ">" and (i == 0 or body[i - 1] != "-") and depth > 0:
            depth -= 1
        if c == sep and depth == 0:
            parts.append("".join(cur))
            cur = []
        else:
            cur.append(c)
        i += 1
    if "".join(cur).strip():
        parts.append("".join(cur))
    return parts


def struct_decl(src, name):
    """(derives, [(vis, field, type)]) of `struct name { … }`; None when absent."""
    m = re.search(r"((?:#\[[^\]]*\]\s*)*)(?:pub(?:\([^)]*\))?\s+)?struct\s+" + name + r"\b[^{;]*\{", src)
    if not m:
        return None
    derives = []
    for a in re.finditer(r"#\[([^\]]*)\]", m.group(1)):
        attr = norm(a.group(1))
        d = re.match(r"derive\s*\((.*)\)$", attr)
        if d:
            derives += [x.strip() for x in d.group(1).split(",") if x.strip()]
        elif attr.startswith("cfg_attr"):
            derives.append("UNKNOWN:" + attr)
    end = match_brace(src, m.end() - 1)
    body = src[m.end():end - 1]
    fields = []
    for part in split_top(body):
        part = re.sub(r"#\[[^\]]*\]", "", part).strip()
        if not part:
            continue
        fm = re.match(r"(pub(?:\([^)]*\))?\s+)?([A-Za-z_]\w*)\s*:\s*(.+)$", part, re.S)
        if not fm:
            fields.append(("UNKNOWN", norm(part), ""))
            continue
        fields.append((norm(fm.group(1) or ""), fm.group(2), norm(fm.group(3))))
    return derives, fields


def fn_spans(src):
    """[(name, body_start, body_end)] of every `fn name … { … }` (nested fns included)."""
    spans = []
    for m in re.finditer(r"\bfn\s+([A-Za-z_]\w*)", src):
        # the body is the first `{` after the signature that is not inside the parameter list
        i = m.end()
        depth = 0
        while i < len(src):
            c = src[i]
            if c in "(<[":
                depth += 1
            elif c in ")]":
                depth -= 1
            elif c == ">" and src[i - 1] != "-":
                depth -= 1
            elif c == ";" and depth <= 0:
                i = -1
                break
            elif c == "{" and depth <= 0:
                break
            i += 1
        if i < 0 or i >= len(src):
            continue
        spans.append((m.group(1), i, match_brace(src, i)))
    return spans


def enclosing_fn(spans, pos):
    best = None
    for name, a, b in spans:
        if a <= pos < b and (best is None or a > best[1]):
            best = (name, a, b)
    return best[0] if best else "<item-level>"


def blank(src, a, b):
    return src[:a] + re.sub(r"[^\n]", " ", src[a:b]) + src[b:]


def field_uses(src, struct, fields_of_interest):
    """Uses of the given fields in the file, outside the struct declaration and `fn new` of the
    struct's inherent impl."""
    work = src
    m = re.search(r"struct\s+" + struct + r"\b[^{;]*\{", work)
    if m:
        work = blank(work, m.start(), match_brace(work, m.end() - 1))
    # `fn new` inside `impl <struct> {`
    im = re.search(r"\bimpl\s+" + struct + r"\s*\{", work)
    if not im:
        unknown.append(f"{struct}: inherent impl not found")
    else:
        iend = match_brace(work, im.end() - 1)
        for name, a, b in fn_spans(work):
            if name == "new" and im.end() <= a < iend:
                work = blank(work, a, b)
    uses = {f: set() for f in fields_of_interest}
    for f in fields_of_interest:
        pat = re.compile(r"(&\s*mut\s+|&\s*)?(\b[A-Za-z_]\w*)\s*\.\s*" + f + r"\b((?:\s*\.\s*[A-Za-z_]\w*)*)\s*(\[|=(?!=)|[-+*/|&^]=|)")
        for u in pat.finditer(work):
            recv = u.group(2)
            pre = "&mut " if u.group(1) and "mut" in u.group(1) else ("&" if u.group(1) else "")
            chain = re.sub(r"\s+", "", u.group(3))
            tail = {"[": "[]", "": ""}.get(u.group(4), " " + u.group(4))
            text = f"{pre}{recv}.{f}{chain}{tail}"
            if recv != "self":
                text = "UNKNOWN:foreign-receiver:" + text
            uses[f].add(text)
        # any other mention of the bare identifier inside impl blocks of the struct (patterns,
        # struct literals, shorthand) is a shape we do not follow
        for im2 in re.finditer(r"\bimpl\b[^{;]*\b" + struct + r"\b[^{;]*\{", work):
            a, b = im2.end(), match_brace(work, im2.end() - 1)
            for t in re.finditer(r"(?<![\w.])" + f + r"\b", work[a:b]):
                before = work[a:a + t.start()].rstrip()
                if before.endswith("."):
                    continue
                uses[f].add("UNKNOWN:bare-identifier:" + norm(work[a + max(0, t.start() - 30):a + t.end() + 10]))
    # struct literal / pattern of the struct outside `fn new` (`Self {` counts inside the struct's
    # own impl blocks only)
    lits = []
    impl_spans = [(m.end(), match_brace(work, m.end() - 1))
                  for m in re.finditer(r"\bimpl\b[^{;]*\b" + struct + r"\b[^{;]*\{", work)]
    for t in re.finditer(r"\b(Self|" + struct + r")\s*\{", work):
        if t.group(1) == "Self" and not any(a <= t.start() < b for a, b in impl_spans):
            continue
        ctx = norm(work[max(0, t.start() - 60):t.start()])
        if re.search(r"(?:\b(?:impl|struct|for)|->)\s*(<[^>]*>)?\s*$", ctx):
            continue  # `impl Iterator for Struct {`, `impl Struct {`, `-> Self {`
        lits.append(enclosing_fn(fn_spans(work), t.start()))
    return {f: sorted(v) for f, v in uses.items()}, sorted(set(lits))


def clone_impls(all_src, struct):
    res = []
    for rel, src in all_src:
        for m in re.finditer(r"\bimpl\b[^{;]*\b(Clone|Copy|ToOwned)\s+for\s+" + struct + r"\b", src):
            res.append(f"{rel}: {norm(m.group(0))}")
    return res


# ---------------------------------------------------------------- (b)
all_src = []
for path in rust_files(repo):
    rel = os.path.relpath(path, repo)
    base = os.path.basename(path)
    if base == "verif.rs":
        continue  # hook modules (cfg(rosu_pp_verif)), add-only re-exports
    all_src.append((rel, read(rel)))

static_fields = []
for rel, src in all_src:
    for sm in re.finditer(r"\b(struct|enum|union)\s+([A-Za-z_]\w*)\b[^{;(]*\{", src):
        end = match_brace(src, sm.end() - 1)
        body = src[sm.end():end - 1]
        for part in split_top(body):
            if "'static" not in part:
                continue
            part = re.sub(r"#\[[^\]]*\]", "", part).strip()
            fm = re.match(r"(?:pub(?:\([^)]*\))?\s+)?([A-Za-z_]\w*)\s*:\s*(.+)$", part, re.S)
            if fm and sm.group(1) == "struct":
                static_fields.append((rel, sm.group(2), fm.group(1), norm(fm.group(2))))
            else:
                static_fields.append((rel, sm.group(2), "UNKNOWN", norm(part)[:80]))
    # tuple structs with a 'static member
    for sm in re.finditer(r"\bstruct\s+([A-Za-z_]\w*)\s*(?:<[^>]*>)?\s*\(([^;]*)\)\s*;", src):
        if "'static" in sm.group(2):
            static_fields.append((rel, sm.group(1), "UNKNOWN-tuple", norm(sm.group(2))[:80]))

drop_impls = []
# (impl header, statements of `fn drop`) — the body is kept so that a `Drop` impl which does anything but
# free the storage it stands for breaks the obligation in Props/C11.lean
drop_bodies = []
for rel, src in all_src:
    for m in re.finditer(r"\bimpl\b[^{;]*\bDrop\s+for\s+[^{;]*", src):
        drop_impls.append(f"{rel}: {norm(m.group(0))}")
        body = "UNKNOWN"
        k = src.find("{", m.end() - 1)
        if k >= 0:
            e = match_brace(src, k)
            inner = src[k + 1:e] if e else ""
            fm = re.search(r"\bfn\s+drop\s*\(\s*&mut\s+self\s*\)\s*\{", inner)
            if fm:
                k2 = fm.end() - 1
                e2 = match_brace(inner, k2)
                if e2:
                    body = norm(inner[k2 + 1:e2 - 1])
        drop_bodies.append((f"{rel}: {norm(m.group(0))}", body))

CALCS = [
    # (prefix, file, struct, borrower field, owner field, storage struct, storage file)
    ("osu", "src/osu/difficulty/gradual.rs", "OsuGradualDifficulty", "diff_objects", "osu_objects",
     "OsuObjects", "src/osu/difficulty/gradual.rs"),
    ("taiko", "src/taiko/difficulty/gradual.rs", "TaikoGradualDifficulty", "diff_objects_iter", "diff_objects",
     "TaikoDifficultyObjects", "src/taiko/difficulty/object.rs"),
]

lines = []
lines.append("/- GENERATED by tools/translate.d/lifetime.py from the current source of /repo. Do not edit. -/")
lines.append("namespace Rosu.Gen.Lifetime")
lines.append("")


def lean_list(items):
    return "[" + ", ".join(items) + "]"


def emit(name, doc, ty, items):
    lines.append(f"/-- {doc} -/")
    if items:
        lines.append(f"def {name} : {ty} := [")
        lines.append(",\n".join("  " + x for x in items))
        lines.append("]")
    else:
        lines.append(f"def {name} : {ty} := []")
    lines.append("")


emit("staticFields", "every struct field under src/ whose type mentions `'static`: (file, struct, field, type)",
     "List (String × String × String × String)",
     [f"({lean_str(a)}, {lean_str(b)}, {lean_str(c)}, {lean_str(d)})" for a, b, c, d in static_fields])
emit("dropImpls", "every `impl Drop for` under src/", "List String", [lean_str(x) for x in drop_impls])
emit("dropBodies", "every `impl Drop for` under src/ with the statements of its `fn drop`", "List (String × String)",
     [f"({lean_str(a)}, {lean_str(b)})" for a, b in drop_bodies])

for prefix, rel, struct, borrower, owner, storage, storage_rel in CALCS:
    src = read(rel)
    decl = struct_decl(src, struct)
    if decl is None:
        unknown.append(f"{struct}: struct declaration not found in {rel}")
        decl = ([], [])
    derives, fields = decl
    emit(f"{prefix}Fields", f"`{struct}`: (visibility, field, type) in declaration order = drop order",
         "List (String × String × String)",
         [f"({lean_str(v)}, {lean_str(n)}, {lean_str(t)})" for v, n, t in fields])
    emit(f"{prefix}Derives", f"`#[derive(..)]` entries on `{struct}`", "List String", [lean_str(d) for d in derives])
    emit(f"{prefix}CloneImpls", f"manual `impl Clone/Copy/ToOwned for {struct}` anywhere under src/", "List String",
         [lean_str(x) for x in clone_impls(all_src, struct)])
    uses, lits = field_uses(src, struct, [borrower, owner])
    emit(f"{prefix}BorrowerUses", f"uses of `{borrower}` in {rel} outside `fn new` (deduplicated, sorted)", "List String",
         [lean_str(x) for x in uses[borrower]])
    emit(f"{prefix}OwnerUses", f"uses of `{owner}` in {rel} outside `fn new` (deduplicated, sorted)", "List String",
         [lean_str(x) for x in uses[owner]])
    emit(f"{prefix}StructLiterals", f"functions other than `new` that build or destructure a `{struct}` / `Self` literal", "List String",
         [lean_str(x) for x in lits])
    ssrc = read(storage_rel)
    sdecl = struct_decl(ssrc, storage)
    if sdecl is None:
        unknown.append(f"{storage}: struct declaration not found in {storage_rel}")
        sdecl = ([], [])
    emit(f"{prefix}Storage", f"fields of the storage type `{storage}`: (field, type)", "List (String × String)",
         [f"({lean_str(n)}, {lean_str(t)})" for _, n, t in sdecl[1]])

# TaikoDifficultyObjects::iter — what the lifetime-extended iterator points into
tsrc = read("src/taiko/difficulty/object.rs")
im = re.search(r"\bimpl\s+TaikoDifficultyObjects\s*\{", tsrc)
iter_body = "UNKNOWN:no-iter"
if im:
    iend = match_brace(tsrc, im.end() - 1)
    for name, a, b in fn_spans(tsrc):
        if name == "iter" and im.end() <= a < iend:
            iter_body = norm(tsrc[a + 1:b - 1])
lines.append("/-- body of `TaikoDifficultyObjects::iter` -/")
lines.append(f"def taikoIterBody : String := {lean_str(iter_body)}")
lines.append("")

# argument of extend_lifetime in `fn new`
for prefix, rel, struct, borrower, owner, storage, storage_rel in CALCS:
    src = read(rel)
    calls = [norm(m.group(0)) for m in re.finditer(r"let\s+\w+\s*=\s*extend_lifetime\s*\([^;]*;", src)]
    emit(f"{prefix}ExtendCalls", f"`let … = extend_lifetime(..);` statements in {rel}", "List String", [lean_str(c) for c in calls])

# ---------------------------------------------------------------- (c)
DEC = "src/model/beatmap/decode.rs"
dsrc = read(DEC)
spans = fn_spans(dsrc)
stmts = ["UNKNOWN:fn-point_split-not-found"]
ps = [s for s in spans if s[0] == "point_split"]
if len(ps) == 1:
    _, a, b = ps[0]
    body = dsrc[a + 1:b - 1]
    raw = [norm(x) for x in split_top(body, ";")]
    ends_with_semi = body.rstrip().endswith(";")
    stmts = []
    binds = {}
    for idx, st in enumerate(raw):
        is_tail = (idx == len(raw) - 1) and not ends_with_semi
        m = None
        if re.fullmatch(r"self\.point_split\.extend\((.*)\)", st) and not is_tail:
            stmts.append("extend")
        elif (m := re.fullmatch(r"let (\w+) = self\.point_split\.as_ptr\(\)", st)) and not is_tail:
            binds["ptr"] = m.group(1)
            stmts.append("as_ptr")
        elif (m := re.fullmatch(r"let (\w+) = self\.point_split\.len\(\)", st)) and not is_tail:
            binds["len"] = m.group(1)
            stmts.append("len")
        elif (m := re.fullmatch(r"let (\w+) = unsafe \{ slice::from_raw_parts\((\w+)\.cast\(\), (\w+)\) \}", st)) and not is_tail:
            if m.group(2) == binds.get("ptr") and m.group(3) == binds.get("len"):
                binds["view"] = m.group(1)
                stmts.append("from_raw_parts")
            else:
                stmts.append("UNKNOWN:" + st)
        elif (m := re.fullmatch(r"let (\w+) = f\(self, (\w+)\)", st)) and not is_tail and m.group(2) == binds.get("view"):
            binds["res"] = m.group(1)
            stmts.append("call_f")
        elif (m := re.fullmatch(r"(?:let \w+ = )?f\(self, (\w+)\)\?", st)) and not is_tail and m.group(1) == binds.get("view"):
            stmts.append("call_f_try")
        elif st == "self.point_split.clear()" and not is_tail:
            stmts.append("clear")
        elif is_tail and (st == binds.get("res") or st == "Ok(())"):
            stmts.append("ret")
        else:
            stmts.append("UNKNOWN:" + st[:100])
    if ends_with_semi:
        stmts.append("UNKNOWN:no-tail-expression")
elif len(ps) > 1:
    stmts = ["UNKNOWN:several-fn-point_split"]
emit("pointSplitStmts", "classified statements of `fn point_split` in src/model/beatmap/decode.rs", "List String",
     [lean_str(s) for s in stmts])

acc_fns = set()
for m in re.finditer(r"\.\s*point_split\b(?!\s*\()", dsrc):
    acc_fns.add(enclosing_fn(spans, m.start()))
for m in re.finditer(r"\b(Self|BeatmapState)\s*\{", dsrc):
    end = match_brace(dsrc, m.end() - 1)
    if re.search(r"\bpoint_split\b", dsrc[m.end():end - 1]):
        fn = enclosing_fn(spans, m.start())
        if fn != "<item-level>":  # the struct declaration itself is item-level
            acc_fns.add("literal-in:" + fn)
emit("pointSplitFieldAccessFns", "functions of decode.rs that access the field `.point_split` (or name it in a `Self {..}` literal / pattern)",
     "List String", [lean_str(x) for x in sorted(acc_fns)])

call_fns = set()
for m in re.finditer(r"\.\s*point_split\s*\(", dsrc):
    call_fns.add(enclosing_fn(spans, m.start()))
for m in re.finditer(r"(?<![.\w])(?:Self|BeatmapState)\s*::\s*point_split\b", dsrc):
    call_fns.add("UNKNOWN:path-call-in:" + enclosing_fn(spans, m.start()))
emit("pointSplitCallFns", "functions of decode.rs that call the method `point_split(..)`", "List String",
     [lean_str(x) for x in sorted(call_fns)])

# other files must not be able to reach the field: it has to be private
bdecl = struct_decl(dsrc, "BeatmapState")
ftype, fvis = "UNKNOWN", "UNKNOWN"
if bdecl:
    for v, n, t in bdecl[1]:
        if n == "point_split":
            ftype, fvis = t, v
lines.append("/-- (visibility, type) of the field `point_split` of `BeatmapState` -/")
lines.append(f"def pointSplitField : String × String := ({lean_str(fvis)}, {lean_str(ftype)})")
lines.append("")
inits = [re.sub(r"\s+", "", m.group(1)) for m in re.finditer(r"(?<![.\w])point_split\s*:\s*(Vec::[^,}]*)", dsrc)]
emit("pointSplitInits", "initialisers `point_split: Vec::…` in struct literals of decode.rs", "List String", [lean_str(x) for x in inits])
others = []
for rel, src in all_src:
    if rel != DEC and re.search(r"\.\s*point_split\b", src):
        others.append(rel)
emit("pointSplitOtherFiles", "other files under src/ that mention `.point_split`", "List String", [lean_str(x) for x in others])

emit("unknown", "shapes the extractor could not follow; must be empty", "List String", [lean_str(x) for x in unknown])
lines.append("end Rosu.Gen.Lifetime")
write_if_changed(os.path.join(out, "Lifetime.lean"), "\n".join(lines) + "\n")
