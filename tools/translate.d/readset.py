#!/usr/bin/env python3
"""Gen/ReadSet.lean: which `Difficulty` fields can influence each mode's results.

Extracted (text level, comments / cfg(test) / hook items removed, whitespace normalised):

* `difficultyFields`      the fields of `struct Difficulty` (src/any/difficulty/mod.rs);
* `difficultyWriters`     every `-> Self` method of `impl Difficulty`: the fields it assigns;
* `difficultyReaders`     every other method of `impl Difficulty` that mentions `self.<field>` (or
                          destructures `self`): the fields it reads — these are the accessors;
* `modeAccessorCalls`     per mode directory src/<mode>/**: the accessors called (by method name);
* `sharedAccessorSites`   (file, enclosing fn, accessor) of accessor calls outside the mode
                          directories and outside `impl Difficulty` itself;
* `builderFromDifficulty` `BeatmapAttributesBuilder::difficulty`: builder field ↦ accessors in the
                          expression that fills it;
* `hitWindowsFlow`, `buildFlow`  a conservative let-level data flow of `hit_windows()` / `build()`:
                          output field ↦ sources (`self.<builder field>`, whole `self`, a field of
                          the `HitWindows` returned by `self.hit_windows()`, or all of them);
* `modeBuilderUses`       per mode: each `….attributes().difficulty(..).hit_windows()/build()` use
                          and the result fields it consumes (`*` = the whole value);
* `readSetUnknown`        every shape the extractor did not understand (must be empty).

Used by Model/ReadSet.lean and Props/C18.lean.
"""
import os
import re
import sys

sys.path.insert(0, os.path.dirname(os.path.abspath(__file__)))
from _rust import (clean_file, direct_fns, find_fns, impl_body, match_close, mode_files, all_files, norm,  # noqa: E402
                   split_statements, split_top)
from _util import lean_str, write_if_changed  # noqa: E402

repo, out = sys.argv[1], sys.argv[2]
MODES = ["osu", "taiko", "catch", "mania"]
unknown = []

# ---------------------------------------------------------------- impl Difficulty
DIFF_REL = "src/any/difficulty/mod.rs"
dsrc = clean_file(os.path.join(repo, DIFF_REL))
fields = []
m = re.search(r"\bpub\s+struct\s+Difficulty\s*\{", dsrc)
if m:
    body = dsrc[m.end():match_close(dsrc, m.end() - 1)]
    for part in split_top(re.sub(r"#\[[^\]]*\]", "", body)):
        fm = re.match(r"(?:pub(?:\([^)]*\))?\s+)?(\w+)\s*:", part)
        if fm:
            fields.append(fm.group(1))
        else:
            unknown.append("difficulty-struct-field:" + norm(part)[:60])
else:
    unknown.append("no-struct-Difficulty")

writers, readers = [], []
ib = impl_body(dsrc, r"\bimpl\s+Difficulty\s*\{")
if ib is None:
    unknown.append("no-impl-Difficulty")
    ib = ""
for name, sig, body in direct_fns(ib):
    nb = norm(body)
    nsig = norm(sig)
    takes_self = re.search(r"\((?:&|mut |&mut )?self\b", nsig) is not None
    if not takes_self:
        continue  # `new`
    if nsig.endswith("->Self"):
        ws = set(re.findall(r"\bself\.(\w+)=(?!=)", nb))
        for lit in re.finditer(r"\bSelf\{", nb):
            inner = nb[lit.end():match_close(nb, lit.end() - 1)]
            for part in split_top(inner):
                fm = re.match(r"(\w+)(?::|$)", part)
                if part.startswith(".."):
                    continue
                if fm:
                    ws.add(fm.group(1))
                else:
                    unknown.append(f"writer-{name}:" + part[:40])
        bad = [w for w in ws if w not in fields]
        if bad:
            unknown.append(f"writer-{name}-non-field:" + ",".join(sorted(bad)))
        writers.append((name, sorted(ws, key=fields.index) if not bad else sorted(ws)))
        continue
    rs = set(x for x in re.findall(r"\bself\.(\w+)\b(?!\()", nb) if x in fields)
    dm = re.search(r"\bletSelf\{([^}]*)\}=self\b", nb)
    if dm:
        for part in split_top(dm.group(1)):
            if part.startswith(".."):
                continue
            fm = re.match(r"(\w+)", part)
            if fm and fm.group(1) in fields:
                rs.add(fm.group(1))
            else:
                unknown.append(f"reader-{name}-pattern:" + part[:40])
    # `self` used as a whole value (passed on) is fine for dispatchers: M::difficulty(self, map)
    if rs:
        readers.append((name, sorted(rs, key=fields.index)))
reader_names = [r for r, _ in readers]


def accessor_calls(nsrc):
    """Accessor method names called in normalised source text."""
    found = []
    for name in reader_names:
        if name == "inspect":
            pat = r"\.inspect\(\)"  # Iterator::inspect takes a closure
        else:
            pat = r"\." + re.escape(name) + r"\("
        if re.search(pat, nsrc):
            found.append(name)
    return found


# ---------------------------------------------------------------- accessor calls per mode / shared
mode_calls = []
for mode in MODES:
    names = set()
    for path in mode_files(repo, mode):
        ns = norm(clean_file(path))
        names.update(accessor_calls(ns))
        if re.search(r"\bBeatmapAttributesBuilder::(new|from|default)\b", ns):
            unknown.append(f"{mode}:builds-attribute-builder-directly:" + os.path.relpath(path, repo))
        if "InspectDifficulty" in ns:
            unknown.append(f"{mode}:mentions-InspectDifficulty:" + os.path.relpath(path, repo))
    mode_calls.append((mode, [n for n in reader_names if n in names]))

shared_sites = []
for path in all_files(repo):
    rel = os.path.relpath(path, repo)
    if any(rel.startswith(f"src/{m}/") for m in MODES):
        continue
    src = clean_file(path)
    seen_in_fn = set()
    for fname, sig, body in find_fns(src):
        if rel == DIFF_REL and fname in reader_names + [w for w, _ in writers]:
            continue
        for a in accessor_calls(norm(body)):
            seen_in_fn.add((fname, a))
    # calls outside any fn body (should not exist)
    for a in accessor_calls(norm(src)):
        if not any(x == a for _, x in seen_in_fn):
            if not (rel == DIFF_REL):
                seen_in_fn.add(("<top-level>", a))
    for fname, a in sorted(seen_in_fn):
        shared_sites.append((rel, fname, a))

# ---------------------------------------------------------------- the attribute builder
ATTR_REL = "src/model/beatmap/attributes.rs"
asrc = clean_file(os.path.join(repo, ATTR_REL))
bimpl = impl_body(asrc, r"\bimpl\s+BeatmapAttributesBuilder\s*\{") or ""
bfns = {name: (sig, body) for name, sig, body in direct_fns(bimpl)}
builder_fields = []
m = re.search(r"\bpub\s+struct\s+BeatmapAttributesBuilder\s*\{", asrc)
if m:
    for part in split_top(re.sub(r"#\[[^\]]*\]", "", asrc[m.end():match_close(asrc, m.end() - 1)])):
        fm = re.match(r"(?:pub(?:\([^)]*\))?\s+)?(\w+)\s*:", part)
        if fm:
            builder_fields.append(fm.group(1))
else:
    unknown.append("no-struct-BeatmapAttributesBuilder")


def struct_fields(name):
    mm = re.search(r"\bpub\s+struct\s+" + name + r"\s*\{", asrc)
    if not mm:
        unknown.append("no-struct-" + name)
        return []
    res = []
    for part in split_top(re.sub(r"#\[[^\]]*\]", "", asrc[mm.end():match_close(asrc, mm.end() - 1)])):
        fm = re.match(r"(?:pub(?:\([^)]*\))?\s+)?(\w+)\s*:", part)
        if fm:
            res.append(fm.group(1))
    return res


hw_fields = struct_fields("HitWindows")
ba_fields = struct_fields("BeatmapAttributes")

builder_from_difficulty = []
if "difficulty" in bfns:
    nb = norm(bfns["difficulty"][1])
    mm = re.fullmatch(r"Self\{(.*)\}", nb)
    if not mm:
        unknown.append("builder-difficulty-body:" + nb[:60])
    else:
        param = re.search(r"\bself,(\w+):&Difficulty", norm(bfns["difficulty"][0]))
        pname = param.group(1) if param else "difficulty"
        if not param:
            unknown.append("builder-difficulty-signature:" + norm(bfns["difficulty"][0])[:60])
        for part in split_top(mm.group(1)):
            if part.startswith(".."):
                unknown.append("builder-difficulty-rest-pattern")
                continue
            fm = re.match(r"(\w+)(?::(.*))?$", part)
            if not fm:
                unknown.append("builder-difficulty-field:" + part[:40])
                continue
            expr = fm.group(2) or fm.group(1)
            accs = accessor_calls(expr)
            # the Difficulty parameter used other than through an accessor call
            rest = expr
            for a in reader_names:
                rest = re.sub(r"\b" + pname + r"\." + re.escape(a) + r"\(", "", rest)
            if re.search(r"\b" + pname + r"\b", rest):
                unknown.append("builder-difficulty-whole-value-use:" + fm.group(1))
            builder_from_difficulty.append((fm.group(1), accs))
else:
    unknown.append("no-fn-BeatmapAttributesBuilder::difficulty")


def flow(fn_name, result_struct, result_fields):
    """Conservative let-level data flow of a `&self` method: output field -> set of sources.
    Sources: ('self', f) | ('selfAll',) | ('hw', f) | ('hwAll',)."""
    if fn_name not in bfns:
        unknown.append("no-fn-BeatmapAttributesBuilder::" + fn_name)
        return []
    env = {}
    stmts = split_statements(bfns[fn_name][1])

    def deps(expr, skip=()):
        ne = norm(expr)
        res = set()
        # self.field / self.method() / bare self
        for mm in re.finditer(r"\bself\b(?:\.(\w+)(\()?)?", ne):
            if mm.group(1) is None:
                res.add(("selfAll",))
            elif mm.group(2):
                if mm.group(1) == "hit_windows":
                    res.add(("hwAll",))
                else:
                    res.add(("selfAll",))  # some other &self method: may read anything
            elif mm.group(1) in builder_fields:
                res.add(("self", mm.group(1)))
            else:
                res.add(("selfAll",))
        for ident in set(re.findall(r"(?<![.\w])([a-z_]\w*)\b(?!::)", ne)):
            if ident in env and ident not in skip:
                res |= env[ident]
        return res

    outputs = []
    for idx, st in enumerate(stmts):
        ns = norm(st)
        last = idx == len(stmts) - 1
        mlet = re.match(r"let\b ?(.*?)=(?!=)(.*)$", ns, re.S)
        if mlet:
            pat, rhs = mlet.group(1), mlet.group(2)
            pat = re.sub(r":[^={(]*$", "", pat) if not pat.endswith("}") and not pat.endswith(")") else pat
            d = deps(rhs)
            ms = re.fullmatch(r"(\w+)\{(.*)\}", pat)
            if re.fullmatch(r"(?:mut )?(\w+)", pat):
                env[re.fullmatch(r"(?:mut )?(\w+)", pat).group(1)] = d
            elif pat.startswith("(") and pat.endswith(")"):
                for nm in split_top(pat[1:-1]):
                    nmm = re.fullmatch(r"(?:mut )?(\w+)", nm)
                    if nmm:
                        env[nmm.group(1)] = set(d)
                    elif nm != "_":
                        unknown.append(f"{fn_name}:tuple-pattern:" + nm[:30])
            elif ms:
                # struct destructuring; field-precise when the value is exactly the HitWindows
                precise = ms.group(1) == "HitWindows" and d == {("hwAll",)}
                for part in split_top(ms.group(2)):
                    if part.startswith(".."):
                        continue
                    pm = re.fullmatch(r"(\w+)(?::(?:mut )?(\w+))?", part)
                    if not pm:
                        unknown.append(f"{fn_name}:struct-pattern:" + part[:30])
                        continue
                    bound = pm.group(2) or pm.group(1)
                    if bound == "_":
                        continue
                    env[bound] = {("hw", pm.group(1))} if precise else set(d)
            else:
                unknown.append(f"{fn_name}:let-pattern:" + pat[:40])
            continue
        mstruct = re.fullmatch(result_struct + r"\{(.*)\}", ns, re.S)
        if last and mstruct:
            for part in split_top(mstruct.group(1)):
                pm = re.match(r"(\w+)(?::(.*))?$", part, re.S)
                if not pm or part.startswith(".."):
                    unknown.append(f"{fn_name}:result-field:" + part[:30])
                    continue
                outputs.append((pm.group(1), deps(pm.group(2) if pm.group(2) is not None else pm.group(1))))
            continue
        if last:
            unknown.append(f"{fn_name}:result-expression:" + ns[:50])
            continue
        # assignment statements / `if … { x op= … }`: every assigned name depends on the whole statement
        assigned = set(re.findall(r"(?<![.\w])([a-z_]\w*)(?:[-+*/%]|<<|>>)?=(?![=>])", ns))
        assigned = {a for a in assigned if a in env}
        if not assigned:
            unknown.append(f"{fn_name}:statement:" + ns[:50])
            continue
        d = deps(st)
        for a in assigned:
            env[a] = env[a] | d
    got = [f for f, _ in outputs]
    if sorted(got) != sorted(result_fields):
        unknown.append(f"{fn_name}:result-fields:{','.join(got)}!={','.join(result_fields)}")
    return outputs


hw_flow = flow("hit_windows", "HitWindows", hw_fields)
build_flow = flow("build", "BeatmapAttributes", ba_fields)

# ---------------------------------------------------------------- uses of the builder in the modes
builder_uses = []
for mode in MODES:
    uses = set()
    for path in mode_files(repo, mode):
        rel = os.path.relpath(path, repo)
        ns = norm(clean_file(path))
        for mm in re.finditer(r"\.difficulty\(", ns):
            # statement around the call: back to the previous `;` at brace depth 0 or the
            # enclosing block's `{`
            s0 = mm.start()
            bd = 0
            while s0 > 0:
                ch = ns[s0 - 1]
                if ch == "}":
                    if bd == 0 and re.match(r"[A-Za-z_]", ns[s0:s0 + 1]):
                        break  # end of a preceding block statement
                    bd += 1
                elif ch == "{":
                    if bd == 0:
                        break
                    bd -= 1
                elif ch == ";" and bd == 0:
                    break
                s0 -= 1
            before = ns[s0:mm.start()]
            close = match_close(ns, mm.end() - 1, "(", ")")
            after = ns[close + 1:]
            if before.endswith(".attributes()"):
                am = re.match(r"\.(\w+)\(\)", after)
                if not am or am.group(1) not in ("hit_windows", "build"):
                    unknown.append(f"{mode}:builder-use-without-hit_windows/build:{rel}")
                    uses.add(("?", ("*",)))
                    continue
                kind = am.group(1)
                tail = after[am.end():]
                fm = re.match(r"\.(\w+)\b(?!\()", tail)
                pm = re.fullmatch(r"let ?(HitWindows|BeatmapAttributes)\{(.*)\}=.*", before, re.S)
                if fm:
                    uses.add((kind, (fm.group(1),)))
                elif pm and tail.startswith(";"):
                    got = []
                    for part in split_top(pm.group(2)):
                        if part.startswith(".."):
                            continue
                        qm = re.fullmatch(r"(\w+)(?::(?:mut )?(\w+))?", part)
                        if not qm:
                            got = ["*"]
                            break
                        if (qm.group(2) or qm.group(1)) != "_":
                            got.append(qm.group(1))
                    uses.add((kind, tuple(got)))
                else:
                    uses.add((kind, ("*",)))
            elif ".performance()" in before or "Performance::" in before or re.search(r"\bperformance\b", before):
                pass  # handing the Difficulty to a performance builder: no field is read here
            else:
                unknown.append(f"{mode}:difficulty()-call-of-unknown-receiver:{rel}:" + before[-40:])
    builder_uses.append((mode, sorted(uses)))

# ---------------------------------------------------------------- output


def src_lean(s):
    if s[0] == "self":
        return f".self {lean_str(s[1])}"
    if s[0] == "hw":
        return f".hw {lean_str(s[1])}"
    return "." + s[0]


def strs(xs):
    return "[" + ", ".join(lean_str(x) for x in xs) + "]"


L = []
L.append("/- GENERATED by tools/translate.d/readset.py from /repo/src/any/difficulty/mod.rs,")
L.append("   /repo/src/model/beatmap/attributes.rs and /repo/src/{osu,taiko,catch,mania}/** — do not edit. -/")
L.append("namespace Rosu.Gen.ReadSet")
L.append("")
L.append("/-- Where a value inside `hit_windows()` / `build()` comes from. -/")
L.append("inductive Src where")
L.append("  | self (field : String)   -- `self.<field>` of the attribute builder")
L.append("  | selfAll                 -- the builder as a whole / a `&self` method other than `hit_windows`")
L.append("  | hw (field : String)     -- a field of the `HitWindows` returned by `self.hit_windows()`")
L.append("  | hwAll                   -- that value as a whole")
L.append("deriving Repr, DecidableEq")
L.append("")
L.append("/-- fields of `struct Difficulty` -/")
L.append(f"def difficultyFields : List String := {strs(fields)}")
L.append("")
L.append("/-- `-> Self` methods of `impl Difficulty`: the fields each assigns -/")
L.append("def difficultyWriters : List (String × List String) := [")
L.append(",\n".join(f"  ({lean_str(n)}, {strs(fs)})" for n, fs in writers))
L.append("]")
L.append("")
L.append("/-- the other methods of `impl Difficulty` that touch a field (the accessors): fields read -/")
L.append("def difficultyReaders : List (String × List String) := [")
L.append(",\n".join(f"  ({lean_str(n)}, {strs(fs)})" for n, fs in readers))
L.append("]")
L.append("")
L.append("/-- accessors called anywhere under src/<mode>/ -/")
L.append("def modeAccessorCalls : List (String × List String) := [")
L.append(",\n".join(f"  ({lean_str(mo.capitalize())}, {strs(ns)})" for mo, ns in mode_calls))
L.append("]")
L.append("")
L.append("/-- accessor calls outside the mode directories: (file, enclosing fn, accessor) -/")
L.append("def sharedAccessorSites : List (String × String × String) := [")
L.append(",\n".join(f"  ({lean_str(a)}, {lean_str(b)}, {lean_str(c)})" for a, b, c in shared_sites))
L.append("]")
L.append("")
L.append("/-- fields of `BeatmapAttributesBuilder`, `HitWindows`, `BeatmapAttributes` -/")
L.append(f"def builderFields : List String := {strs(builder_fields)}")
L.append(f"def hitWindowsFields : List String := {strs(hw_fields)}")
L.append(f"def attributesFields : List String := {strs(ba_fields)}")
L.append("")
L.append("/-- `BeatmapAttributesBuilder::difficulty`: builder field ↦ accessors in its expression -/")
L.append("def builderFromDifficulty : List (String × List String) := [")
L.append(",\n".join(f"  ({lean_str(n)}, {strs(a)})" for n, a in builder_from_difficulty))
L.append("]")
L.append("")
for nm, fl, doc in (("hitWindowsFlow", hw_flow, "`hit_windows()`: field of the returned `HitWindows` ↦ sources"),
                    ("buildFlow", build_flow, "`build()`: field of the returned `BeatmapAttributes` ↦ sources")):
    L.append(f"/-- {doc} -/")
    L.append(f"def {nm} : List (String × List Src) := [")
    L.append(",\n".join(f"  ({lean_str(f)}, [" + ", ".join(src_lean(s) for s in sorted(d)) + "])" for f, d in fl))
    L.append("]")
    L.append("")
L.append("/-- per mode: (`hit_windows` | `build`, fields of the result that are consumed; `*` = whole value) -/")
L.append("def modeBuilderUses : List (String × List (String × List String)) := [")
L.append(",\n".join(f"  ({lean_str(mo.capitalize())}, [" + ", ".join(f"({lean_str(k)}, {strs(fs)})" for k, fs in us) + "])" for mo, us in builder_uses))
L.append("]")
L.append("")
L.append("/-- shapes the extractor did not understand (must be empty) -/")
L.append(f"def readSetUnknown : List String := {strs(unknown)}")
L.append("")
L.append("end Rosu.Gen.ReadSet")
write_if_changed(os.path.join(out, "ReadSet.lean"), "\n".join(L) + "\n")
