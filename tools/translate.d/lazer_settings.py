#!/usr/bin/env python3
"""Gen/LazerSettings.lean: the arms of the `GameMods` accessors that read *settings* of lazer mods
(src/model/mods.rs): `reflection` (Mirror), `no_slider_head_acc` (Classic), `hardrock_offsets`
(DifficultyAdjustCatch), `scroll_speed` (DifficultyAdjustTaiko), `random_seed` (Random).

Per accessor:
* `lazerArms`      the arms `pattern => value` of the `find_map(|m| match m { … })` closure applied to
                   the lazer mods, normalised text (a nested `match` stays inside the value);
* `lazerTail`      what is applied to the `find_map` result (`.unwrap_or(!lazer)`, `.flatten()`, …);
* `otherArms`      how the non-lazer representations are handled (match arms or the `let … else` guard);
* `lazerSettingsUnknown`  shapes not understood (must be empty).

Used by Props/C08.lean (`lazer_setting_arms_as_modelled`).
"""
import os
import re
import sys

sys.path.insert(0, os.path.dirname(os.path.abspath(__file__)))
from _rust import clean_file, find_fns, match_close, norm, split_top  # noqa: E402
from _util import lean_str, write_if_changed  # noqa: E402

repo, out = sys.argv[1], sys.argv[2]
FNS = ["reflection", "no_slider_head_acc", "hardrock_offsets", "scroll_speed", "random_seed"]
unknown = []


def strs(xs):
    return "[" + ", ".join(lean_str(x) for x in xs) + "]"


def split_arms(inner):
    """`pat=>value,pat=>{…}pat=>value` -> [(pat, value)]"""
    arms = []
    i = 0
    n = len(inner)
    while i < n:
        arrow = inner.find("=>", i)
        if arrow < 0:
            if inner[i:].strip(","):
                arms.append(("?", inner[i:]))
            break
        pat = inner[i:arrow]
        j = arrow + 2
        depth = 0
        k = j
        while k < n:
            c = inner[k]
            if c in "([{":
                depth += 1
            elif c in ")]}":
                depth -= 1
                if depth == 0 and c == "}" and k + 1 < n and inner[k + 1] != "," and inner[j] == "{":
                    k += 1
                    break
            elif c == "," and depth == 0:
                break
            k += 1
        val = inner[j:k]
        # `pat => { expr }` is the same arm as `pat => expr`
        while val.startswith("{") and match_close(val, 0) == len(val) - 1 and ";" not in val:
            val = val[1:-1]
        arms.append((pat, val))
        i = k + 1 if k < n and inner[k] == "," else k
    return arms


path = os.path.join(repo, "src", "model", "mods.rs")
src = clean_file(path) if os.path.exists(path) else ""
rows = []
for fn in FNS:
    found = [(sg, b) for n, sg, b in find_fns(src, fn) if "&self" in norm(sg)]
    if len(found) != 1:
        unknown.append(f"{fn}:{len(found)}-definitions")
        rows.append((fn, [("?", "?")], "?", [("?", "?")]))
        continue
    nb = norm(found[0][1])
    fm = list(re.finditer(r"\.find_map\(\|(\w+)\|match \1\{", nb))
    if len(fm) != 1:
        unknown.append(f"{fn}:{len(fm)}-find_map-closures")
        rows.append((fn, [("?", "?")], "?", [("?", nb[:80])]))
        continue
    m0 = fm[0]
    close = match_close(nb, m0.end() - 1)
    arms = split_arms(nb[m0.end():close])
    # the closure's closing paren, then the tail up to the end of the expression
    after = nb[close + 1:]
    if not after.startswith(")"):
        unknown.append(f"{fn}:closure-end")
    tail = after[1:]
    tm = re.match(r"((?:\.\w+\((?:[^()]|\([^()]*\))*\))*)", tail)
    lazer_tail = tm.group(1) if tm else ""
    # what surrounds it: everything before the receiver of find_map and after the tail, with the lazer part elided
    recv = re.search(r"(\w+)\.iter\(\)$", nb[:m0.start()])
    start = recv.start() if recv else m0.start()
    if not recv:
        unknown.append(f"{fn}:find_map-receiver")
    context = nb[:start] + "<LAZER>" + tail[len(lazer_tail):]
    rows.append((fn, arms, lazer_tail, context))


# ---- structured tables (what Model/Mods.lean interprets; proved equal in Props/C08.lean) ----
MODES = {"Osu": ".osu", "Taiko": ".taiko", "Catch": ".catch", "Mania": ".mania"}
REFL = {"None": ".none", "Vertical": ".vertical", "Horizontal": ".horizontal", "Both": ".both"}
names_src = open(os.path.join(os.path.dirname(os.path.abspath(__file__)), "..", "..", "lean", "RosuModel", "Model", "ModNames.lean")).read()
_m = re.search(r"inductive IMod\b(.*?)deriving", names_src, re.S)
IMODS = set(re.findall(r"\|\s*(\w+)", _m.group(1))) if _m else set()


def variant(pat, fn):
    """`GameMod::<Kind><Mode>(…)` -> (kind, mode, binder text) or None"""
    m = re.match(r"GameMod::(\w+?)(Osu|Taiko|Catch|Mania)\((.*)\)$", pat)
    if not m or m.group(1) not in IMODS:
        unknown.append(f"{fn}:pattern:{pat}")
        return None
    return m.group(1), MODES[m.group(2)], m.group(3)


def refl_value(val, binder, fn):
    m = re.match(r"Some\(Reflection::(\w+)\)$", val)
    if m and m.group(1) in REFL:
        return f".const {REFL[m.group(1)]}"
    m = re.match(r"match " + re.escape(binder) + r"\.reflection\.as_deref\(\)\{(.*)\}$", val)
    if m:
        unset, cases, other = None, [], None
        for a, b in split_arms(m.group(1)):
            r = re.match(r"Some\(Reflection::(\w+)\)$", b)
            if not r or r.group(1) not in REFL:
                unknown.append(f"{fn}:mirror-arm-value:{b}")
                return None
            rv = REFL[r.group(1)]
            s = re.match(r'Some\("([^"\\]*)"\)$', a)
            if a == "None" and unset is None:
                unset = rv
            elif a == "Some(_)" and other is None:
                other = rv
            elif s and other is None:
                cases.append((s.group(1), rv))
            else:
                unknown.append(f"{fn}:mirror-arm:{a}")
                return None
        if unset is None or other is None:
            unknown.append(f"{fn}:mirror-arms-incomplete")
            return None
        cs = ", ".join(f"({lean_str(a)}, {b})" for a, b in cases)
        return f".bySetting {unset} [{cs}] {other}"
    unknown.append(f"{fn}:value:{val}")
    return None


by_fn = {f: (arms, tail, ctx) for f, arms, tail, ctx in rows}


def arms_of(fn):
    arms = by_fn.get(fn, ([], "", ""))[0]
    if not arms or arms[-1] != ("_", "None"):
        unknown.append(f"{fn}:no-final-wildcard-None-arm")
    return [a for a in arms if a[0] != "_"]


refl_rows, nsha_rows, hro_rows, scroll_rows, seed_rows = [], [], [], [], []
fields = []
for pat, val in arms_of("reflection"):
    v = variant(pat, "reflection")
    if v:
        rv = refl_value(val, v[2], "reflection")
        if rv:
            refl_rows.append(f"(.{v[0]}, {v[1]}, {rv})")
tm_ = re.match(r"\.unwrap_or\(Reflection::(\w+)\)$", by_fn.get("reflection", ([], "", ""))[1])
refl_else = REFL.get(tm_.group(1)) if tm_ else None
if refl_else is None:
    unknown.append("reflection:tail")
    refl_else = ".none"
for pat, val in arms_of("no_slider_head_acc"):
    v = variant(pat, "no_slider_head_acc")
    m = v and re.match(r"Some\(" + re.escape(v[2]) + r"\.(\w+)\.unwrap_or\((true|false)\)\)$", val)
    if m:
        nsha_rows.append(f"(.{v[0]}, {v[1]}, {m.group(2)})")
        fields.append(("no_slider_head_acc", m.group(1)))
    elif v:
        unknown.append(f"no_slider_head_acc:value:{val}")
if by_fn.get("no_slider_head_acc", ([], "", ""))[1] != ".unwrap_or(!lazer)":
    unknown.append("no_slider_head_acc:tail")
cm = re.search(r"Self::Intermode\(ref mods\)=>mods\.contains\(GameModIntermode::(\w+)\)\|\|!lazer,Self::Legacy\(_\)=>!lazer\}$",
               by_fn.get("no_slider_head_acc", ([], "", ""))[2] or "")
nsha_im = cm.group(1) if cm and cm.group(1) in IMODS else None
if nsha_im is None:
    unknown.append("no_slider_head_acc:intermode-arm")
    nsha_im = "Unknown"
for pat, val in arms_of("hardrock_offsets"):
    m = re.match(r"GameMod::(\w+?)(Osu|Taiko|Catch|Mania)\(\1\2\{(\w+),\.\.\}\)$", pat)
    if m and m.group(1) in IMODS and val == "*" + m.group(3):
        hro_rows.append(f"(.{m.group(1)}, {MODES[m.group(2)]})")
        fields.append(("hardrock_offsets", m.group(3)))
    else:
        unknown.append(f"hardrock_offsets:arm:{pat}=>{val}")
if by_fn.get("hardrock_offsets", ([], "", ""))[1] != "" or not (by_fn.get("hardrock_offsets", ([], "", ""))[2] or "").endswith(
        "custom_hardrock_offsets(self).unwrap_or_else(||self.hr())"):
    unknown.append("hardrock_offsets:tail")
for pat, val in arms_of("scroll_speed"):
    v = variant(pat, "scroll_speed")
    m = v and re.match(r"Some\(" + re.escape(v[2]) + r"\.(\w+)\)$", val)
    if m:
        scroll_rows.append(f"(.{v[0]}, {v[1]})")
        fields.append(("scroll_speed", m.group(1)))
    elif v:
        unknown.append(f"scroll_speed:value:{val}")
if by_fn.get("scroll_speed", ([], "", ""))[1] != ".flatten()":
    unknown.append("scroll_speed:tail")
for pat, val in arms_of("random_seed"):
    v = variant(pat, "random_seed")
    m = v and re.match(re.escape(v[2]) + r"\.(\w+)$", val)
    if m:
        seed_rows.append(f"(.{v[0]}, {v[1]})")
        fields.append(("random_seed", m.group(1)))
    elif v:
        unknown.append(f"random_seed:value:{val}")
if by_fn.get("random_seed", ([], "", ""))[1] != ".map(|seed|seed as i32)":
    unknown.append("random_seed:tail")
for fn in ("scroll_speed", "random_seed"):
    if (by_fn.get(fn, ([], "", ""))[2] or "") != "let Self::Lazer(mods)=self else{return None};<LAZER>":
        unknown.append(f"{fn}:non-lazer-guard")

L = []
L.append("import RosuModel.Model.ModNames")
L.append("")
L.append("/- GENERATED by tools/translate.d/lazer_settings.py from /repo/src/model/mods.rs — do not edit. -/")
L.append("namespace Rosu.Gen.LazerSettings")
L.append("open Rosu.Mods")
L.append("")
L.append("/-- accessor ↦ arms (pattern, value) of the `find_map` closure over the lazer mods -/")
L.append("def lazerArms : List (String × List (String × String)) := [")
L.append(",\n".join(f"  ({lean_str(f)}, [" + ", ".join(f"({lean_str(a)}, {lean_str(b)})" for a, b in arms) + "])" for f, arms, _, _ in rows))
L.append("]")
L.append("")
L.append("/-- accessor ↦ what is applied to the `find_map` result -/")
L.append("def lazerTail : List (String × String) := [")
L.append(",\n".join(f"  ({lean_str(f)}, {lean_str(t)})" for f, _, t, _ in rows))
L.append("]")
L.append("")
L.append("/-- accessor ↦ the rest of its body, the lazer lookup written `<LAZER>` -/")
L.append("def accessorContext : List (String × String) := [")
L.append(",\n".join(f"  ({lean_str(f)}, {lean_str(c if isinstance(c, str) else '?')})" for f, _, _, c in rows))
L.append("]")
L.append("")
L.append("/-! structured form of the arms (kind, mode of the `GameMod::<Kind><Mode>` pattern, value) -/")
L.append("def reflLazerArms : List (IMod × Mode × ReflVal) := [" + ", ".join(refl_rows) + "]")
L.append(f"def reflLazerElse : Reflection := {refl_else}")
L.append("/-- (kind, mode, default of `.unwrap_or(default)` on the setting) -/")
L.append("def nshaLazerArms : List (IMod × Mode × Bool) := [" + ", ".join(nsha_rows) + "]")
L.append(f"def nshaIntermodeMod : IMod := .{nsha_im}")
L.append("def hroLazerArms : List (IMod × Mode) := [" + ", ".join(hro_rows) + "]")
L.append("def scrollLazerArms : List (IMod × Mode) := [" + ", ".join(scroll_rows) + "]")
L.append("def seedLazerArms : List (IMod × Mode) := [" + ", ".join(seed_rows) + "]")
L.append("/-- (accessor, name of the setting its arm reads) -/")
L.append("def settingFields : List (String × String) := [" + ", ".join(f"({lean_str(a)}, {lean_str(b)})" for a, b in fields) + "]")
L.append("")
L.append("/-- shapes the extractor did not understand (must be empty) -/")
L.append(f"def lazerSettingsUnknown : List String := {strs(unknown)}")
L.append("")
L.append("end Rosu.Gen.LazerSettings")
write_if_changed(os.path.join(out, "LazerSettings.lean"), "\n".join(L) + "\n")
