"""Small Rust text helpers shared by the translator scripts of tools/translate.d/.

Everything works on comment-free source text.  `norm` removes every whitespace that does not
separate two identifier characters and drops trailing commas, so rustfmt-level differences
(line breaks in method chains, trailing commas in multi-line calls) do not change the output.
Nothing here depends on line numbers.
"""
import os
import re

from _util import strip_rust_comments


def strip_cfg_items(src, pred):
    """Drop every item (`mod x;`, `mod x {…}`, `fn …{…}`, `use …;`) gated by `#[cfg(<pred>)]`."""
    out = []
    i = 0
    pat = re.compile(r"#\s*\[\s*cfg\s*\(\s*" + pred + r"\s*\)\s*\]")
    while True:
        m = pat.search(src, i)
        if not m:
            out.append(src[i:])
            break
        out.append(src[i:m.start()])
        k = src.find("{", m.end())
        semi = src.find(";", m.end())
        if k < 0 or (0 <= semi < k):
            i = (semi + 1) if semi >= 0 else len(src)
            continue
        depth = 0
        p = k
        while p < len(src):
            if src[p] == "{":
                depth += 1
            elif src[p] == "}":
                depth -= 1
                if depth == 0:
                    break
            p += 1
        i = p + 1
    return "".join(out)


def clean_file(path):
    """Source text without comments, `#[cfg(test)]` items and `#[cfg(rosu_pp_verif)]` hook items."""
    src = strip_rust_comments(open(path, encoding="utf-8", errors="replace").read())
    src = strip_cfg_items(src, "test")
    src = strip_cfg_items(src, "rosu_pp_verif")
    return src


def norm(s):
    """Whitespace-insensitive canonical text of a Rust fragment."""
    s = re.sub(r"\s+", " ", s.strip())
    s = re.sub(r"(?<![A-Za-z0-9_]) | (?![A-Za-z0-9_])", "", s)
    s = re.sub(r",(?=[)\]}])", "", s)
    return s


def match_close(src, i, open_ch="{", close_ch="}"):
    """src[i] == open_ch -> index of the matching close_ch (or len(src))."""
    depth = 0
    p = i
    while p < len(src):
        c = src[p]
        if c == '"':
            p += 1
            while p < len(src) and src[p] != '"':
                p += 2 if src[p] == "\\" else 1
        elif c == open_ch:
            depth += 1
        elif c == close_ch:
            depth -= 1
            if depth == 0:
                return p
        p += 1
    return len(src)


def find_fns(src, name=None):
    """Yields (name, signature, body) of every `fn` in `src` (any nesting depth, in source order).
    The signature is the text from `fn` to the opening brace."""
    pat = re.compile(r"\bfn\s+(" + (re.escape(name) if name else r"\w+") + r")\s*(?:<[^>{};]*>)?\s*\(")
    i = 0
    while True:
        m = pat.search(src, i)
        if not m:
            return
        close_par = match_close(src, m.end() - 1, "(", ")")
        brace = src.find("{", close_par)
        semi = src.find(";", close_par)
        if brace < 0 or (0 <= semi < brace):
            i = close_par + 1  # declaration without body (trait method)
            continue
        end = match_close(src, brace)
        yield m.group(1), src[m.start():brace], src[brace + 1:end]
        i = brace + 1 if name is None else end + 1


def impl_body(src, header_regex):
    """Body of the first `impl` block whose header matches."""
    m = re.search(header_regex, src)
    if not m:
        return None
    brace = src.find("{", m.start())
    return src[brace + 1:match_close(src, brace)]


def direct_fns(block):
    """(name, signature, body) of the `fn`s directly inside an impl/trait block."""
    res = []
    i = 0
    pat = re.compile(r"\bfn\s+(\w+)\s*(?:<[^>{};]*>)?\s*\(")
    while True:
        m = pat.search(block, i)
        if not m:
            return res
        close_par = match_close(block, m.end() - 1, "(", ")")
        brace = block.find("{", close_par)
        semi = block.find(";", close_par)
        if brace < 0 or (0 <= semi < brace):
            i = close_par + 1
            continue
        end = match_close(block, brace)
        res.append((m.group(1), block[m.start():brace], block[brace + 1:end]))
        i = end + 1


BLOCK_KW = ("if", "match", "for", "while", "loop", "unsafe")


def split_statements(body):
    """Top-level statements of a block body.  A statement ends at a depth-0 `;`, or at the closing
    brace of a block-like statement (`if/match/for/while/loop`) that is not continued by `else`,
    a method call, `?` or an operator.  The trailing expression (no `;`) is returned last."""
    stmts = []
    depth = 0
    start = 0
    i = 0
    n = len(body)
    while i < n:
        c = body[i]
        if c == '"':
            i += 1
            while i < n and body[i] != '"':
                i += 2 if body[i] == "\\" else 1
        elif c in "({[":
            depth += 1
        elif c in ")]":
            depth -= 1
        elif c == "}":
            depth -= 1
            if depth == 0:
                head = body[start:i + 1].lstrip()
                first = re.match(r"[A-Za-z_]\w*", head)
                if first and first.group(0) in BLOCK_KW:
                    rest = body[i + 1:].lstrip()
                    if not re.match(r"(else\b|\.|\?|;|==|!=|&&|\|\||[-+*/<>])", rest) and rest != "":
                        stmts.append(body[start:i + 1].strip())
                        start = i + 1
        elif c == ";" and depth == 0:
            stmts.append(body[start:i].strip())
            start = i + 1
        i += 1
    tail = body[start:].strip()
    if tail:
        stmts.append(tail)
    return [s for s in stmts if s]


def split_top(s, sep=","):
    """Split at depth-0 separators."""
    parts = []
    depth = 0
    cur = ""
    for ch in s:
        if ch in "([{<" and not (ch == "<" and sep != ","):
            depth += 1
        elif ch in ")]}>" and not (ch == ">" and sep != ","):
            depth -= 1
        if ch == sep and depth == 0:
            parts.append(cur)
            cur = ""
        else:
            cur += ch
    if cur.strip():
        parts.append(cur)
    return [p.strip() for p in parts if p.strip()]


def mode_files(repo, mode):
    """Source files of a mode directory (hook files `verif.rs` excluded), sorted."""
    res = []
    for root, _, files in os.walk(os.path.join(repo, "src", mode)):
        for f in files:
            if f.endswith(".rs") and f != "verif.rs":
                res.append(os.path.join(root, f))
    return sorted(res)


def all_files(repo):
    res = []
    for root, _, files in os.walk(os.path.join(repo, "src")):
        for f in files:
            if f.endswith(".rs") and f != "verif.rs":
                res.append(os.path.join(root, f))
    return sorted(res)


def lean_list(items, f):
    return "[" + ", ".join(f(x) for x in items) + "]"
