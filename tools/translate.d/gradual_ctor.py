#!/usr/bin/env python3
"""Gen/GradualCtor.lean: the settings-related pre-processing of the one-shot difficulty calculation
(`difficulty()` + `DifficultyValues::calculate` in src/<mode>/difficulty/mod.rs; helpers both paths
call — `…DifficultySetup::new`, `create_difficulty_objects`, `eval` — appear as `pass:<callee>`) and of the gradual
calculator (every fn of src/<mode>/difficulty/gradual.rs), in a form that can be compared.

Before anything is extracted the text is canonicalised: whitespace/comments removed, `&difficulty`
and `self.difficulty` written `difficulty`, and a local bound by `let x = difficulty.get_…();`
(a plain alias of an accessor) replaced by that accessor call wherever `x` is used afterwards.

* `prepSteps`      (mode, path, steps): the `convert_ref(…)` call and every `if … { … }` block that
                   mutates the map (`to_mut()`, `convert::apply_*`), in source order, for
                   `difficulty()` (path `oneshot`) and `…GradualDifficulty::new` (path `gradual`);
* `settingChains`  (mode, path, chains): every way a `Difficulty` is consulted —
                   `get_x()` followed by its zero-argument method chain (`get_mods().reflection()`),
                   `get_x()` handed on as a value, or the whole value handed to a callee
                   (`pass:<callee>`);
* `overrideBypass` every call of `GameMods::clock_rate()` / `GameMods::hardrock_offsets()` (zero
                   arguments) under src/<mode>/ — `Difficulty` has overrides for both, so mode code
                   must go through `get_clock_rate()` / `get_hardrock_offsets()`;
* `ctorUnknown`    shapes not understood.

Used by Props/C02.lean (`gradual_applies_same_mods_as_difficulty`, `gradual_reads_same_settings`).
"""
import os
import re
import sys

sys.path.insert(0, os.path.dirname(os.path.abspath(__file__)))
from _rust import clean_file, find_fns, impl_body, direct_fns, match_close, mode_files, norm  # noqa: E402
from _util import lean_str, write_if_changed  # noqa: E402

repo, out = sys.argv[1], sys.argv[2]
MODES = ["Osu", "Taiko", "Catch", "Mania"]
unknown = []


def strs(xs):
    return "[" + ", ".join(lean_str(x) for x in xs) + "]"


def canon(body):
    """Normalised body with canonical receiver and accessor aliases inlined."""
    nb = norm(body)
    nb = re.sub(r"&difficulty\b", "difficulty", nb)
    nb = re.sub(r"\bself\.difficulty\b(?!\()", "difficulty", nb)
    # aliases: let x=difficulty.get_y();
    for mm in list(re.finditer(r"\blet (\w+)=(difficulty\.get_\w+\(\));", nb)):
        name, acc = mm.group(1), mm.group(2)
        head = nb[:mm.end()]
        tail = nb[mm.end():]
        # stop at a re-binding of the same name
        rb = re.search(r"\blet (?:mut )?" + re.escape(name) + r"\b", tail)
        cut = rb.start() if rb else len(tail)
        tail = re.sub(r"(?<![.\w:])" + re.escape(name) + r"\b(?!\(|:)", acc, tail[:cut]) + tail[cut:]
        nb = head + tail
    return nb


def prep_steps(nb, who):
    res = []
    m = re.search(r"\bmap\.convert_ref\(([^;]*?)\)\?;", nb)
    res.append("convert_ref(" + m.group(1) + ")" if m else "UNKNOWN:no-convert_ref")
    if not m:
        unknown.append(who + ":no-convert_ref")
    consumed = []
    for b in re.finditer(r"\bif\b([^{};]*)\{([^{}]*)\}", nb):
        cond, inner = b.group(1).strip(), b.group(2)
        consumed.append((b.start(), b.end()))
        if "to_mut()" in inner or "&mut map" in inner or "convert::" in inner:
            res.append("if " + cond + " => " + inner)
    for mm in re.finditer(r"\bto_mut\(\)|&mut map\b", nb):
        if not any(a <= mm.start() < b for a, b in consumed):
            res.append("UNKNOWN:unguarded-map-mutation")
            unknown.append(who + ":unguarded-map-mutation")
    return res


def chains(nb):
    res = set()
    for mm in re.finditer(r"\bdifficulty\b", nb):
        before = nb[:mm.start()]
        after = nb[mm.end():]
        if re.search(r"[.\w:]$", before) and not before.endswith("mut "):
            # `x.difficulty`, `Self::difficulty`, part of another identifier …: a field/fn of that name
            if before.endswith("."):
                # e.g. `.difficulty(difficulty)` (builder setter) — the argument is handled on its own
                continue
            if not re.search(r"\b(let|mut|in|return|move)$", before):
                continue
        am = re.match(r"\.(get_\w+)\(\)", after)
        if am:
            chain = am.group(1) + "()"
            rest = after[am.end():]
            while True:
                cm = re.match(r"\.(\w+)\(\)", rest)
                if not cm:
                    break
                chain += "." + cm.group(1) + "()"
                rest = rest[cm.end():]
            res.add(chain)
            continue
        if re.match(r"\.clone\(\)", after):
            res.add("clone()")
            continue
        if re.match(r"\.\w+", after):
            fm = re.match(r"\.(\w+)(\()?", after)
            res.add(("method:" if fm.group(2) else "field:") + fm.group(1))
            continue
        if re.match(r":", after):
            continue  # parameter / struct field declaration `difficulty: Difficulty`
        # whole value: argument of which call / struct literal?
        depth = 0
        p = mm.start() - 1
        while p >= 0:
            ch = nb[p]
            if ch in ")}":
                depth += 1
            elif ch in "({":
                if depth == 0:
                    break
                depth -= 1
            p -= 1
        cm = re.search(r"([\w:.]+)$", nb[:p]) if p >= 0 else None
        res.add("pass:" + (cm.group(1) if cm else "?") + ("{}" if p >= 0 and nb[p] == "{" else ""))
    return sorted(res)


prep_rows, chain_rows, bypass = [], [], []
for mode in MODES:
    low = mode.lower()
    dpath = os.path.join(repo, "src", low, "difficulty", "mod.rs")
    gpath = os.path.join(repo, "src", low, "difficulty", "gradual.rs")
    # one-shot
    if os.path.exists(dpath):
        src = clean_file(dpath)
        fns = {n: (sg, b) for n, sg, b in find_fns(src)}
        if "difficulty" in fns:
            prep_rows.append((mode, "oneshot", prep_steps(canon(fns["difficulty"][1]), mode + ":difficulty")))
        else:
            prep_rows.append((mode, "oneshot", ["UNKNOWN:no-fn-difficulty"]))
            unknown.append(mode + ":no-fn-difficulty")
        one = set(chains(canon(fns["difficulty"][1]))) if "difficulty" in fns else set()
        ib = impl_body(src, r"\bimpl\s+DifficultyValues\s*\{")
        if ib is None:
            unknown.append(mode + ":no-impl-DifficultyValues")
        calc = [b for n, sg, b in direct_fns(ib or "") if n == "calculate"]
        if len(calc) != 1:
            unknown.append(mode + ":no-DifficultyValues::calculate")
        for b in calc:
            one |= set(c.replace("pass:Self::", "pass:DifficultyValues::") for c in chains(canon(b)))
        chain_rows.append((mode, "oneshot", sorted(one)))
    else:
        unknown.append(mode + ":missing-difficulty/mod.rs")
    # gradual
    if os.path.exists(gpath):
        src = clean_file(gpath)
        news = [(sg, b) for n, sg, b in find_fns(src, "new") if "Difficulty" in sg]
        if len(news) == 1:
            prep_rows.append((mode, "gradual", prep_steps(canon(news[0][1]), mode + ":gradual-new")))
        else:
            prep_rows.append((mode, "gradual", [f"UNKNOWN:{len(news)}-constructors"]))
            unknown.append(f"{mode}:{len(news)}-gradual-constructors")
        gr = set()
        for n, sg, b in find_fns(src):
            gr |= set(chains(canon(b)))
        chain_rows.append((mode, "gradual", sorted(gr)))
    else:
        unknown.append(mode + ":missing-difficulty/gradual.rs")
    # direct use of the mods' clock rate / hardrock offsets
    for path in mode_files(repo, low):
        ns = norm(clean_file(path))
        for mm in re.finditer(r"\.(clock_rate|hardrock_offsets)\(\)", ns):
            bypass.append((os.path.relpath(path, repo), ns[max(0, mm.start() - 40):mm.end()]))

# `…GradualPerformance::new` (src/<mode>/performance/gradual.rs)
from _rust import split_statements  # noqa: E402
perf_new = []
for mode in MODES:
    path = os.path.join(repo, "src", mode.lower(), "performance", "gradual.rs")
    st = ["?missing"]
    if os.path.exists(path):
        news = [(sg, b) for n, sg, b in find_fns(clean_file(path), "new") if "Difficulty" in sg]
        if len(news) == 1:
            st = [norm(x).replace(mode + "GradualDifficulty", "MODEGradualDifficulty") for x in split_statements(news[0][1])]
        else:
            unknown.append(f"{mode}:{len(news)}-gradual-performance-constructors")
    perf_new.append((mode, st))

L = []
L.append("/- GENERATED by tools/translate.d/gradual_ctor.py from /repo/src/{osu,taiko,catch,mania}/difficulty/{mod,gradual}.rs — do not edit. -/")
L.append("namespace Rosu.Gen.GradualCtor")
L.append("")
L.append("/-- (mode, `oneshot` = `difficulty()` | `gradual` = `…GradualDifficulty::new`, conversion call and map-mutating `if` blocks in order) -/")
L.append("def prepSteps : List (String × String × List String) := [")
L.append(",\n".join(f"  ({lean_str(m)}, {lean_str(p)}, {strs(s)})" for m, p, s in prep_rows))
L.append("]")
L.append("")
L.append("/-- (mode, `oneshot` = `difficulty()` + `DifficultyValues::calculate` | `gradual` = every fn of gradual.rs, ways the `Difficulty` is consulted) -/")
L.append("def settingChains : List (String × String × List String) := [")
L.append(",\n".join(f"  ({lean_str(m)}, {lean_str(p)}, {strs(s)})" for m, p, s in chain_rows))
L.append("]")
L.append("")
L.append("/-- zero-argument `.clock_rate()` / `.hardrock_offsets()` calls under src/<mode>/: (file, context) -/")
L.append("def overrideBypass : List (String × String) := [")
L.append(",\n".join(f"  ({lean_str(a)}, {lean_str(b)})" for a, b in bypass))
L.append("]")
L.append("")
L.append("/-- statements of `…GradualPerformance::new` (own gradual difficulty type written `MODEGradualDifficulty`) -/")
L.append("def gradualPerfNew : List (String × List String) := [")
L.append(",\n".join(f"  ({lean_str(m)}, {strs(t)})" for m, t in perf_new))
L.append("]")
L.append("")
L.append("/-- shapes the extractor did not understand (must be empty) -/")
L.append(f"def ctorUnknown : List String := {strs(unknown)}")
L.append("")
L.append("end Rosu.Gen.GradualCtor")
write_if_changed(os.path.join(out, "GradualCtor.lean"), "\n".join(L) + "\n")
