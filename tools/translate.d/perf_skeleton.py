#!/usr/bin/env python3
"""Gen/PerfSkeleton.lean: the skeleton of `generate_state()` / `calculate()` of the four mode
performance builders (src/<mode>/performance/mod.rs) and of `MapOrAttrs` (src/util/map_or_attrs.rs)
as a tiny AST with normalised text (whitespace removed, comments removed, the file's own mode type
replaced by `MODE`).

* the `let attrs = match self.map_or_attrs { … }` statements are kept arm by arm;
* `let state = self.generate_state()?;` is kept as it is;
* everything else is float-level code that the model treats as an opaque function: it is collapsed
  into *what it reads* — `attrs`, `state`, `self.difficulty`, `self.spec` (any other field of the
  builder), `self.map_or_attrs`, `self.<method>()`, `self` (the builder as a whole);
* the tail of `calculate()` must construct `<Mode>PerformanceCalculator::new(attrs, …)` exactly once
  and return `Ok(<that>.calculate())`.

Anything else becomes `.unknown <text>`, which no expected skeleton contains.
Used by Props/C04.lean (`skeletons_are_the_model`).
"""
import os
import re
import sys

sys.path.insert(0, os.path.dirname(os.path.abspath(__file__)))
from _rust import clean_file, direct_fns, find_fns, impl_body, match_close, norm, split_statements, split_top  # noqa: E402
from _util import lean_str, write_if_changed  # noqa: E402

repo, out = sys.argv[1], sys.argv[2]
MODES = ["Osu", "Taiko", "Catch", "Mania"]


def strs(xs):
    return "[" + ", ".join(lean_str(x) for x in xs) + "]"


def reads(text, bound=("attrs", "state")):
    """Categories of what a normalised code fragment reads (`bound`: the variables the skeleton
    statements before it have bound; other locals are internal to the fragment)."""
    res = set()
    for mm in re.finditer(r"\bself\b(?:\.(\w+)(\()?)?", text):
        if mm.group(1) is None:
            res.add("self")
        elif mm.group(2):
            res.add(f"self.{mm.group(1)}()")
        elif mm.group(1) in ("difficulty", "map_or_attrs"):
            res.add("self." + mm.group(1))
        else:
            res.add("self.spec")
    if "MapOrAttrs" in text:
        res.add("self.map_or_attrs")
    for ident in bound:
        if re.search(r"(?<![.\w])" + ident + r"\b(?!\()", text):
            res.add(ident)
    return sorted(res)


def alpha(pat, body):
    """Canonical local names inside one match arm: the variable bound by the pattern becomes `map` /
    `attrs` (after the variant), variables bound by `let` inside the arm become v0, v1, …"""
    names = {}
    pm = re.fullmatch(r"MapOrAttrs::(Map|Attrs)\(((?:ref mut |ref |mut )?)(\w+)\)", pat)
    if pm:
        names[pm.group(3)] = pm.group(1).lower()
    k = 0
    for st in body:
        lm = re.match(r"let (?:mut )?(\w+)=", st)
        if lm and lm.group(1) not in names:
            names[lm.group(1)] = f"v{k}"
            k += 1
    # two-phase so that a swap of names cannot collide
    tmp = {old: f"\1{i}\1" for i, old in enumerate(names)}
    fin = {f"\1{i}\1": new for i, new in enumerate(names.values())}

    def both(t):
        for old, mark in tmp.items():
            t = re.sub(r"(?<![.\w:])" + re.escape(old) + r"\b(?!\()", lambda _m: mark, t)
        for mark, new in fin.items():
            t = t.replace(mark, new)
        return t
    return both(pat), [both(b) for b in body]


def let_match(ns, mode):
    """`let VAR=match SCRUT{ARMS}` -> Lean `.letMatch …` or None."""
    mm = re.fullmatch(r"let (?:mut )?(\w+)=match ([\w.]+)\{(.*)\}", ns, re.S)
    if not mm:
        return None
    arms = []
    inner = mm.group(3)
    i = 0
    while i < len(inner):
        arrow = inner.find("=>", i)
        if arrow < 0:
            return None
        pat = inner[i:arrow]
        j = arrow + 2
        if inner[j:j + 1] == "{":
            end = match_close(inner, j)
            body = [norm(s) for s in split_statements(inner[j + 1:end])]
            j = end + 1
            if inner[j:j + 1] == ",":
                j += 1
        else:
            depth = 0
            k = j
            while k < len(inner):
                if inner[k] in "([{":
                    depth += 1
                elif inner[k] in ")]}":
                    depth -= 1
                elif inner[k] == "," and depth == 0:
                    break
                k += 1
            body = [inner[j:k]]
            j = k + 1
        pat, body = alpha(pat, body)
        arms.append((pat, [b.replace(f"::<{mode}>", "::<MODE>") for b in body]))
        i = j
    arms_l = "[" + ", ".join(f"({lean_str(p)}, {strs(b)})" for p, b in arms) + "]"
    return f".letMatch {lean_str('attrs')} {lean_str(mm.group(2))} {arms_l}"


def skeleton_generate_state(sig, body, mode):
    res = [f".receiver {lean_str(receiver(sig))}"]
    stmts = [norm(s) for s in split_statements(body)]
    rest = []
    var = None
    for idx, ns in enumerate(stmts):
        lm = let_match(ns, mode) if "map_or_attrs" in ns or "MapOrAttrs" in ns else None
        if lm and not rest:
            res.append(lm)
            var = re.match(r"let (?:mut )?(\w+)=", ns).group(1)
        else:
            rest.append(ns)
    if var and var != "attrs":
        rest = [re.sub(r"(?<![.\w:])attrs\b(?!\()", "attrs_", t) for t in rest]
        rest = [re.sub(r"(?<![.\w:])" + re.escape(var) + r"\b(?!\()", "attrs", t) for t in rest]
    if rest:
        res.append(f".opaque {strs(reads(';'.join(rest), ('attrs',)))}")
    return res


def receiver(sig):
    mm = re.search(r"\(((?:&|&mut |mut )?self)\b", norm(sig))
    return mm.group(1) if mm else "?"


def skeleton_calculate(sig, body, mode):
    res = [f".receiver {lean_str(receiver(sig))}"]
    stmts = [norm(s) for s in split_statements(body)]
    i = 0
    # leading skeleton statements
    while i < len(stmts):
        ns = stmts[i]
        if re.fullmatch(r"let (\w+)=self\.generate_state\(\)\?", ns):
            res.append(f".letExpr {lean_str('state')} {lean_str(ns.split('=', 1)[1])}")
        elif "map_or_attrs" in ns or "MapOrAttrs" in ns:
            lm = let_match(ns, mode)
            res.append(lm if lm else f".unknown {lean_str(ns[:120])}")
        else:
            break
        i += 1
    tail = stmts[i:]
    # canonical names for the two variables the skeleton binds
    outer = {}
    for ns in stmts[:i]:
        lm = re.match(r"let (?:mut )?(\w+)=(self\.generate_state\(\)\?|match )", ns)
        if lm:
            outer[lm.group(1)] = "state" if lm.group(2).startswith("self") else "attrs"
    if sorted(outer.values()) == ["attrs", "state"] and list(outer.keys()) != list(outer.values()):
        marks = {old: f"\1{k}\1" for k, old in enumerate(outer)}
        def canon(t):
            for old, mark in marks.items():
                t = re.sub(r"(?<![.\w:])" + re.escape(old) + r"\b(?!\()", lambda _m: mark, t)
            for k, new in enumerate(outer.values()):
                t = t.replace(f"\1{k}\1", new)
            return t
        tail = [canon(t) for t in tail]
    text = ";".join(tail)
    ctor_calls = list(re.finditer(r"\b(\w+PerformanceCalculator)::new\(", text))
    if len(ctor_calls) != 1 or not tail:
        res.append(f".unknown {lean_str('calculator-constructions:' + str(len(ctor_calls)))}")
        return res
    cm = ctor_calls[0]
    close = match_close(text, cm.end() - 1, "(", ")")
    args = split_top(text[cm.end():close])
    ctor = cm.group(1).replace(mode, "MODE", 1) + "::new"
    call = text[cm.start():close + 1]
    last = tail[-1]
    bound = re.search(r"let (\w+)=" + re.escape(call) + r"(?:;|$)", text)
    ok = last == f"Ok({call}.calculate())" or (bound is not None and last == f"Ok({bound.group(1)}.calculate())")
    if not ok:
        res.append(f".unknown {lean_str('result:' + last[:100])}")
        return res
    res.append(f".retCalc {lean_str(ctor)} {lean_str(args[0] if args else '')} {strs(reads(text))}")
    return res


rows = []
for mode in MODES:
    path = os.path.join(repo, "src", mode.lower(), "performance", "mod.rs")
    gs = cs = [".unknown \"missing\""]
    if os.path.exists(path):
        src = clean_file(path)
        ib = impl_body(src, r"\bimpl\s*<'map>\s*" + mode + r"Performance\s*<'map>\s*\{")
        fns = {n: (s, b) for n, s, b in direct_fns(ib or "")}
        if "generate_state" in fns:
            gs = skeleton_generate_state(*fns["generate_state"], mode)
        if "calculate" in fns:
            cs = skeleton_calculate(*fns["calculate"], mode)
        # any other method of the builder that looks at the source is listed
        others = sorted(n for n, (s, b) in fns.items()
                        if n not in ("generate_state", "calculate", "from_map_or_attrs", "new", "try_new", "try_convert_map")
                        and ("map_or_attrs" in b or "MapOrAttrs" in b))
    else:
        others = ["?"]
    rows.append((mode, gs, cs, others))

# MapOrAttrs itself
mpath = os.path.join(repo, "src", "util", "map_or_attrs.rs")
msrc = clean_file(mpath) if os.path.exists(mpath) else ""
insert = [".unknown \"missing\""]
for n, s, b in find_fns(msrc, "insert_attrs"):
    insert = [lean_str(norm(x)) for x in split_statements(b)]
    break
froms = []
for mm in re.finditer(r"\bimpl\b[^{;]*?\bFrom<([^{]*?)>\s*for\s+MapOrAttrs<[^{]*\{", msrc):
    body = msrc[mm.end():match_close(msrc, mm.end() - 1)]
    for n, s, b in find_fns(body, "from"):
        froms.append((norm(mm.group(1)), norm(b)))
macro_rows = []
mi = re.search(r"\bfrom_attrs!\s*\(", msrc)
if mi:
    inner = msrc[mi.end():match_close(msrc, mi.end() - 1, "(", ")")]
    for part in split_top(inner):
        pm = re.fullmatch(r"(\w+)\{(\w+),(\w+),(\w+)\}", norm(part))
        macro_rows.append(pm.groups() if pm else ("?", norm(part)[:40], "?", "?"))
else:
    macro_rows.append(("?", "no-from_attrs-invocation", "?", "?"))


# ---------------------------------------------------------------- constructors


def lifetimes(t):
    return re.sub(r"'\w+", "'_", t)


# every impl of IntoModePerformance / IntoPerformance (the macro body is searched textually too)
ipath = os.path.join(repo, "src", "any", "performance", "into.rs")
isrc = clean_file(ipath) if os.path.exists(ipath) else ""
into_impls = []
for mm in re.finditer(r"\bimpl\b\s*(?:<[^>]*>)?\s*(Into(?:Mode)?Performance)\s*<([^{]*?)>\s*for\s+([^{]+?)\s*\{", isrc):
    body = isrc[mm.end():match_close(isrc, mm.end() - 1)]
    fns = direct_fns(body)
    stmts = []
    for n, sg, b in fns:
        nsg = norm(sg)
        po = nsg.find("(")
        stmts.append(f"fn {n}({nsg[po + 1:match_close(nsg, po, '(', ')')]})")
        stmts += [lifetimes(norm(x)) for x in split_statements(b)]
    into_impls.append((mm.group(1), lifetimes(norm(mm.group(3))), stmts))
if not into_impls:
    into_impls.append(("?", "no-impls-found", []))
# any other item of into.rs that is not a trait declaration / macro / impl of the two traits
other_impls = [norm(x.group(0))[:80] for x in re.finditer(r"\bimpl\b[^{;]*\{", isrc)
               if not re.search(r"Into(?:Mode)?Performance\s*<", x.group(0))]

# per mode builder: from_map_or_attrs, new, try_new, From<T>
ctor_rows = []
for mode in MODES:
    path = os.path.join(repo, "src", mode.lower(), "performance", "mod.rs")
    src = clean_file(path) if os.path.exists(path) else ""
    ib = impl_body(src, r"\bimpl\s*<'map>\s*" + mode + r"Performance\s*<'map>\s*\{") or ""
    fns = {n: (sg, b) for n, sg, b in direct_fns(ib)}
    fields = [("?", "missing")]
    if "from_map_or_attrs" in fns:
        nb = norm(fns["from_map_or_attrs"][1])
        fm = re.fullmatch(r"Self\{(.*)\}", nb, re.S)
        if fm:
            fields = []
            for part in split_top(fm.group(1)):
                pm = re.fullmatch(r"(\w+)(?::(.*))?", part, re.S)
                fields.append((pm.group(1), pm.group(2) if pm and pm.group(2) is not None else pm.group(1)) if pm else ("?", part[:40]))
        else:
            fields = [("?", nb[:80])]
    ctors = []
    for n in ("new", "try_new"):
        if n in fns:
            ctors.append((n, [norm(x).replace(f"Performance::{mode}(", "Performance::MODE(") for x in split_statements(fns[n][1])]))
        else:
            ctors.append((n, ["?missing"]))
    fm = re.search(r"\bimpl\s*<'map,\s*T:\s*IntoModePerformance<'map,\s*" + mode + r">>\s*From<T>\s*for\s+" + mode + r"Performance<'map>\s*\{", src)
    if fm:
        fb = src[fm.end():match_close(src, fm.end() - 1)]
        for n, sg, b in direct_fns(fb):
            ctors.append(("From<T>::" + n, [norm(x) for x in split_statements(b)]))
    else:
        ctors.append(("From<T>::from", ["?missing"]))
    ctor_rows.append((mode, fields, ctors))
# `Performance::new`
asrc_path = os.path.join(repo, "src", "any", "performance", "mod.rs")
asrc = clean_file(asrc_path) if os.path.exists(asrc_path) else ""
aib = impl_body(asrc, r"\bimpl\s*<'map>\s*Performance\s*<'map>\s*\{") or ""
perf_new = ["?missing"]
for n, sg, b in direct_fns(aib):
    if n == "new":
        perf_new = [norm(x) for x in split_statements(b)]

L = []
L.append("/- GENERATED by tools/translate.d/perf_skeleton.py from /repo/src/{osu,taiko,catch,mania}/performance/mod.rs")
L.append("   and /repo/src/util/map_or_attrs.rs — do not edit. -/")
L.append("namespace Rosu.Gen.PerfSkeleton")
L.append("")
L.append("/-- One statement of a skeleton (normalised source text at the leaves). -/")
L.append("inductive Stmt where")
L.append("  | receiver (text : String)                                   -- how the method takes `self`")
L.append("  | letMatch (var scrutinee : String) (arms : List (String × List String))  -- `let var = match scrutinee { pattern => statements, … };`")
L.append("  | letExpr (var expr : String)                                -- `let var = expr;`")
L.append("  | opaque (reads : List String)                               -- float-level code collapsed to what it reads")
L.append("  | retCalc (ctor firstArg : String) (reads : List String)     -- tail: builds `ctor(firstArg, …)` once and returns `Ok(it.calculate())`")
L.append("  | unknown (text : String)")
L.append("deriving Repr, DecidableEq")
L.append("")
L.append("/-- (mode, skeleton of `generate_state`, skeleton of `calculate`, other builder methods mentioning the source). -/")
L.append("def perfSkeletons : List (String × List Stmt × List Stmt × List String) := [")
L.append(",\n".join(
    f"  ({lean_str(m)},\n    [" + ",\n     ".join(g) + "],\n    [" + ",\n     ".join(c) + f"],\n    {strs(o)})" for m, g, c, o in rows))
L.append("]")
L.append("")
L.append("/-- statements of `MapOrAttrs::insert_attrs` -/")
L.append("def insertAttrsBody : List String := [" + ", ".join(insert) + "]")
L.append("")
L.append("/-- `impl From<T> for MapOrAttrs`: (T, body of `from`), macro-generated impls with their `$…` variables -/")
L.append("def mapOrAttrsFrom : List (String × String) := [")
L.append(",\n".join(f"  ({lean_str(a)}, {lean_str(b)})" for a, b in froms))
L.append("]")
L.append("")
L.append("/-- rows of the `from_attrs!` invocation: (module, mode, difficulty attributes, performance attributes) -/")
L.append("def fromAttrsRows : List (String × String × String × String) := [")
L.append(",\n".join(f"  ({lean_str(a)}, {lean_str(b)}, {lean_str(c)}, {lean_str(d)})" for a, b, c, d in macro_rows))
L.append("]")
L.append("")
L.append("/-- every `impl IntoModePerformance/IntoPerformance … for T` of src/any/performance/into.rs (the macro body")
L.append("included, with its `$…` variables): (trait, T, [signature of the method, statements of its body]) -/")
L.append("def intoImpls : List (String × String × List String) := [")
L.append(",\n".join(f"  ({lean_str(a)}, {lean_str(b)}, {strs(c)})" for a, b, c in into_impls))
L.append("]")
L.append("")
L.append("/-- other `impl` headers in into.rs (must be empty) -/")
L.append(f"def intoOtherImpls : List String := {strs(other_impls)}")
L.append("")
L.append("/-- per mode builder: the struct literal of `from_map_or_attrs` (field ↦ value) -/")
L.append("def fromMapOrAttrs : List (String × List (String × String)) := [")
L.append(",\n".join(f"  ({lean_str(m)}, [" + ", ".join(f"({lean_str(a)}, {lean_str(b)})" for a, b in f) + "])" for m, f, _ in ctor_rows))
L.append("]")
L.append("")
L.append("/-- per mode builder: statements of `new`, `try_new` and `From<T>::from` (own variant written `MODE`) -/")
L.append("def builderConstructors : List (String × List (String × List String)) := [")
L.append(",\n".join(f"  ({lean_str(m)}, [" + ", ".join(f"({lean_str(a)}, {strs(b)})" for a, b in c) + "])" for m, _, c in ctor_rows))
L.append("]")
L.append("")
L.append("/-- statements of `Performance::new` -/")
L.append(f"def performanceNew : List String := {strs(perf_new)}")
L.append("")
L.append("end Rosu.Gen.PerfSkeleton")
write_if_changed(os.path.join(out, "PerfSkeleton.lean"), "\n".join(L) + "\n")
