#!/usr/bin/env python3
"""Gen/Lookahead.lean: what the strain evaluators can SEE of the difficulty-object list, and where
each calculation path truncates the list.

* `sites`        every place in the evaluator / skill / difficulty-object code of a mode
                 (all of src/<mode>/difficulty/** except the top-level mod.rs and gradual.rs; plus
                 `define_skill!` in src/util/macros.rs and src/any/difficulty/skills.rs as mode
                 `any`) that reaches for a NEIGHBOUR of the object being processed or for the list
                 itself: `(mode, file, fn, kind, arg)` —
                   `next` / `previous`        two-argument calls `x.next(k, list)` / `x.previous(k, list)`
                                              (`arg` = normalised first argument)
                   `next_note`, `previous_note`, `previous_mono`, `next_color_change`,
                   `previous_color_change`, `first_hit_object`, `last_hit_object`,
                   `upgraded_previous`, `run_len`, `upgraded_hit_objects`, `upgraded_groups`
                                              taiko's own accessors (`arg` = normalised arguments)
                   `index`                    `<list>[…]` (`arg` = the index expression)
                   `get`                      `<list>.get(…)`
                   `list-len`                 `<list>.len()`
                   `list-iter`                `<list>.iter()/.first()/.last()/.windows(..)…`
                   `group-members`            `.hit_objects` of a taiko colour / rhythm group
                 where `<list>` is a parameter whose type is a slice of `…DifficultyObject`s or a
                 `…DifficultyObjects`, or a field named `…objects`.  File + function + normalised
                 text, never a line number.
* `accessors`    normalised bodies of `IDifficultyObject::{previous,next}` (src/any/difficulty/object.rs).
* `shapes`       per mode and path (`oneshot` = `DifficultyValues::calculate`, `gradual` =
                 `…GradualDifficulty::new`): the normalised argument list of the
                 `create_difficulty_objects(` call, whether that input — after resolving `let`-bound
                 identifiers of the same fn — contains `.take(`, and (one-shot) the normalised
                 iterator of the `for … in …` loop that calls `.process(` and whether it contains
                 `.take(`.
* `ctorTake`     per mode: every statement of `create_difficulty_objects` that mentions `take`.
* `processLists` per mode and path: the distinct last arguments of the `.process(` calls
                 (one-shot: `calculate`; gradual: `next` and `nth`).
* `unparsed`     shapes the extractor did not understand — must be empty (obligation).

Used by Props/C02b.lean.
"""
import os
import re
import sys

sys.path.insert(0, os.path.dirname(os.path.abspath(__file__)))
from _rust import clean_file, find_fns, impl_body, direct_fns, match_close, norm, split_statements, split_top  # noqa: E402
from _util import lean_str, write_if_changed  # noqa: E402

repo, out = sys.argv[1], sys.argv[2]
MODES = ["osu", "taiko", "catch", "mania"]
unparsed = []

NAMED = ["next_note", "previous_note", "previous_mono", "next_color_change", "previous_color_change",
         "first_hit_object", "last_hit_object", "upgraded_previous", "run_len", "upgraded_hit_objects",
         "upgraded_groups"]
LIST_ITER = ["iter", "iter_mut", "into_iter", "first", "last", "windows", "chunks", "split_at", "split_first",
             "split_last", "binary_search_by", "binary_search_by_key", "binary_search", "to_vec", "as_slice"]
# `…objects` identifiers that are not lists of difficulty objects (a slider's nested objects)
NOT_DIFF_LISTS = {"nested_objects"}
LIST_TYPE = re.compile(r"(\w+)\s*:\s*&\s*(?:'\w+\s+)?(?:mut\s+)?(?:\[\s*(?:\w+::)*\w*DifficultyObject\b[^\]]*\]|(?:\w+::)*\w*DifficultyObjects\b)")


def fn_spans(src):
    """(start, end, name, signature) of every fn with a body, any nesting."""
    res = []
    pat = re.compile(r"\bfn\s+(\w+)\s*(?:<[^>{};]*>)?\s*\(")
    for m in pat.finditer(src):
        close_par = match_close(src, m.end() - 1, "(", ")")
        brace = src.find("{", close_par)
        semi = src.find(";", close_par)
        if brace < 0 or (0 <= semi < brace):
            continue
        end = match_close(src, brace)
        res.append((m.start(), end, m.group(1), src[m.start():brace]))
    return res


def enclosing(spans, pos):
    best = None
    for s, e, name, sig in spans:
        if s <= pos <= e and (best is None or (e - s) < (best[1] - best[0])):
            best = (s, e, name, sig)
    return best


def call_args(src, open_par):
    close = match_close(src, open_par, "(", ")")
    return split_top(src[open_par + 1:close]), close


def scan_file(mode, path, rows):
    rel = os.path.relpath(path, repo)
    src = clean_file(path)
    spans = fn_spans(src)

    def fn_of(pos):
        e = enclosing(spans, pos)
        return e[2] if e else "<top>"

    def add(pos, kind, arg):
        rows.append((pos, mode, rel, fn_of(pos), kind, norm(arg)))

    # two-argument next / previous (zero arguments: `Iterator::next`)
    for m in re.finditer(r"\.(next|previous)\s*\(", src):
        args, _ = call_args(src, m.end() - 1)
        if m.group(1) == "next" and len(args) == 0:
            continue
        if len(args) != 2:
            unparsed.append(f"{rel}:{fn_of(m.start())}:{m.group(1)}-with-{len(args)}-args")
            continue
        add(m.start(), m.group(1), args[0])
    # taiko's own accessors
    for m in re.finditer(r"\.(" + "|".join(NAMED) + r")\s*\(", src):
        args, _ = call_args(src, m.end() - 1)
        add(m.start(), m.group(1), ",".join(args))
    for m in re.finditer(r"\.hit_objects\b(?!\s*:)", src):
        add(m.start(), "group-members", "")
    # list-typed parameters and `…objects` fields
    names = set()
    name_spans = []
    for s, e, name, sig in spans:
        for pm in LIST_TYPE.finditer(sig):
            p = pm.group(1)
            if p == "_":
                continue
            names.add(p)
            name_spans.append((p, s, e))
    # macro parameters (`$objects`) of define_skill! and friends
    alts = "|".join([r"\w*objects"] + sorted(re.escape(x) for x in names))
    ident = r"(?<![\w$])(\$?)(?:self\s*\.\s*)?(" + alts + r")\b"
    for m in re.finditer(ident, src):
        name = m.group(2)
        if not name.endswith("objects") and not any(n == name and a <= m.start() <= b for n, a, b in name_spans):
            continue  # same identifier, other fn: not a list
        if name in NOT_DIFF_LISTS:
            continue
        if m.group(1):
            continue  # `$objects` in a macro pattern / expansion: the expansion sites use plain names
        rest = src[m.end():]
        before = src[:m.start()].rstrip()
        if re.match(r"\s*\[", rest):
            br = m.end() + rest.index("[")
            close = match_close(src, br, "[", "]")
            add(m.start(), "index", src[br + 1:close])
            continue
        mm = re.match(r"\s*\.\s*(\w+)\s*(\()?", rest)
        if mm:
            meth = mm.group(1)
            if meth == "get" and mm.group(2):
                args, _ = call_args(src, m.end() + mm.end() - 1)
                if args:  # zero arguments: `RefCount::get`
                    add(m.start(), "get", ",".join(args))
            elif meth in ("len", "is_empty") and mm.group(2):
                add(m.start(), "list-len", "")
            elif meth in LIST_ITER and mm.group(2):
                add(m.start(), "list-iter", meth)
            elif meth in NAMED or meth in ("previous", "next", "push", "with_capacity"):
                pass  # accessor calls are listed above; push / with_capacity build the list
            elif meth.endswith("objects"):
                pass  # `objects.note_objects…`: the inner identifier is visited on its own
            elif name in names or before.endswith("&"):
                unparsed.append(f"{rel}:{fn_of(m.start())}:list-use-{name}.{meth}")
            continue
        # plain mention: parameter declaration, argument, struct field …: not an access
    return rows


rows = []
for mode in MODES:
    root = os.path.join(repo, "src", mode, "difficulty")
    if not os.path.isdir(root):
        unparsed.append(f"{mode}:missing-difficulty-dir")
        continue
    for d, _, files in sorted(os.walk(root)):
        for f in sorted(files):
            p = os.path.join(d, f)
            if not f.endswith(".rs") or f.startswith("verif"):
                continue
            if d == root and f in ("mod.rs", "gradual.rs"):
                continue
            file_rows = scan_file(mode, p, [])
            rows += sorted(file_rows)
for rel in ("src/util/macros.rs", "src/any/difficulty/skills.rs"):
    p = os.path.join(repo, rel)
    if os.path.exists(p):
        rows += sorted(scan_file("any", p, []))
    else:
        unparsed.append(f"missing:{rel}")

# accessor semantics
accessors = []
p = os.path.join(repo, "src", "any", "difficulty", "object.rs")
if os.path.exists(p):
    src = clean_file(p)
    tb = impl_body(src, r"\btrait\s+IDifficultyObject\b")
    got = {n: norm(b) for n, sg, b in direct_fns(tb or "")}
    for n in ("previous", "next"):
        if n in got:
            accessors.append((n, got[n]))
        else:
            unparsed.append(f"IDifficultyObject::{n}:not-found")
else:
    unparsed.append("missing:src/any/difficulty/object.rs")


# path shapes
def resolve(expr, body_norm, seen=None):
    """`expr` with identifiers bound by `let [mut] x = …;` in the same fn replaced (transitively)."""
    seen = seen or set()
    outp = expr
    for ident in set(re.findall(r"(?<![.\w:])([a-z_]\w*)\b(?!\(|::)", expr)):
        if ident in seen:
            continue
        mm = re.search(r"\blet (?:mut )?" + re.escape(ident) + r"(?::[^=;]+)?=([^;]*);", body_norm)
        if mm and "create_difficulty_objects(" not in mm.group(1) and ITERISH.search(mm.group(1)):
            outp += " <- " + ident + "=" + resolve(mm.group(1), body_norm, seen | {ident})
        for tm in re.finditer(r"(?<![.\w])" + re.escape(ident) + r"\.(truncate|drain|retain|split_off)\(", body_norm):
            outp += " <- " + ident + "." + tm.group(1) + "(..)"
    return outp


ITERISH = re.compile(r"\.iter\(|\.iter_mut\(|\.into_iter\(|\.map\(|\.take\(|\.take_while\(|\.skip\(|\[[^\]]*\.\.[^\]]*\]|convert_objects\(")
TRUNC = re.compile(r"\.take\(|\.take_while\(|\.truncate\(|\.drain\(|\.retain\(|\.split_off\(|\.split_at\(|\.step_by\(|\[[^\]]*\.\.[^\]]*\]")


shapes, ctor_take, process_lists = [], [], []
for mode in MODES:
    dpath = os.path.join(repo, "src", mode, "difficulty", "mod.rs")
    gpath = os.path.join(repo, "src", mode, "difficulty", "gradual.rs")
    for path_name, fpath in (("oneshot", dpath), ("gradual", gpath)):
        if not os.path.exists(fpath):
            unparsed.append(f"{mode}:{path_name}:missing-file")
            continue
        src = clean_file(fpath)
        if path_name == "oneshot":
            ib = impl_body(src, r"\bimpl\s+DifficultyValues\s*\{")
            bodies = [b for n, sg, b in direct_fns(ib or "") if n == "calculate"]
            proc_fns = [("calculate", b) for b in bodies]
        else:
            bodies = [b for n, sg, b in find_fns(src, "new") if "Difficulty" in sg]
            proc_fns = [(n, b) for n, sg, b in find_fns(src) if n in ("next", "nth")]
        if len(bodies) != 1:
            unparsed.append(f"{mode}:{path_name}:{len(bodies)}-entry-fns")
            continue
        body = bodies[0]
        nb = norm(body)
        calls = [m for m in re.finditer(r"\bcreate_difficulty_objects\(", body)]
        if len(calls) != 1:
            unparsed.append(f"{mode}:{path_name}:{len(calls)}-create_difficulty_objects-calls")
            continue
        args, close = call_args(body, calls[0].end() - 1)
        ctor_args = norm(",".join(args))
        resolved = resolve(ctor_args, nb)
        take_before = bool(TRUNC.search(resolved))
        # the processing loop
        loop_iter, take_loop = "-", False
        if path_name == "oneshot":
            loops = []
            for m in re.finditer(r"\bfor\b([^{;]*?)\bin\b([^{;]*)\{", body):
                end = match_close(body, m.end() - 1)
                if ".process(" in body[m.end():end]:
                    loops.append((m.start(), norm(m.group(2))))
            if len(loops) != 1:
                unparsed.append(f"{mode}:{path_name}:{len(loops)}-processing-loops")
                continue
            if loops[0][0] < calls[0].start():
                unparsed.append(f"{mode}:{path_name}:processing-loop-before-construction")
            loop_iter = resolve(loops[0][1], nb)
            take_loop = bool(TRUNC.search(loop_iter))
            if any(".process(" in s for s in split_statements(body) if not s.lstrip().startswith("for")):
                unparsed.append(f"{mode}:{path_name}:process-call-outside-the-loop")
        shapes.append((mode, path_name, ctor_args, resolved, take_before, loop_iter, take_loop))
        lists = []
        for fname, b in proc_fns:
            for m in re.finditer(r"\.process\s*\(", b):
                a, _ = call_args(b, m.end() - 1)
                if len(a) != 2:
                    unparsed.append(f"{mode}:{path_name}:{fname}:process-with-{len(a)}-args")
                    continue
                t = fname + ":" + norm(a[1])
                if t not in lists:
                    lists.append(t)
        process_lists.append((mode, path_name, lists))
    # create_difficulty_objects: statements that mention `take`
    if os.path.exists(dpath):
        src = clean_file(dpath)
        ib = impl_body(src, r"\bimpl\s+DifficultyValues\s*\{")
        cd = [(sg, b) for n, sg, b in direct_fns(ib or "") if n == "create_difficulty_objects"]
        if len(cd) != 1:
            unparsed.append(f"{mode}:{len(cd)}-create_difficulty_objects-fns")
        else:
            st = []
            for s in split_statements(cd[0][1]):
                ns = norm(s)
                if re.search(r"\btake\b", ns):
                    # long statements (the taiko iterator chain): keep the sub-expressions that mention it
                    if len(ns) > 160:
                        for piece in re.findall(r"[^{};]*\btake\b[^{};]*", ns):
                            st.append(piece)
                    else:
                        st.append(ns)
            ctor_take.append((mode, st))


def strs(xs):
    return "[" + ", ".join(lean_str(x) for x in xs) + "]"


def lb(b):
    return "true" if b else "false"


L = []
L.append("/- GENERATED by tools/translate.d/lookahead.py from /repo/src/{osu,taiko,catch,mania}/difficulty/**, src/util/macros.rs, src/any/difficulty/{object,skills}.rs — do not edit. -/")
L.append("namespace Rosu.Gen.Lookahead")
L.append("")
L.append("structure Site where\n  mode : String\n  file : String\n  fn : String\n  kind : String\n  arg : String\nderiving DecidableEq, Repr")
L.append("")
L.append("/-- every neighbour / list access in the evaluator, skill and difficulty-object code (source order per file) -/")
L.append("def sites : List Site := [")
L.append(",\n".join(f"  ⟨{lean_str(m)}, {lean_str(f)}, {lean_str(fn)}, {lean_str(k)}, {lean_str(a)}⟩" for _, m, f, fn, k, a in rows))
L.append("]")
L.append("")
L.append("/-- normalised bodies of `IDifficultyObject::{previous,next}` -/")
L.append("def accessors : List (String × String) := [")
L.append(",\n".join(f"  ({lean_str(a)}, {lean_str(b)})" for a, b in accessors))
L.append("]")
L.append("")
L.append("structure Shape where\n  mode : String\n  path : String\n  ctorArgs : String\n  ctorInput : String\n  takeBeforeCtor : Bool\n  loopIter : String\n  takeAtLoop : Bool\nderiving DecidableEq, Repr")
L.append("")
L.append("/-- where each path truncates the object list relative to `create_difficulty_objects` and the processing loop -/")
L.append("def shapes : List Shape := [")
L.append(",\n".join(f"  ⟨{lean_str(m)}, {lean_str(p)}, {lean_str(a)}, {lean_str(r)}, {lb(tb)}, {lean_str(li)}, {lb(tl)}⟩" for m, p, a, r, tb, li, tl in shapes))
L.append("]")
L.append("")
L.append("/-- statements of `create_difficulty_objects` that mention `take` -/")
L.append("def ctorTake : List (String × List String) := [")
L.append(",\n".join(f"  ({lean_str(m)}, {strs(s)})" for m, s in ctor_take))
L.append("]")
L.append("")
L.append("/-- (mode, path, `<fn>:<list argument>` of every `.process(` call) -/")
L.append("def processLists : List (String × String × List String) := [")
L.append(",\n".join(f"  ({lean_str(m)}, {lean_str(p)}, {strs(s)})" for m, p, s in process_lists))
L.append("]")
L.append("")
L.append("/-- shapes the extractor did not understand (must be empty) -/")
L.append(f"def unparsed : List String := {strs(unparsed)}")
L.append("")
L.append("end Rosu.Gen.Lookahead")
write_if_changed(os.path.join(out, "Lookahead.lean"), "\n".join(L) + "\n")
