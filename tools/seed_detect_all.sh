#!/bin/bash
# seed_detect_all.sh [-j N] <seed-name>...   (default: every seeded/<name> that has a props.txt)
# Re-runs the quick checks listed in seeded/<name>/props.txt against each seeded change, each in its own
# mount namespace (tools/seed_ns.sh), N at a time, and rewrites seeded/<name>/detection.txt.
# Prints one summary line per seed: which checks reported a VIOLATION (and whether with a concrete input).
cd "$(dirname "$0")/.."
J=3
if [ "${1:-}" = "-j" ]; then J=$2; shift 2; fi
if [ $# -eq 0 ]; then set -- $(for f in seeded/*/props.txt; do basename "$(dirname "$f")"; done); fi
run_one() {
  n=$1
  props=$(cat seeded/$n/props.txt)
  tools/seed_ns.sh seeded/$n $props >/dev/null 2>&1
  hit=$(grep -E "VIOLATION" seeded/$n/detection.txt | sed -E 's/.*property=(C[0-9]+).*(no-failing-input-found)?.*/\1/' | tr '\n' ' ')
  nf=$(grep -c "no-failing-input-found" seeded/$n/detection.txt)
  own=${n%%-*}
  if grep -q "VIOLATION property=$own " seeded/$n/detection.txt; then s=CAUGHT; else s=MISSED-BY-OWN; fi
  echo "$s $n : violations by [$hit] (without concrete input: $nf)"
}
export -f run_one
printf '%s\n' "$@" | xargs -P "$J" -I{} bash -c 'run_one {}'
