#!/bin/bash
# confirm_seed3.sh <Cxx> <name>: confirms a seeded change produced in the worktree /tmp/${SEEDPFX:-seed3}-Cxx (outputs in
# /tmp/${SEEDPFX:-seed3}-Cxx-out) and, if confirmed, files it under /verif/seeded/<name>/.
# Confirmed = patch applies to a clean checkout, demo fails with it and passes without, the crate's test suite
# has no failing test other than the baseline's always-failing difficulty::basic_osu.
set -u
P=$1; NAME=$2; W=/tmp/${SEEDPFX:-seed3}-$P; O=/tmp/${SEEDPFX:-seed3}-$P-out
L=/tmp/${SEEDPFX:-seed3}-$P-confirm; mkdir -p $L
cd $W || exit 2
[ -f $O/patch.diff ] && [ -f $O/demo.rs ] && [ -f $O/meta.json ] || { echo "outputs missing in $O"; exit 2; }
git checkout -q -- . 2>/dev/null
git apply $O/patch.diff || { echo "patch does not apply"; exit 2; }
mkdir -p examples; cp $O/demo.rs examples/demo.rs
echo "--- demo WITH change (expect failure)"; timeout 600 cargo run -q --offline --example demo >$L/with.log 2>&1; RC_WITH=$?; tail -3 $L/with.log | cut -c1-300
git apply -R $O/patch.diff
echo "--- demo WITHOUT change (expect success)"; timeout 600 cargo run -q --offline --example demo >$L/without.log 2>&1; RC_WITHOUT=$?; tail -3 $L/without.log | cut -c1-300
git apply $O/patch.diff
echo "--- test suite with change"; timeout 1800 cargo test --offline --no-fail-fast >$L/tests.log 2>&1
FAILS=$(grep -E "^test [A-Za-z0-9_:]+ \.\.\. FAILED" $L/tests.log | grep -v "basic_osu" | wc -l)
NRES=$(grep -c "^test result" $L/tests.log)
grep -E "^test [A-Za-z0-9_:]+ \.\.\. FAILED" $L/tests.log | head
echo "demo rc with=$RC_WITH without=$RC_WITHOUT; unexpected failing tests=$FAILS; test binaries=$NRES"
if [ $RC_WITH -ne 0 ] && [ $RC_WITHOUT -eq 0 ] && [ $FAILS -eq 0 ] && [ $NRES -ge 3 ]; then
  D=/verif/seeded/$NAME; mkdir -p $D; cp $O/patch.diff $D/; cp $O/demo.rs $D/demo.rs; cp $O/meta.json $D/meta.json
  echo "CONFIRMED -> $D"
else
  echo "NOT CONFIRMED"
fi
