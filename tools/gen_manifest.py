#!/usr/bin/env python3
"""Writes MANIFEST.json from tools/props.py + tools/manifest_extra.py."""
import json, os, sys
sys.path.insert(0, os.path.dirname(os.path.abspath(__file__)))
from props import PROPS
from manifest_extra import NOT_APPLICABLE, HOOK_COMMITS

checks = []
for pid in sorted(PROPS):
    cfg = PROPS[pid]
    lt = {"text": cfg["level_text"], "note": cfg["level_note"], "technique": cfg["technique"]}
    checks.append({
        "property_id": pid,
        "quick_cmd": f"./check {pid} --tier quick",
        "thorough_cmd": f"./check {pid} --tier thorough",
        "evidence_file": f"/verif/evidence/{pid}.json",
        "replay_cmd_template": f"./check {pid} --replay {{path}}",
        "engine": "lean-proof+correspondence",
        "level_claimed": {"category": cfg.get("level", "proof"), "text": lt["text"], "design_ref": lt.get("design_ref", f"DESIGN.md section 5, {pid}")},
        "level_note": lt["note"],
        "technique": lt["technique"],
    })
manifest = {
    "version": 1,
    "setup_cmd": "./setup.sh",
    "hooks": {
        "guard": "--cfg rosu_pp_verif",
        "enable": "RUSTFLAGS=\"--cfg rosu_pp_verif\" (set in harness/.cargo/config.toml; the harness crate depends on /repo by path)",
        "baseline_off_cmd": "cd /repo && cargo test --workspace --no-fail-fast --offline",
        "source_commits": HOOK_COMMITS,
        "add_only": True,
    },
    "engines": [
        {"name": "lean-proof+correspondence", "path": "/verif/lean", "serves_properties": sorted(PROPS),
         "kind_free_text": "Lean 4 theorems about hand-written executable models (lean/RosuModel/Model), translator-generated tables (lean/RosuModel/Gen), compiled model driver diffed against a Rust harness that drives the real library in-process; direct property oracles on the implementation supply concrete replays"},
    ],
    "checks": checks,
    "not_applicable": [{"property_id": k, "reason": v} for k, v in sorted(NOT_APPLICABLE.items()) if k not in PROPS],
    "notes": "Every check: (1) regenerates Gen/*.lean from /repo and rebuilds the Lean theorems + axiom audit, (2) rebuilds the harness against /repo's working tree with the hook cfg, (3) diffs implementation observations against the Lean model driver, (4) runs direct oracles; known findings are listed in known_findings.json.",
}
json.dump(manifest, open(os.path.join(os.path.dirname(os.path.dirname(os.path.abspath(__file__))), "MANIFEST.json"), "w"), indent=1)
print("wrote MANIFEST.json with", len(checks), "checks;", len(manifest["not_applicable"]), "not applicable")
