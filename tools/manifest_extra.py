HOOK_COMMITS = ["619d6a4", "cd1769c"]

PENDING = "not claimed yet in this revision: model and theorems are still being built (see DESIGN.md section 5); it will be claimed once its check exists"

NOT_APPLICABLE = {f"C{i:02d}": PENDING for i in range(1, 21)}

LEVEL_TEXT = {
    "C02": {
        "text": "Lean theorems: for every object list and every abstract skill state, the i-th next() of the osu!/catch gradual machines equals the one-shot model with passed_objects=i, the machine yields exactly len() values and the last equals the full calculation (mania under the hypothesis incGrad=incOne, taiko falsified by decide-witnesses = known findings). The models are tied to /repo on every run by exact comparison of len/next walks (integer attribute fields and skill-signature class) between the real calculators and the compiled model, and every gradual value is compared bit-for-bit with the real one-shot result.",
        "note": "Trusted: Lean kernel (+propext, Classical.choice, Quot.sound), hand-written model of the bookkeeping (Model/Gradual.lean), correspondence harness; strain skills/evaluators are abstract (S, process); rosu-map decoding exercised not modelled.",
        "technique": "Lean 4 proof by induction over next calls (canonical-state invariant) + model/implementation correspondence",
    },
    "C14": {
        "text": "Lean theorems: the four take-gated counting mechanisms equal plain prefix sums for every object list and every n (osu inspect closure, taiko max_combo<take, catch regular builder = gradual records under the no-trailing-tiny hypothesis, mania lazy take), hence kinds partition, monotone in n, capped at the total. Tied to /repo by comparing the model's counts for every n in 0..total+1 and u32::MAX with the real one-shot attributes; direct oracles check the counts against the decoded map itself.",
        "note": "Trusted: Lean kernel, Model/Gradual.lean one-shot functions, per-object summaries from the hook (osu nested counts, catch record sequence, mania increments), correspondence harness.",
        "technique": "Lean 4 proof (fold/prefix-sum equalities) + model/implementation correspondence",
    },
    "C15": {
        "text": "Lean theorems over arbitrary operation sequences (next, nth k for any k, len): every reachable state of the osu!/catch/mania machines is canonical (idx <= n), len() = remaining and never underflows, exhausted stays None, nth processes min(k+1, remaining) and equals k+1 next calls whenever k < remaining, no panic; the full Iterator::nth contract is proved FALSE of the code (decide witness; known finding), taiko's violations are decide-witnesses. Tied to /repo by exact comparison of exhaustive short and random long op sequences between real calculators and the compiled model; direct oracles re-check len/nth/adaptors on the implementation.",
        "note": "Trusted: Lean kernel, Model/Gradual.lean machines (release-profile wrap-around modelled for taiko len), correspondence harness.",
        "technique": "Lean 4 proof: invariant over arbitrary op sequences (reachable-state induction) + model/implementation correspondence",
    },
}
