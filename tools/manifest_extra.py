HOOK_COMMITS = ["619d6a4", "cd1769c", "2c6d5d3", "1305a4a", "2212eef", "9305180", "d610073", "0581a33", "070ef38", "57bfc5e", "cfec00a", "afb6dc2", "c16a77c", "b219920", "0e3f6de", "f4719ea", "ee0abb0", "711fa36", "eca61b3", "6ff9b0b", "bd30adc", "815035c"]

PENDING = "not claimed yet in this revision: model and theorems are still being built (see DESIGN.md section 5); it will be claimed once its check exists"

NOT_APPLICABLE = {f"C{i:02d}": PENDING for i in range(1, 21)}
