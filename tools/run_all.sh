#!/bin/bash
# runs every claimed check (quick by default) on the current tree and validates the evidence
cd "$(dirname "$0")/.."
TIER=${1:-quick}
fail=0
for p in $(python3 -c "import json;print(' '.join(c['property_id'] for c in json.load(open('MANIFEST.json'))['checks']))"); do
  s=$(date +%s)
  out=$(./check $p --tier $TIER 2>&1); rc=$?
  e=$(date +%s)
  echo "$out" | grep -E "tier=|^VIOLATION" | sed "s/^/[rc=$rc $((e-s))s] /"
  [ $rc -ne 0 ] && fail=1
done
python3-vt - <<'PY'
import json,glob
from jsonschema import validate
m=json.load(open('MANIFEST.json'))
validate(m, json.load(open('/root/.vp/MANIFEST.schema.json')))
bad=0
for c in m['checks']:
    try:
        validate(json.load(open(c['evidence_file'])), json.load(open('/root/.vp/EVIDENCE.schema.json')))
    except Exception as e:
        bad+=1; print("INVALID EVIDENCE", c['property_id'], str(e)[:200])
print("manifest+evidence valid" if not bad else f"{bad} invalid evidence files")
PY
exit $fail
