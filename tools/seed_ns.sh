#!/bin/bash
# seed_ns.sh <seed-dir> <props...>
# Runs the quick checks <props...> against the seeded change <seed-dir>/patch.diff WITHOUT touching /repo or
# /verif: a scratch clone of /repo gets the patch (git apply), a scratch copy of /verif (with its warm build
# caches) is used as the framework, and both are mounted at /repo and /verif in a private mount namespace
# (tools/ns.sh). Writes <seed-dir>/detection.txt and removes the scratch copies afterwards.
# Several of these can run at the same time.
set -u
D=$(readlink -f "$1"); shift
NAME=$(basename "$D")
S=/work/seed-$NAME-$$
rm -rf "$S"; mkdir -p "$S"
trap 'rm -rf "$S"' EXIT
git clone -q /repo "$S/repo" || exit 2
git -C "$S/repo" apply "$D/patch.diff" || { echo "patch does not apply"; exit 2; }
rsync -a --exclude replays --exclude 'evidence' /verif/ "$S/verif/"
mkdir -p "$S/verif/evidence" "$S/verif/replays"
: > "$D/detection.txt"
for p in "$@"; do
  out=$(/verif/tools/ns.sh "$S/repo" "$S/verif" -- env VERIF_NO_EVIDENCE=1 ./check "$p" --tier quick 2>&1); rc=$?
  echo "$out" | grep -E "^VIOLATION|tier=|^  " | sed "s/^/[$p rc=$rc] /" | cut -c1-400 | tee -a "$D/detection.txt"
done
