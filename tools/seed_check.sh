#!/bin/bash
# seed_check.sh <name> <props...>: applies /verif/seeded/<name>/patch.diff to /repo, runs the checks, reverts, records the outcome
set -u
NAME=$1; shift
D=/verif/seeded/$NAME
git -C /repo apply $D/patch.diff || { echo "patch does not apply"; exit 2; }
cd /verif
: > $D/detection.txt
for p in "$@"; do
  out=$(VERIF_NO_EVIDENCE=1 ./check $p 2>&1); rc=$?
  echo "$out" | grep -E "^VIOLATION|tier=|^  " | sed "s/^/[$p rc=$rc] /" | cut -c1-400 | tee -a $D/detection.txt
done
git -C /repo apply -R $D/patch.diff || git -C /repo checkout -- $(git -C /repo apply --numstat $D/patch.diff | awk '{print $3}')
git -C /repo status --short
