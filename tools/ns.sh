#!/bin/bash
# ns.sh <repo-dir> <verif-dir> -- <command...>
# Runs <command> in a private mount namespace in which /repo is <repo-dir> and /verif is <verif-dir>
# (bind mounts), so that every absolute path baked into the harness (Cargo path dependency, cargo
# fingerprints, translator inputs) resolves to the scratch copies. Used to
#   * let several workers build and run checks at the same time without touching /repo or /verif,
#   * run the checks against a seeded change applied to a scratch worktree of /repo.
# Nothing registered in MANIFEST.json goes through this script: the registered checks always run in
# /verif against /repo itself.
set -eu
R=$(readlink -f "$1"); V=$(readlink -f "$2"); shift 2
[ "$1" = "--" ] && shift
[ -d "$R" ] && [ -d "$V" ] || { echo "ns.sh: missing directory" >&2; exit 2; }
exec unshare -m bash -c '
  R=$1; V=$2; shift 2
  mount --make-rprivate / 2>/dev/null || true
  [ "$R" = /repo ] || mount --bind "$R" /repo
  [ "$V" = /verif ] || mount --bind "$V" /verif
  cd /verif
  exec "$@"' ns "$R" "$V" "$@"
